CONSTANTS
  TRec = 10
  TErr = 100
SPECIFICATION Spec
INVARIANTS
  TypeOK
  ErrorOnlyAfterErrorTimeout
  ReconnectOnlyAfterTimeout
PROPERTIES
  NoDirectOkToReconnect
  NoDirectIssueToError
  ErrorLeavesOnlyByReconnect
