------------------------------ MODULE HwRecovery ------------------------------
(* Reference model of the hardware error-recovery protocol documented in          *)
(* docs/src/Error Recovery.rst (OK / Issue / Reconnect / Error / Disconnected).   *)
(* Time is kept as ages (time since the last successful read/write, since the     *)
(* first failure of the current issue, since reconnecting began), capped just     *)
(* above the threshold they are compared with.  The model is nondeterministic     *)
(* only where the text is silent: WHEN an expired timeout is noticed (at the      *)
(* elapse or at the next request) and whether a successful reconnect counts as a  *)
(* successful read/write for the next issue timeout.                               *)
(* Every edge of the reachable graph (tlc -dump dot,actionlabels) is replayed     *)
(* against the real ErrorRecoveryDecorator by mc/tlc_replay.py.                   *)
EXTENDS Naturals

CONSTANTS TRec, TErr          \* reconnect timeout, error timeout (harness: 10, 100)

VARIABLES st, aOk, aIssue, aRec
vars == <<st, aOk, aIssue, aRec>>

States == {"Disconnected", "OK", "Issue", "Reconnect", "Error"}

CapRec == TRec + 1
CapErr == TErr + 1
Min(a, b) == IF a < b THEN a ELSE b

TypeOK == /\ st \in States
          /\ aOk \in 0..CapRec
          /\ aIssue \in 0..CapRec
          /\ aRec \in 0..CapErr

Init == /\ st \in {"OK", "Disconnected"}
        /\ aOk = 0 /\ aIssue = 0 /\ aRec = 0

IssueExpired(o, i) == o > TRec \/ i > TRec
IssueMust(o, i)    == o > TRec /\ i > TRec
RecExpired(r)      == r > TErr

Stay == UNCHANGED vars

ToReconnect(o, i) == st' = "Reconnect" /\ aOk' = o /\ aIssue' = i /\ aRec' = 0
ToError(o, i, r)  == st' = "Error" /\ aOk' = o /\ aIssue' = i /\ aRec' = r
ToOK(o)           == st' = "OK" /\ aOk' = o /\ aIssue' = 0 /\ aRec' = 0

\* a read or write is requested and the hardware would answer
RwOk ==
    \/ st \in {"Disconnected", "Error"} /\ Stay
    \/ st \in {"OK", "Issue"} /\ ToOK(0)
    \/ st = "Reconnect" /\ IF RecExpired(aRec) THEN ToError(aOk, aIssue, aRec) ELSE Stay

\* a read or write is requested and the hardware would fail
RwErr ==
    \/ st \in {"Disconnected", "Error"} /\ Stay
    \/ st = "OK" /\ st' = "Issue" /\ aOk' = aOk /\ aIssue' = 0 /\ aRec' = 0
    \/ st = "Issue" /\ (\/ IssueExpired(aOk, aIssue) /\ ToReconnect(aOk, aIssue)
                        \/ ~IssueMust(aOk, aIssue) /\ Stay)
    \/ st = "Reconnect" /\ IF RecExpired(aRec) THEN ToError(aOk, aIssue, aRec) ELSE Stay

\* d time units pass without a request (also: a tick of the engine outside Reconnect/Error, d = 0)
Elapse(d) ==
    LET o == Min(aOk + d, CapRec)
        i == Min(aIssue + d, CapRec)
        r == Min(aRec + d, CapErr)
    IN \/ st = "Disconnected" /\ Stay
       \/ st = "OK" /\ st' = st /\ aOk' = o /\ aIssue' = 0 /\ aRec' = 0
       \/ st = "Issue" /\ (\/ st' = st /\ aOk' = o /\ aIssue' = i /\ aRec' = 0
                           \/ IssueExpired(o, i) /\ ToReconnect(o, i))
       \/ st = "Reconnect" /\ (\/ st' = st /\ aOk' = o /\ aIssue' = i /\ aRec' = r
                               \/ RecExpired(r) /\ ToError(o, i, r))
       \/ st = "Error" /\ st' = st /\ aOk' = o /\ aIssue' = i /\ aRec' = r

Elapse0   == Elapse(0)
Elapse1   == Elapse(1)
Elapse11  == Elapse(TRec + 1)
Elapse101 == Elapse(TErr + 1)

\* a back-off tick in Reconnect / Error on which the reconnect attempt succeeds / fails
ReconOk ==
    /\ st \in {"Reconnect", "Error"}
    /\ (ToOK(aOk) \/ ToOK(0))

ReconFail ==
    \/ st = "Reconnect" /\ (Stay \/ (RecExpired(aRec) /\ ToError(aOk, aIssue, aRec)))
    \/ st = "Error" /\ Stay

ConnectOk   == st = "Disconnected" /\ ToOK(0)
ConnectFail == st = "Disconnected" /\ Stay

Next == RwOk \/ RwErr \/ Elapse0 \/ Elapse1 \/ Elapse11 \/ Elapse101 \/ ReconOk \/ ReconFail \/ ConnectOk \/ ConnectFail

Spec == Init /\ [][Next]_vars

\* properties of the documented protocol, checked by TLC on the model itself
ErrorOnlyAfterErrorTimeout == st = "Error" => aRec > TErr
ReconnectOnlyAfterTimeout  == st \in {"Reconnect", "Error"} => (aOk > TRec \/ aIssue > TRec)
NoDirectOkToReconnect      == [][ st = "OK" => st' \in {"OK", "Issue"} ]_vars
NoDirectIssueToError       == [][ st = "Issue" => st' \in {"Issue", "OK", "Reconnect"} ]_vars
ErrorLeavesOnlyByReconnect == [][ st = "Error" => st' \in {"Error", "OK"} ]_vars
=============================================================================
