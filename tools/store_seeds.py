"""usage: tools/store_seeds.py  -- copy confirmed seeded changes into /verif/seeded/<name>/ and write /verif/seeded/README.md

Sources: /tmp/seed (wave 1), /tmp/seed2 (wave 2): <ID>.patch.diff, <ID>.demo_test.py, <ID>.meta.json from the sub-agent,
and /tmp/confirm/<wave>_<ID>.result.json written by tools/confirm_seed.sh (my own confirmation).  A change is kept only
when the confirmation says: patch applies to HEAD, compiles, demonstration passes without / fails with the change, no test
fails with it apart from the baseline's known failures (after re-running failed tests alone), and the check reports a violation.
NOTES (below) = what had to be strengthened before the check caught the change (written by hand while doing it).
"""
import json
import os
import re
import shutil

WAVES = [("/tmp/seed", "seed", ""), ("/tmp/seed2", "seed2", "-2"), ("/tmp/seed3", "seed3", "-3"), ("/tmp/seed4", "seed4", "-4"),
         ("/tmp/seed5", "seed5", "-5"), ("/tmp/seed6", "seed6", "-6"),
         ("/tmp/seed7", "seed7", "-7")]
# changes that are caught by the check of another property (the other check's id)
CAUGHT_BY = {}
OUT = "/verif/seeded"
NOTES = {
    ("seed", "C01"): "caught after indentation-only edits of started lines were added to the edit alphabet",
    ("seed", "C02"): "caught after the repeated-invocation family (macro called twice, re-firing Alarm; differential oracle against the body run alone) was added",
    ("seed", "C03"): "caught after repeated Wait executions (macro called twice / Alarm body) were judged per execution",
    ("seed", "C04"): "caught after cancels accepted late (after activation) were judged too",
    ("seed", "C09"): "caught after the frame condition (no output changes to a pre-pause value while not paused) and the timed-Pause seed history were added",
    ("seed", "C11"): "caught after a command declared in two overlap lists (OvB in [OvA,OvB] and [OvB,OvC]) was added to the harness UOD and corpus",
    ("seed", "C15"): "caught after other onsets of the Watch/Alarm condition and Alarm programs were added",
    ("seed", "C18"): "caught after text values with digit tails were added to the value alphabet",
    ("seed", "C20"): "caught after tags with units of the percentage family (vol%, %) and conditions on them were added",
    ("seed", "C24"): "caught after torn (partially applied) writes and re-commanded earlier values were added; stale oracle by command sequence number",
    ("seed", "C25"): "caught after sequences of batch/single writes with repeated values (part C) were added",
    ("seed", "C28"): "caught after oracle (a'): a stopped run must not be resumed by a later re-registration",
    ("seed", "C29"): "caught after an event older than the recorded time (tA-9) was added",
    ("seed", "C30"): "caught after the bounce macro event (disc+reg+conn+uod in one step) was added",
    ("seed2", "C01"): "caught after edits of lines that were reported executed earlier (macro definition during its call) and macro programs were added",
    ("seed2", "C02"): "caught after the second-run family (Stop, Start; second run compared with the first) was added",
    ("seed2", "C03"): "first caught only by C07; caught by C03 after the independent reference clock and overlapping Pause/Hold schedules were added",
    ("seed2", "C04"): "caught after every Alarm run needed its own justification (condition since the previous completion or an unused force)",
    ("seed2", "C05"): "caught after the structured family Block(Watch(Block..), sibling block) was added",
    ("seed2", "C07"): "caught after second-run setups (run ended while Paused / restarted on Hold) were added",
    ("seed2", "C09"): "caught after user-issued output commands during a pause (alphabet B, commands On1/OpenV) were added",
    ("seed2", "C14"): "caught after overlapping double injections were added",
    ("seed2", "C18"): "caught after the numeric values covered the float grammar (exponent sign forms)",
    ("seed2", "C21"): "caught after other spellings of equal numbers (1.0, +1, 1e0, -0) were added",
    ("seed2", "C22"): "caught after RegexNumberOptional patterns were added (this also exposed the get_units defect fixed in eb412505)",
    ("seed2", "C24"): "caught after the single-register write exploration with a failing flush was added (this also exposed the defect fixed in f6d589ad)",
    ("seed2", "C28"): "caught after the harness reports carried the System State tag like the real engine",
    ("seed2", "C30"): "caught after the known-finding signature 'after-foreign-run-stopped' was narrowed (it absorbed this change)",
    ("seed2", "C34"): "caught after the tie rule was tightened to 'the value recorded last'",
    ("seed2", "C40"): "caught after request-first thread order over a 4-tick window was added",
    ("seed2", "C41"): "caught after the redefinition family (a macro defined twice) was added",
    ("seed3", "C02"): "caught after the family 'macro first called inside a Block, then again at top level' was added",
    ("seed3", "C07"): "caught after Process Time was judged over the Restarting->Stopped tick as well",
    ("seed3", "C08"): "caught after a read-back output register (direction Both, safe value) was added to the harness UOD",
    ("seed3", "C09"): "caught after a failing user command during a pause (alphabet B: Fail) and the paused-with-driven-outputs seed history were added",
    ("seed3", "C10"): "caught after a derived tag registered before its input and a simulation to the current value were added",
    ("seed3", "C12"): "caught after a cancel of the same item 1..3 ticks after an accepted force was added",
    ("seed3", "C16"): "caught after an instant output command (Valve) was added to the C16/C36 corpus (Pause/Unpause then restores a driven output)",
    ("seed3", "C17"): "caught in the thorough tier at once; in the quick tier after 5-line texts over a mini alphabet were added",
    ("seed3", "C19"): "caught after 'missing value' lines for every comparator were added",
    ("seed3", "C20"): "caught after a UOD command with a hand-written un-anchored regex was added to the harness",
    ("seed3", "C25"): "first reported as harness nondeterminism (exit 2); now the isolation probe and the framework report state carried between fresh instances as a violation",
    ("seed3", "C28"): "first caught only by C30 (after exceptions from aggregator entry points were made violations instead of harness errors); caught by C28 itself after the second exploration with a second run id was added",
    ("seed3", "C33"): "caught after every one-user configuration was also stored as the second save of that user",
    ("seed3", "C36"): "caught after runs with 400 ticks without a report were added",
    ("seed3", "C40"): "caught after scenarios in which a UOD command is handed over inside the window were added",
    ("seed3", "C41"): "caught after recursion closed from inside an Alarm/Watch/Block in a macro body was added",
    ("seed4", "C01"): "caught after edits that fill in a passed blank/comment line were added",
    ("seed4", "C03"): "caught after the independent volume reference for thresholds in (nested) blocks was added",
    ("seed4", "C04"): "caught after the oracle 'every completed Alarm run executes its whole body' and Alarm bodies with a Block were added (the same change is wave-1 C02)",
    ("seed4", "C11"): "caught after the oracle 'of same-tick requests of one group the last one wins' was added (the same change is caught by C08)",
    ("seed4", "C12"): "caught after the cancel of a timed Hold/Pause while the user's Pause/Hold is in effect was added",
    ("seed4", "C13"): "caught after the oracle 'a line reported failed implies the error pause' was added",
    ("seed4", "C14"): "caught after the same snippet text injected twice was added",
    ("seed4", "C16"): "caught after block-lock contention programs were added to the C16/C36 corpus",
    ("seed4", "C18"): "caught in the thorough tier at once; in the quick tier after two blanks between number and unit were added",
    ("seed4", "C20"): "caught after durations in other time units (ms) were added",
    ("seed4", "C21"): "caught after values differing beyond the decimal context precision were added on the same-unit path",
    ("seed4", "C24"): "caught after the exploration starting in Reconnect with the error timeout elapsed was added",
    ("seed4", "C25"): "caught after None was added as a written value",
    ("seed4", "C27"): "first crashed the harness (RecursionError while cancelling leftover tasks); the wait cycle among the runner's tasks is now reported as a violation",
    ("seed4", "C28"): "first reported as harness nondeterminism: the harness's virtual wall clock was not reset per execution; now deterministic and caught",
    ("seed4", "C29"): "caught after a run_started of the active run delivered again mid-stream was added",
    ("seed4", "C32"): "caught after live units whose RecentEngine row has no required roles were added to the world",
    ("seed4", "C36"): "caught after runs in which the Connection Status tag switches were added",
    ("seed4", "C38"): "caught after the second BFS with names the id function escapes was added",
    ("seed4", "C40"): "caught after the oracle 'legal requests must not put the engine into its error state, also in serial orders' was added",
    ("seed4", "C41"): "caught after the three-macro family (cycle closed by a later call of a body) was added",
    ("seed5", "C01"): "caught after rejected edits while the run stands in its error state (methods with a failing instruction) were added; error state and Method Status are part of the tick-for-tick comparison",
    ("seed5", "C02"): "caught after the family 'macro as the last scope of the text with trailing whitespace, called from a Watch' was added",
    ("seed5", "C03"): "caught after the independent upper bound (lateness) for top-level thresholds after an inner scope was added",
    ("seed5", "C04"): "caught after the family 'Watch/Alarm whose body is End block, followed by a sibling Watch/Alarm of the same block' was added ('runs' now means a body line executes)",
    ("seed5", "C07"): "caught after Process Time was judged by the control flags (paused/holding) as well as by System State",
    ("seed5", "C09"): "caught after an output register whose tag declares no direction (Out4) was added to the harness UOD",
    ("seed5", "C10"): "caught after UOD commands started by a user's control request (no method line) running when Stop/Restart begins were added",
    ("seed5", "C13"): "caught after two-line methods with the user resuming (Unpause at ticks 5,7,9,11, no edit) after each error pause were added: a second failing line must be reported failed too",
    ("seed5", "C15"): "caught after code injections (Mark / Inst+Mark / Long) were added to the deviations and injected instructions to the 'completed instruction appears as completed item' oracle",
    ("seed5", "C18"): "caught after unit-less values ending in 2 or 3 (12, 0.3, 23, -1.2) were added",
    ("seed5", "C22"): "caught after an item ending in a backslash was added to the unit/option items",
    ("seed5", "C23"): "caught after a register that is read on its own (not part of the batch) was added as a second exploration",
    ("seed5", "C24"): "caught after a successful batch that does not command the buffered register (wb_new_one_ok) was added to the single-write exploration",
    ("seed5", "C25"): "caught after read - write - read sequences (incl. writing 'no value') were added to part C",
    ("seed5", "C26"): "caught after non-finite floats were asserted over serialize -> JSON text -> deserialize (over the RPC wire they are lost on the unchanged tree too and stay recorded only)",
    ("seed5", "C31"): "caught after saves that carry the same text as each other / as the stored method were added",
    ("seed5", "C35"): "caught after the entry times were moved to epoch scale, half a second apart",
    ("seed5", "C36"): "caught after a uod tag whose value changes inside its connection-status event hook was added to the connection family",
    ("seed5", "C37"): "caught after part B was added: the handling of one disconnect explored callback by callback with a slow/broken subscriber of the active-users topics and an engine registering after every number of callbacks",
    ("seed5", "C38"): "caught after names built from tokens with percent escapes (%41, %2F, %2f, %25) were added",
    ("seed5", "C41"): "caught after the family 'macro whose body contains a Block, called two or three times' was added",
    ("seed6", "C01"): "caught after threshold-only changes of started / executed / once-executed lines and macros that are called twice were added",
    ("seed6", "C02"): "caught after the oracle 'a plain predecessor (Mark, Wait, End block) has completed - not merely been left - before the next line is visited' was added",
    ("seed6", "C03"): "caught after the second-run family was added (run stopped while running / paused / on hold, started again; marks by offset compared with a plain second run); the family exposed the Scope Time defect repaired in 47be9910",
    ("seed6", "C06"): "caught after the oracle 'the reported control state does not say paused / on hold while no run is active' was added",
    ("seed6", "C08"): "caught after errors arriving while the run is on hold / paused (user command that raises) were added and the known error-pause finding was narrowed to 'command started in the error tick'",
    ("seed6", "C09"): "caught after a method with an Unpause instruction (executes although the run is not paused) was added",
    ("seed6", "C11"): "caught after a command whose finalizer raises (FinBoom) was added to the harness UOD; this exposed the instance leak repaired in 44a90551",
    ("seed6", "C15"): "caught after the deviation 'the unchanged method is saved again before tick 1' (plain set after Start) was added",
    ("seed6", "C16"): "caught after the UOD and engine objects were constructed 3 s (virtual) before engine start; this exposed the uod-tag time defect repaired in c45d0ab1; the sub-agent's patch was rebased onto that repair (patch.orig.diff is the original)",
    ("seed6", "C17"): "caught after lines indented with a tab / two spaces and a tab were added to the alphabets",
    ("seed6", "C19"): "caught after lines that are not instructions at all (': 5', '-Mark: a') were added",
    ("seed6", "C20"): "caught after Base arguments that end / begin with a registered unit (mins, 2 min, sx) were added",
    ("seed6", "C22"): "caught after an item with the other characters re.escape escapes (&, #, ~) was added",
    ("seed6", "C24"): "caught after the third exploration was added: a batch whose first register is unmodified fails, the outage ends with a write of a register outside the batch (W3)",
    ("seed6", "C25"): "caught after composites that were never connected / were disconnected again (layers usable) were added",
    ("seed6", "C27"): "caught after reconnects went through the real registration routine (_register_for_engine_id_async) instead of a stub",
    ("seed6", "C28"): "caught after the third exploration with 'kill' (aggregator dies without shutdown handling and restarts on the same database) was added",
    ("seed6", "C29"): "caught after a Mark (system tag) reported between two samples was added",
    ("seed6", "C31"): "caught after the engine's own stale method report (MethodMsg) delivered between / during the saves was added",
    ("seed6", "C32"): "caught after engines with two recent runs whose required roles differ were added",
    ("seed6", "C36"): "caught after programs with a UOD command that raises inside the command manager's tick were added to the C16/C36 corpus",
    ("seed6", "C37"): "caught after every second connection listed the dead-man-switch topic last in its subscribe call",
    ("seed6", "C38"): "caught after the third BFS with registrations from an engine of another version (with / without the ignore flag) was added",
    ("seed7", "C01"): "caught after edits that carry an explicit version number (equal to / one above the engine's) on a method at version 3 were added",
    ("seed7", "C02"): "caught after the scenario 'macro whose body holds a Watch, called two or three times' (shared with C41) was added",
    ("seed7", "C03"): "caught after the independent reference clock for thresholds inside blocks was added",
    ("seed7", "C09"): "caught after seed histories with the run on hold and paused (both orders) were added",
    ("seed7", "C18"): "caught after a comment that contains a '#' was added to the line product",
    ("seed7", "C20"): "caught after 'Simulate off' with a short undefined tag name was added",
    ("seed7", "C22"): "caught after the lists the UOD derives from a pattern (command description, entry units of a process value) were added",
    ("seed7", "C24"): "caught after the fourth exploration was added (write outside the batch fails, the flush after the next batch fails too, then only unchanged batches)",
    ("seed7", "C31"): "caught after cases in which all saves come from the same user were added",
    ("seed7", "C36"): "caught after programs that simulate a tag to another value and then to its real value were added to the C16/C36 corpus",
    ("seed7", "C38"): "first ended in a harness error (the channel fake had no id); caught after channels got ids and a refused websocket was disconnected like a real one",
    ("seed7", "C41"): "caught after the scenario 'macro whose body holds a Watch, called two or three times' with X true / false / true-then-false was added",
}


def main():
    rows = []
    os.makedirs(OUT, exist_ok=True)
    for src, wave, suffix in WAVES:
        for n in range(1, 42):
            pid = f"C{n:02d}"
            res_fn = f"/tmp/confirm/{wave}_{pid}.result.json"
            if wave == "seed" and not os.path.exists(res_fn):
                res_fn = f"/tmp/confirm/{pid}.result.json"          # first batch of wave 1 (older file name)
            if wave == "seed7" and not os.path.exists(f"{src}/{pid}.property.txt"):
                continue          # the seventh wave covered 21 properties only
            if not os.path.exists(res_fn) or not os.path.exists(f"{src}/{pid}.patch.diff"):
                why = "not confirmed (no result)"
                if (wave, pid) == ("seed", "C40"):
                    why = ("NOT KEPT: the change (command manager captured in a local variable in execute_control_command_from_user) was "
                           "caught by C40 with two request threads on the tree of that time; the repair 29569b3e (requests take the engine "
                           "lock) makes it harmless and the patch no longer applies")
                if (wave, pid) == ("seed7", "C04"):
                    why = "NOT KEPT: the sub-agent found no qualifying change (every single-point break of C04 was on its avoid list already)"
                rows.append((pid + suffix, pid, "-", why, ""))
                continue
            res = json.load(open(res_fn))
            meta = json.load(open(f"{src}/{pid}.meta.json"))
            other = CAUGHT_BY.get((wave, pid))
            head_fn = f"/tmp/tp/{wave}_{pid}.txt" if not other else f"/tmp/tp/{wave}_{pid}_by_{other}.txt"
            head_line = open(head_fn).read().strip() if os.path.exists(head_fn) else ""
            caught = (res.get("check_rc") == "1" and not other) or " rc=1 " in head_line
            ok = (res.get("compile_rc") == "0" and res.get("demo_rc_without") == "0" and res.get("demo_rc_with") not in ("0", None)
                  and not res.get("failed_when_rerun_alone", "").strip() and caught)
            name = pid + suffix
            if not ok:
                why = "patch does not apply to HEAD" if res.get("applies") is False else f"confirmation incomplete: {json.dumps(res)[:300]}"
                rows.append((name, pid, "-", "NOT KEPT: " + why, ""))
                continue
            d = os.path.join(OUT, name)
            os.makedirs(d, exist_ok=True)
            shutil.copy(f"{src}/{pid}.patch.diff", os.path.join(d, "patch.diff"))
            shutil.copy(f"{src}/{pid}.demo_test.py", os.path.join(d, "demo_test.py"))
            if os.path.exists(f"{src}/{pid}.patch.orig.diff"):
                shutil.copy(f"{src}/{pid}.patch.orig.diff", os.path.join(d, "patch.orig.diff"))
            out_meta = {
                "property": pid, "wave": {"seed": 1, "seed2": 2, "seed3": 3, "seed4": 4, "seed5": 5, "seed6": 6, "seed7": 7}[wave], "caught_by_check": other or pid,
                "check_on_final_head": head_line[:600],
                "summary": meta.get("summary"), "files": meta.get("files"),
                "needs_to_manifest": meta.get("needs_to_manifest"),
                "sub_agent_tests_run": meta.get("tests_run"),
                "confirmed_by_me": {
                    "repo_head": res.get("head"),
                    "how": "tools/confirm_seed.sh: scratch worktree of /repo HEAD; git apply; py_compile of the changed files; "
                           "demonstration run as a plain script from the worktree without and with the change; baseline pytest command "
                           "without openpectus/test/integration and test_labjack_hardware (fail offline on the unchanged tree), "
                           "test_opcua_hardware run separately under a lock; tests that failed were re-run alone; then "
                           "`python -m mc check " + pid + " --tier quick` with PYTHONPATH=<worktree>",
                    "demo_exit_code_without_change": res.get("demo_rc_without"),
                    "demo_exit_code_with_change": res.get("demo_rc_with"),
                    "tests": res.get("tests_summary"),
                    "tests_failed_in_the_full_run_then_passed_alone": res.get("failed_first_run", "").split(),
                    "check_exit_code": res.get("check_rc"),
                    "check_signatures": re.findall(r"signature=(\S+)", head_line) or res.get("check_signatures", "").split(),
                },
                "check_strengthened_first": NOTES.get((wave, pid)),
                "to_run_against_repo": f"git -C /repo apply /verif/seeded/{name}/patch.diff && (cd /verif && python -m mc check {other or pid} --tier quick); git -C /repo checkout -- .",
            }
            json.dump(out_meta, open(os.path.join(d, "meta.json"), "w"), indent=1)
            rows.append((name, pid, ", ".join(meta.get("files") or []), (meta.get("summary") or "")[:160],
                         " ".join((re.findall(r"signature=(\S+)", head_line) or res.get("check_signatures", "").split())[:3])))
    with open(os.path.join(OUT, "README.md"), "w") as f:
        f.write("# Seeded property-breaking changes\n\n"
                "Each directory holds `patch.diff` (apply with `git -C /repo apply`, undo with `git -C /repo checkout -- .`), the sub-agent's\n"
                "demonstration `demo_test.py` (run as a plain script from the patched tree: passes without, fails with the change) and\n"
                "`meta.json` (what it needs to manifest, what the sub-agent ran, what I ran to confirm it, which signatures the check reports,\n"
                "and what had to be strengthened before the check caught it).  `Cxx` = first wave, `Cxx-2` = second wave, `Cxx-3` = third wave, `Cxx-4` = fourth wave, `Cxx-5` = fifth wave, `Cxx-6` = sixth wave, `Cxx-7` = seventh (reduced: 21 properties) wave.  None of these\n"
                "changes is committed to `/repo`.\n\n"
                "| seed | check | file(s) | change | signatures reported (first 3) | strengthened first |\n|---|---|---|---|---|---|\n")
        for name, pid, files, summary, sigs in rows:
            wave = "seed7" if name.endswith("-7") else "seed6" if name.endswith("-6") else "seed5" if name.endswith("-5") else "seed4" if name.endswith("-4") else "seed3" if name.endswith("-3") else "seed2" if name.endswith("-2") else "seed"
            note = NOTES.get((wave, pid), "") or ("" if summary.startswith("NOT") or summary.startswith("not") else "no (caught by the first version)")
            f.write(f"| {name} | {pid} | {files} | {summary.replace('|', '/')} | {sigs.replace('|', '/')} | {note} |\n")
    kept = sum(1 for r in rows if not r[3].startswith(("NOT", "not")))
    print(f"kept {kept} of {len(rows)}")


if __name__ == "__main__":
    main()
