#!/bin/bash
# usage: tools/try_patch.sh <patch> <ID> [tier]  -- apply <patch> to a scratch worktree of /repo HEAD and run check <ID> against it
patch=$1; id=$2; tier=${3:-quick}
wt=/tmp/trypatch/$id.$$
mkdir -p /tmp/trypatch
git -C /repo worktree add --detach $wt HEAD > /dev/null 2>&1 || exit 3
if ! git -C $wt apply $patch; then echo "$id: patch does not apply to HEAD"; git -C /repo worktree remove --force $wt; exit 4; fi
/verif/tools/try_seed.sh $wt $id $tier; rc=$?
git -C /repo worktree remove --force $wt
exit $rc
