#!/bin/bash
# usage: tools/try_seed.sh <worktree> <ID> [tier]   -- run check <ID> against the code in <worktree> without touching /repo
# output and evidence go to /tmp/seedout/<ID>; exit code is the check's.
wt=$1; id=$2; tier=${3:-quick}
out=/tmp/seedout/$id; mkdir -p $out
cd /verif && VERIF_OUT=$out PYTHONPATH=$wt PYTHONHASHSEED=0 OPEN_PECTUS_VERIF=1 /venv/bin/python -m mc check $id --tier $tier > $out/log.txt 2>&1
rc=$?
echo "$id rc=$rc $(grep -c '^VIOLATION' $out/log.txt) violations: $(grep 'signature=' $out/log.txt | head -5 | tr '\n' ' ' | cut -c1-400)"
exit $rc
