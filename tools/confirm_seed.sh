#!/bin/bash
# usage: tools/confirm_seed.sh <ID> <slot>   -- confirm a seeded change from /tmp/seed/<ID>.patch.diff in scratch worktree /tmp/confirm/<slot>
# (created at /repo HEAD when missing).  Steps: patch applies; changed files compile; the repository's test suite (baseline command,
# integration tests excluded: they fail offline on the unchanged tree) passes except the baseline's always-fail / flaky tests, failing
# tests are re-run alone once; the demonstration fails with the change and passes without; then the check <ID> is run against it.
# Result: /tmp/confirm/<ID>.result.json
id=$1; slot=$2
wt=/tmp/confirm/$slot
mkdir -p /tmp/confirm
[ -d $wt ] || git -C /repo worktree add --detach $wt HEAD > /dev/null 2>&1
cd $wt && git checkout -q -- . && git clean -fdq
head=$(git rev-parse --short HEAD)
res=/tmp/confirm/$id.result.json
# demo without the change
demo=/tmp/seed/$id.demo_test.py
/venv/bin/python $demo > /tmp/confirm/$id.demo_without.log 2>&1; d0=$?
git apply /tmp/seed/$id.patch.diff || { echo "{\"id\":\"$id\",\"applies\":false}" > $res; exit 1; }
files=$(git diff --name-only | tr '\n' ' ')
/venv/bin/python -m py_compile $(git diff --name-only | grep '\.py$') ; comp=$?
/venv/bin/python $demo > /tmp/confirm/$id.demo_with.log 2>&1; d1=$?
# test suite
timeout 3000 /venv/bin/python -m pytest -q -p no:cacheprovider --timeout=900 --continue-on-collection-errors \
   --ignore=openpectus/test/integration --ignore=openpectus/test/engine/test_labjack_hardware.py > /tmp/confirm/$id.tests.log 2>&1
failed=$(grep '^FAILED\|^ERROR' /tmp/confirm/$id.tests.log | sed 's/ - .*//' | awk '{print $2}' | grep -v test_validate_demo_uod | tr '\n' ' ')
summary=$(grep -E "[0-9]+ passed" /tmp/confirm/$id.tests.log | tail -1)
still=""
for t in $failed; do
  timeout 600 /venv/bin/python -m pytest -q -p no:cacheprovider --timeout=900 "$t" > /tmp/confirm/$id.rerun.log 2>&1 || still="$still $t"
done
git checkout -q -- . ; git clean -fdq
git apply /tmp/seed/$id.patch.diff
/verif/tools/try_seed.sh $wt $id quick > /tmp/confirm/$id.check.log 2>&1; crc=$?
sigs=$(grep 'signature=' /tmp/seedout/$id/log.txt | sed 's/ *signature=//' | sort -u | head -8 | tr '\n' ' ')
git checkout -q -- . ; git clean -fdq
/venv/bin/python - "$id" "$head" "$files" "$comp" "$d0" "$d1" "$summary" "$failed" "$still" "$crc" "$sigs" <<'PY' > $res
import json, sys
k = ["id","head","files","compile_rc","demo_rc_without","demo_rc_with","tests_summary","failed_first_run","failed_when_rerun_alone","check_rc","check_signatures"]
print(json.dumps(dict(zip(k, sys.argv[1:])), indent=1))
PY
echo "$id: applies compile=$comp demo(without/with)=$d0/$d1 tests='$summary' failed-first='$failed' still='$still' check_rc=$crc"
