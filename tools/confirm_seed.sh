#!/bin/bash
# usage: tools/confirm_seed.sh <wave dir> <ID> <slot>
# Confirms the seeded change <wave dir>/<ID>.patch.diff in the scratch worktree /tmp/confirm/<slot> (reset to /repo HEAD):
#  the patch applies; the changed files compile; the demonstration passes without and fails with the change; the repository's
#  test suite (baseline command; integration tests and test_labjack_hardware excluded: they fail offline on the unchanged tree;
#  test_opcua_hardware run separately under a lock because it binds a fixed port) passes except test_validate_demo_uod
#  (baseline always-fail), tests that fail are re-run alone once (wall-clock tests flake under load); then check <ID> is run
#  against the patched worktree.  Result: /tmp/confirm/<wave>_<ID>.result.json
wdir=$1; id=$2; slot=$3
wave=$(basename $wdir)
wt=/tmp/confirm/$slot
mkdir -p /tmp/confirm
[ -d $wt ] || git -C /repo worktree add --detach $wt HEAD > /dev/null 2>&1
cd $wt && git checkout -q --detach $(git -C /repo rev-parse HEAD) && git checkout -q -- . && git clean -fdq
head=$(git rev-parse --short HEAD)
res=/tmp/confirm/${wave}_$id.result.json
pre=/tmp/confirm/${wave}_$id
demo=$wdir/$id.demo_test.py
/venv/bin/python $demo > $pre.demo_without.log 2>&1; d0=$?
git apply $wdir/$id.patch.diff || { echo "{\"id\":\"$id\",\"wave\":\"$wave\",\"applies\":false}" > $res; echo "$id: patch does not apply"; exit 1; }
files=$(git diff --name-only | tr '\n' ' ')
/venv/bin/python -m py_compile $(git diff --name-only | grep '\.py$') ; comp=$?
/venv/bin/python $demo > $pre.demo_with.log 2>&1; d1=$?
timeout 3000 /venv/bin/python -m pytest -q -p no:cacheprovider --timeout=900 --continue-on-collection-errors \
   --ignore=openpectus/test/integration --ignore=openpectus/test/engine/test_labjack_hardware.py \
   --ignore=openpectus/test/engine/test_opcua_hardware.py > $pre.tests.log 2>&1
flock /tmp/confirm/opcua.lock timeout 900 /venv/bin/python -m pytest -q -p no:cacheprovider --timeout=300 openpectus/test/engine/test_opcua_hardware.py > $pre.opcua.log 2>&1
failed=$(cat $pre.tests.log $pre.opcua.log | grep -E '^(FAILED|ERROR) openpectus' | sed 's/ - .*//' | awk '{print $2}' | grep -v test_validate_demo_uod | sort -u | tr '\n' ' ')
summary="$(grep -E '[0-9]+ passed' $pre.tests.log | tail -1) | opcua: $(grep -E '[0-9]+ passed' $pre.opcua.log | tail -1)"
still=""
for t in $failed; do
  flock /tmp/confirm/opcua.lock timeout 600 /venv/bin/python -m pytest -q -p no:cacheprovider --timeout=300 "$t" > $pre.rerun.log 2>&1 || still="$still $t"
done
git checkout -q -- . ; git clean -fdq
git apply $wdir/$id.patch.diff
VERIF_OUT=/tmp/confirm/out_${wave}_$id PYTHONPATH=$wt PYTHONHASHSEED=0 OPEN_PECTUS_VERIF=1 /venv/bin/python -m mc check $id --tier quick > $pre.check.log 2>&1 < /dev/null; crc=$?
sigs=$(grep 'signature=' $pre.check.log | sed 's/ *signature=//' | sort -u | head -8 | tr '\n' ' ')
git checkout -q -- . ; git clean -fdq
cd /verif
/venv/bin/python - "$id" "$wave" "$head" "$files" "$comp" "$d0" "$d1" "$summary" "$failed" "$still" "$crc" "$sigs" <<'PY' > $res
import json, sys
k = ["id","wave","head","files","compile_rc","demo_rc_without","demo_rc_with","tests_summary","failed_first_run","failed_when_rerun_alone","check_rc","check_signatures"]
print(json.dumps(dict(zip(k, sys.argv[1:])), indent=1))
PY
echo "$id: compile=$comp demo(without/with)=$d0/$d1 tests='$summary' failed-first='$failed' still='$still' check_rc=$crc"
