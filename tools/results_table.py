"""usage: tools/results_table.py  -- print the DESIGN.md §7.2 table from /verif/evidence/*.json and the known-findings files"""
import glob, json, os, sys
sys.path.insert(0, "/verif")
from mc.core import load_known
known = load_known()
man = {c["property_id"] if "property_id" in c else c.get("id"): c for c in json.load(open("/verif/MANIFEST.json"))["checks"]}
print("| id | level | deciding method | tier of the evidence | n | wall s | known | fixed |")
print("|---|---|---|---|---|---|---|---|")
for fn in sorted(glob.glob("/verif/evidence/C*.json")):
    e = json.load(open(fn))
    pid = os.path.basename(fn)[:-5]
    cov = e.get("coverage", {})
    n = cov.get("evaluations") or cov.get("states")
    k = sum(1 for f in known if f["property"] == pid and f.get("status") == "known")
    fx = sum(1 for f in known if f["property"] == pid and f.get("status") == "fixed")
    m = man.get(pid, {})
    print(f"| {pid} | {m.get('level', e.get('level'))} | {m.get("technique", "").replace("|", "/")} | {e.get('tier', cov.get('tier', ''))} | {n} | {e.get('wall_seconds', e.get('wall_s', ''))} | {k} | {fx} |")
