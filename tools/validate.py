import json, jsonschema, glob, sys
m = json.load(open('/verif/MANIFEST.json'))
jsonschema.validate(m, json.load(open('/root/.vp/MANIFEST.schema.json')))
es = json.load(open('/root/.vp/EVIDENCE.schema.json'))
bad = 0
for c in m['checks']:
    try:
        e = json.load(open(c['evidence_file']))
        jsonschema.validate(e, es)
        assert e['level'] == c['level_claimed']['category'], (e['level'], c['level_claimed']['category'])
    except Exception as ex:
        bad += 1
        print("BAD", c['property_id'], str(ex)[:200])
print("manifest ok;", len(m['checks']), "checks;", bad, "bad evidence;", len(m.get('not_applicable', [])), "not claimed")
