"""usage: tools/add_known.py <ID> <replay-dir> "<cause text>"  -- add a 'known' entry for every replay in the directory whose
signature is not listed yet (used after triaging thorough-tier runs by hand; the cause text is written by the person triaging)."""
import glob, json, os, sys
pid, rdir, cause = sys.argv[1], sys.argv[2], sys.argv[3]
fn = f"/verif/known_findings.d/{pid}.json"
d = json.load(open(fn)) if os.path.exists(fn) else {"findings": []}
have = {f["signature"] for f in d["findings"]}
only = sys.argv[4:] or None
for f in sorted(glob.glob(os.path.join(rdir, "*.json"))):
    r = json.load(open(f))
    if r["signature"] in have or (only and not any(o in r["signature"] for o in only)):
        continue
    d["findings"].append({"property": pid, "signature": r["signature"], "status": "known",
                          "what": f"{cause} Minimal case found: {json.dumps(r['data'])[:400]} -> {r['what'][:300]}"})
    have.add(r["signature"])
    print("added", r["signature"])
json.dump(d, open(fn, "w"), indent=1)
