#!/bin/bash
# usage: tools/run_all.sh [quick|thorough] [IDs...]   -- runs the registered checks one after another, prints one line per check
tier=${1:-quick}; shift
ids=${@:-$(seq -f "C%02g" 1 41)}
cd /verif
for id in $ids; do
  s=$(date +%s)
  PYTHONHASHSEED=0 OPEN_PECTUS_VERIF=1 /venv/bin/python -m mc check $id --tier $tier > /tmp/run_all_$id.log 2>&1
  rc=$?
  echo "$id rc=$rc $(( $(date +%s) - s ))s $(grep -c '^VIOLATION' /tmp/run_all_$id.log) violations $(grep -c '^KNOWN-FINDING' /tmp/run_all_$id.log) known"
  grep "signature=" /tmp/run_all_$id.log | sort -u | head -12
done
