"""usage: tools/known_seen.py <dir with thorough logs CXX.log> -- which 'known' signatures were seen in the last quick run (evidence) / thorough logs"""
import glob, json, os, re, sys
sys.path.insert(0, "/verif")
from mc.core import load_known
thdir = sys.argv[1] if len(sys.argv) > 1 else "/tmp/th2"
seen = {}
for fn in glob.glob("/verif/evidence/C*.json"):
    e = json.load(open(fn))
    for s in e.get("coverage", {}).get("known_findings_seen", []):
        seen.setdefault(s, set()).add("quick")
for fn in glob.glob(os.path.join(thdir, "C*.log")):
    for line in open(fn, errors="replace"):
        m = re.match(r"KNOWN-FINDING: property=\S+ (\S+?): ", line)
        if m:
            seen.setdefault(m.group(1), set()).add("thorough")
for f in load_known():
    if f.get("status") == "known":
        print(f"{f['property']}  {','.join(sorted(seen.get(f['signature'], []))) or 'NOT SEEN':16s} {f['signature']}")
