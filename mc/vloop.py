"""VirtualLoop — a deterministic asyncio event loop for exhaustive schedule exploration.

An `asyncio.BaseEventLoop` subclass with a virtual clock and no selector / self-pipe / threads.  The loop never
runs by itself: the explorer *steps* it.  Ready handles run FIFO exactly as in stock asyncio (`run_ready`); when the
ready queue is empty the loop is *quiescent* and the explorer decides what happens next: complete one of its own
pending futures (`loop.create_future()` handed to a fake I/O layer), fire the earliest timer (`fire_next_timer`),
deliver an external event (`call_soon_threadsafe` just appends; nothing to wake up), start another task (`spawn`).
Stock `Task`, `Future`, `gather`, `shield`, `Lock`, `Event`, `sleep`, `wait_for`, `create_task` work unchanged because
only `time()`, `_write_to_self()` and `_process_events()` are overridden and `_run_once()` is never called.

Usage
    loop = VirtualLoop()
    with loop:                                   # installs it as *the running loop* of this thread
        t = loop.spawn(coro())                   # create a task (not yet started)
        loop.run_ready()                         # run to quiescence: every task is now suspended or done
        fut.set_result(x); loop.run_ready()      # explorer completes a pending I/O, runs to quiescence again
        loop.fire_next_timer()                   # advance virtual time to the earliest timer and run it
        loop.drain()                             # or: run ready + timers until nothing is left (bounded)
        loop.shutdown()                          # cancel what is still pending, close
    value = VirtualLoop.run(coro())              # convenience: whole coroutine, timers fired in order, no explorer
"""
from __future__ import annotations

import asyncio
import heapq
import threading
from asyncio import events

__all__ = ["VirtualLoop", "Deadlock"]


class Deadlock(RuntimeError):
    """`run_until` found nothing left to run (no ready handle, no timer) although the goal is not reached."""


class VirtualLoop(asyncio.BaseEventLoop):
    def __init__(self, t0: float = 0.0, max_steps: int = 1_000_000):
        super().__init__()
        self._vtime = float(t0)
        self.steps = 0                  # ready handles executed so far
        self.timers_fired = 0
        self.max_steps = max_steps
        self._entered = 0
        self._prev_running = None
        self.exceptions: list[dict] = []   # contexts passed to the loop exception handler (never printed)
        self.set_exception_handler(lambda loop, context: loop.exceptions.append(context))

    # -- the three overrides that make BaseEventLoop self-contained ------------------------------------
    def time(self) -> float:
        return self._vtime

    def _write_to_self(self):            # call_soon_threadsafe wake-up: nothing to wake
        pass

    def _process_events(self, event_list):
        pass

    # -- make it "the running loop" while the explorer steps it -----------------------------------------
    def __enter__(self):
        if self._entered == 0:
            self._prev_running = events._get_running_loop()
            events._set_running_loop(None)
            events._set_running_loop(self)
            self._thread_id = threading.get_ident()      # is_running() -> True
        self._entered += 1
        return self

    def __exit__(self, *exc):
        self._entered -= 1
        if self._entered == 0:
            self._thread_id = None
            events._set_running_loop(None)
            if self._prev_running is not None:
                events._set_running_loop(self._prev_running)
            self._prev_running = None
        return False

    # -- stepping ---------------------------------------------------------------------------------------
    def spawn(self, coro, name: str | None = None) -> asyncio.Task:
        """Create a task for coro.  Its first step is queued, not run (call run_ready)."""
        return self.create_task(coro, name=name)

    @property
    def quiescent(self) -> bool:
        return not self._ready

    def step(self) -> bool:
        """Run exactly one ready handle (FIFO).  False if the ready queue is empty."""
        if not self._ready:
            return False
        handle = self._ready.popleft()
        if not handle._cancelled:
            self.steps += 1
            if self.steps > self.max_steps:
                raise RuntimeError("VirtualLoop: step budget exhausted (livelock?)")
            handle._run()
        return True

    def run_ready(self) -> int:
        """Run ready handles FIFO, including those they schedule, until the ready queue is empty."""
        n0 = self.steps
        with self:
            while self.step():
                pass
        return self.steps - n0

    def pending_timers(self) -> list[float]:
        """Deadlines of the live timers, sorted."""
        return sorted(h._when for h in self._scheduled if not h._cancelled)

    def _pop_timer(self):
        while self._scheduled:
            h = heapq.heappop(self._scheduled)
            h._scheduled = False
            if h._cancelled:
                self._timer_cancelled_count = max(0, self._timer_cancelled_count - 1)
                continue
            return h
        return None

    def fire_next_timer(self, run: bool = True) -> float | None:
        """Advance virtual time to the earliest live timer, make it ready; returns its deadline (None: no timer).
        Timers with the same deadline stay in the heap and are fired by the next call (same virtual time)."""
        h = self._pop_timer()
        if h is None:
            return None
        self._vtime = max(self._vtime, h._when)
        self.timers_fired += 1
        self._ready.append(h)
        if run:
            self.run_ready()
        return h._when

    def advance(self, dt: float) -> int:
        """Let dt virtual seconds pass: fire every timer due in that window, in deadline order, running to
        quiescence after each.  Returns the number of timers fired."""
        end = self._vtime + dt
        n = 0
        self.run_ready()
        while True:
            live = self.pending_timers()
            if not live or live[0] > end:
                break
            self.fire_next_timer()
            n += 1
        self._vtime = end
        return n

    def drain(self, max_timers: int = 100_000) -> None:
        """Run until there is neither a ready handle nor a timer."""
        self.run_ready()
        n = 0
        while self.fire_next_timer() is not None:
            n += 1
            if n > max_timers:
                raise RuntimeError("VirtualLoop.drain: timer budget exhausted")

    def run_until(self, fut) -> object:
        """Run (ready handles, then timers in order) until fut is done; Deadlock if it cannot make progress."""
        with self:
            fut = asyncio.ensure_future(fut, loop=self)
            self.run_ready()
            while not fut.done():
                if self.fire_next_timer() is None:
                    raise Deadlock("nothing left to run and the awaited future is not done "
                                   "(it waits for an explorer-owned future?)")
            return fut.result()

    @classmethod
    def run(cls, coro, t0: float = 0.0):
        """asyncio.run() replacement on virtual time."""
        loop = cls(t0)
        try:
            return loop.run_until(coro)
        finally:
            loop.shutdown()

    def shutdown(self) -> None:
        """Cancel every unfinished task, let the cancellations run, close the loop."""
        if self.is_closed():
            return
        with self:
            for _ in range(10):
                todo = [t for t in asyncio.all_tasks(self) if not t.done()]
                if not todo:
                    break
                for t in todo:
                    try:
                        t.cancel()
                    except RecursionError:
                        # the tasks of the code under test wait for each other in a cycle (cancel() follows the wait chain)
                        self.cancel_cycles = getattr(self, "cancel_cycles", 0) + 1
                self.run_ready()
            for t in asyncio.all_tasks(self):
                if t.done() and not t.cancelled():
                    t.exception()          # mark retrieved: no "exception was never retrieved" noise
            self._ready.clear()
            self._scheduled.clear()
        self._thread_id = None
        self.close()
