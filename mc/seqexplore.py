"""Exhaustive enumeration of event sequences on the real Engine (C06, C07, C09).

All sequences of exactly `depth` events over an alphabet are executed, each on a fresh engine (engines hold generators
and cannot be copied); the per-step checker sees every prefix, so all sequences of length <= depth are covered.
Events:  ("user", name) | ("tick", n, inc) | ("inject", code) | ("input", reg, value)
"""
from __future__ import annotations

import itertools
from typing import Callable, Sequence

from mc.engine_harness import Run, apply_request


def all_sequences(alphabet: Sequence, depth: int):
    return itertools.product(range(len(alphabet)), repeat=depth)


def run_sequence(method: str, alphabet: Sequence, seq: Sequence[int], step_check: Callable, observe=("tags",),
                 warmup: Sequence = (), start=False, totalizer=True):
    """Executes one sequence. step_check(run, event, records_before, obs_from_index) -> list of problems.
    Returns (problems, run)."""
    run = Run(method, start=start, observe=observe, totalizer=totalizer)
    problems = []
    events = list(warmup) + [alphabet[i] for i in seq]
    for k, ev in enumerate(events):
        nobs = len(run.obs)
        nreq = len(run.requests)
        if ev[0] == "tick":
            for _ in range(ev[1]):
                run.tick(ev[2] if len(ev) > 2 else None)
        else:
            apply_request(run, ev)
        for p in step_check(run, ev, nobs, nreq):
            problems.append((p[0], p[1], k))
    return problems, run
