"""Per-check metadata; `python -m mc.registry` regenerates MANIFEST.json from it."""
import json
import os

ROOT = os.path.dirname(os.path.dirname(os.path.abspath(__file__)))

CMD = "cd /verif && PYTHONHASHSEED=0 OPEN_PECTUS_VERIF=1 /venv/bin/python -m mc check {id} --tier {tier}"

# Every check module carries its own META = dict(technique=, text=, note=[, design_ref=]); LEVEL is the evidence level.
CHECKS: dict[str, tuple[str, str, str, str, str]] = {}
PENDING = set()     # being built; not registered yet


def _scan():
    import importlib
    d = os.path.join(ROOT, "mc", "checks")
    for fn in sorted(os.listdir(d)):
        if not (fn.startswith("c") and fn.endswith(".py") and fn[1:3].isdigit()):
            continue
        if fn[:-3].upper() in PENDING:
            continue
        mod = importlib.import_module("mc.checks." + fn[:-3])
        meta = mod.META
        CHECKS[mod.ID] = (mod.LEVEL, meta["technique"], meta["text"], meta["note"],
                          meta.get("design_ref", f"DESIGN.md §2 {mod.ID}"))


_scan()

ALL_IDS = [f"C{i:02d}" for i in range(1, 42)]

NOT_YET = "check not built yet in this revision of /verif (planned: see DESIGN.md §2); not claimed"


def manifest() -> dict:
    checks = []
    for id in ALL_IDS:
        if id not in CHECKS:
            continue
        level, technique, text, note, ref = CHECKS[id]
        checks.append({
            "property_id": id,
            "quick_cmd": CMD.format(id=id, tier="quick"),
            "thorough_cmd": CMD.format(id=id, tier="thorough"),
            "evidence_file": f"/verif/evidence/{id}.json",
            "replay_cmd_template": "cd /verif && PYTHONHASHSEED=0 OPEN_PECTUS_VERIF=1 /venv/bin/python -m mc replay {path}",
            "engine": "mc",
            "level_claimed": {"category": level, "text": text, "design_ref": ref},
            "level_note": note,
            "technique": technique,
        })
    hooks_commits = []
    hc = os.path.join(ROOT, "hooks_commits.txt")
    if os.path.exists(hc):
        hooks_commits = [l.split()[0] for l in open(hc) if l.strip() and not l.startswith("#")]
    return {
        "version": 1,
        "setup_cmd": "cd /verif && PYTHONHASHSEED=0 /venv/bin/python -m compileall -q mc >/dev/null; PYTHONHASHSEED=0 /venv/bin/python -m mc selftest",
        "hooks": {
            "guard": "OPEN_PECTUS_VERIF",
            "enable": "export OPEN_PECTUS_VERIF=1 (read at call time by openpectus/engine/verif_hooks.py; /venv imports /repo in editable mode, nothing to build)",
            "baseline_off_cmd": "cd /repo && env -u OPEN_PECTUS_VERIF /venv/bin/python -m pytest -ra -q -p no:cacheprovider --timeout=900 --continue-on-collection-errors",
            "source_commits": hooks_commits,
            "add_only": True,
        },
        "engines": [{
            "name": "mc",
            "path": "/verif/mc",
            "serves_properties": sorted(CHECKS),
            "kind_free_text": "hand-written bounded exhaustive explorers in Python (explicit-state BFS over real transition "
                              "functions, deviation-bounded stateless choice exploration, virtual asyncio loop, cooperative "
                              "thread scheduler, complete input enumeration) plus TLC for the two documented state machines",
        }],
        "checks": checks,
        "not_applicable": [{"property_id": id, "reason": NOT_YET} for id in ALL_IDS if id not in CHECKS],
        "notes": "All checks import /repo's working tree through /venv (editable install). Exit 2 = harness error. "
                 "Known findings: /verif/known_findings.json.",
    }


if __name__ == "__main__":
    with open(os.path.join(ROOT, "MANIFEST.json"), "w") as f:
        json.dump(manifest(), f, indent=1)
        f.write("\n")
    print("MANIFEST.json written:", len(CHECKS), "checks")
