"""C41 — Macros run their latest definition once per call and never recurse.

Bounded-exhaustive enumeration of programs with macro definitions, redefinitions, nested and (mutually) recursive
calls on the real Engine, compared with the untimed reference semantics (mc/refsem.py); plus edits of started macros.
"""
from __future__ import annotations

import collections

from mc import pgen, refsem
from mc.core import HarnessError
from mc.engine_harness import Run, execute

ID = "C41"
LEVEL = "model_checking"
META = dict(
    technique="bounded-exhaustive program enumeration on the real Engine against a reference interpreter for macro semantics, plus every-tick edits of started macros",
    text="All programs up to the size bound over {Macro A/B with bodies, Call macro A/B at top level and inside macro bodies and "
         "blocks, Mark, Block, End block} are executed; the produced Mark sequence must equal that of the reference semantics "
         "(latest definition in execution order, once per call, lines in order); a call that would recurse directly or "
         "indirectly must fail (method error on the call line) instead of running; editing or removing a macro that has "
         "started must be rejected at every later tick.",
    note="Programs <= 4 statements (5 thorough), nesting <= 2, plus every sequence of 4 (5) top-level items with one-line macro "
         "bodies in which a macro is defined twice (redefinition that may close a call cycle); a call to an undefined macro is outside the statement (either "
         "behaviour accepted); horizon 44 ticks, the run must be quiescent before the comparison.",
)

KINDS = ["M", "CA", "CB", "MA", "MB", "K", "EB"]
HORIZON = 44


def settled(run: Run, k=6):
    if len(run.obs) < k + 1:
        return False
    tail = [ob["nmarks"] for ob in run.obs[-k:]]
    ms = [str(ob.get("mstate")) for ob in run.obs[-k:]]
    return len(set(tail)) == 1 and len(set(ms)) == 1


def check_program(forest):
    lines = pgen.to_lines(forest)
    ref = refsem.reference(lines)
    out = []
    run = execute(lines, horizon=HORIZON, observe=("mstate", "tags"))
    marks = run.marks()
    errors = run.error_events
    failed = run.method_state()["failed"]
    stats = {"calls": sum(1 for _, c in lines if c.strip().startswith("Call macro")), "ref_end": ref["end"], "exec": 1,
             "edits": 0, "nontrivial": False}
    for ob in run.obs:
        if "tick_exception" in ob:
            out.append(("C41:tick-raised", ob["tick_exception"]))
    if not settled(run):
        out.append(("C41:not-quiescent", f"run of {[c for _, c in lines]} still changing at the horizon"))
    elif ref["end"] == "recursion":
        stats["nontrivial"] = True
        if not errors:
            body_twice = [m for m, c in collections.Counter(marks).items() if c > collections.Counter(ref["marks"]).get(m, 0)]
            how = "reruns-body" if body_twice else "stalls-silently"
            shape = recursion_shape(lines, ref["error_line"])
            out.append((f"C41:recursion-undetected:{shape}:{how}",
                        f"call on line {ref['error_line']} would make a macro call itself but no method error occurred "
                        f"(marks {marks}, expected prefix {ref['marks']}, state {run.state()})"))
        else:
            if ref["error_line"] not in failed:
                out.append(("C41:recursion-error-on-other-line", f"recursive call on {ref['error_line']} but failed lines are {failed}"))
            extra = collections.Counter(marks) - collections.Counter(ref["marks"])
            if extra:
                out.append(("C41:recursive-body-ran", f"marks {marks} contain more than the reference prefix {ref['marks']}"))
    elif ref["end"] == "undefined-macro":
        pass  # outside the statement
    else:
        stats["nontrivial"] = stats["calls"] > 0
        if errors:
            out.append((f"C41:unexpected-method-error:{errors[0][1]}", f"{[c for _, c in lines]} failed: {errors[0]} (reference: no error)"))
        elif marks != ref["marks"]:
            got, want = collections.Counter(marks), collections.Counter(ref["marks"])
            if got == want:
                kind = "order"
            elif any(got[m] > want[m] for m in got):
                kind = "body-ran-more-than-once-per-call" if not any(got[m] < want[m] for m in want) else "wrong-body"
            else:
                kind = "body-lines-missing"
            if kind == "body-lines-missing" and block_in_macro_called_from_block(lines):
                kind = "stalls:block-in-macro-body-called-from-inside-a-block"
            if kind == "body-lines-missing" and macro_defined_in_block_called_outside(lines):
                kind = "skipped:macro-defined-inside-a-block-called-after-the-block-ended"
            out.append((f"C41:marks-differ:{kind}", f"{[c for _, c in lines]}: marks {marks}, reference {ref['marks']}"))
    # edits of started macros: at every tick after a macro first ran
    macro_lines = [(i, lid, c) for i, (lid, c) in enumerate(lines) if c.strip().startswith("Macro:")]
    if macro_lines and ref["end"] in ("idle", "block-never-ended") and not errors:
        info = pgen.line_info(lines)
        for (mi, mid, mc) in macro_lines:
            body = [j for j in range(len(lines)) if _is_descendant(info, j, mi)]
            body_marks = [j for j in body if info[j]["name"] == "Mark"]
            if not body_marks:
                continue
            first_run_tick = None
            name = info[body_marks[0]]["arg"]
            seen = 0
            for ob in run.obs:
                if ob["nmarks"] > seen:
                    if name in run.marks()[seen:ob["nmarks"]]:
                        first_run_tick = ob["n"]
                        break
                    seen = ob["nmarks"]
            if first_run_tick is None:
                continue
            for t in range(first_run_tick + 1, min(first_run_tick + 6, HORIZON - 4)):
                changed = list(lines)
                j = body_marks[0]
                changed[j] = (lines[j][0], " " * info[j]["indent"] + "Mark: edited")
                removed = [l for k, l in enumerate(lines) if k != mi and k not in body]
                for kind, new in (("edit-body", changed), ("remove", removed)):
                    r2 = execute(lines, schedule=[(t, ("edit", new))], horizon=t + 2, observe=("mstate",))
                    stats["exec"] += 1
                    stats["edits"] += 1
                    rec = r2.request_records[0]
                    if rec["accepted"]:
                        redefined = any(c2.strip() == mc.strip() and i2 > mi for i2, _, c2 in macro_lines)
                        out.append((f"C41:started-macro-{kind}-accepted:{'redefined-later' if redefined else 'sole-definition'}",
                                    f"{kind} of started macro {mc.strip()} (line {mi}) at tick {t} was accepted"))
                    elif rec["error"] != "MethodEditError":
                        out.append((f"C41:started-macro-{kind}-raised-{rec['error']}", f"{kind} at tick {t} raised {rec['error']}: {rec.get('msg')}"))
                    r2.cleanup()
    run.cleanup()
    return out, stats


def block_in_macro_called_from_block(lines) -> bool:
    info = pgen.line_info(lines)
    in_macro_block = any(li["name"] == "Block" and pgen.scope_of(info, li["idx"]) != "main" for li in info)
    call_in_block = any(li["name"] == "Call macro" and li["parent"] is not None and info[li["parent"]]["name"] == "Block"
                        for li in info)
    return in_macro_block and call_in_block


def macro_defined_in_block_called_outside(lines) -> bool:
    info = pgen.line_info(lines)
    for li in info:
        if li["name"] == "Macro" and li["parent"] is not None and info[li["parent"]]["name"] == "Block":
            blk = li["parent"]
            if any(c["name"] == "Call macro" and c["arg"] == li["arg"] and not _is_descendant(info, c["idx"], blk) for c in info):
                return True
    return False


def _is_descendant(info, j, anc):
    p = info[j]["parent"]
    while p is not None:
        if p == anc:
            return True
        p = info[p]["parent"]
    return False


def recursion_shape(lines, call_id):
    """Where the self-call sits: 'direct-first', 'direct-later' (not the first call in the body), 'nested-in-block',
    'indirect'."""
    info, roots = refsem.build_tree(lines)
    macros = {}
    for li in info:
        if li["name"] == "Macro":
            macros[li["arg"]] = li
    call = next(li for li in info if li["id"] == call_id)
    nm = call["arg"]
    m = macros.get(nm)
    if m is None:
        return "?"
    direct_children = [c for c in m["children"] if c["name"] == "Call macro"]
    if any(c["arg"] == nm for c in direct_children):
        return "direct-first" if direct_children[0]["arg"] == nm else "direct-later"
    if nm in refsem.calls_in([c for c in m["children"] if c["children"]], {}):
        return "nested-in-block"
    return "indirect"


def valid(forest) -> bool:
    """Keep programs in which End block only occurs inside a Block body (directly) and something is called or defined."""
    ks = pgen.kinds_flat(forest)
    if not any(k in ("CA", "CB") for k in ks) or not any(k in ("MA", "MB") for k in ks):
        return False

    def ok(f, in_block):
        for kind, ch in f:
            if kind == "EB" and not in_block:
                return False
            if kind in pgen.OPENERS and not ch:
                return False          # an opener with an empty body is silently re-nested by the parser (C17 finding)
            if not ok(ch, kind == "K"):
                return False
        return True
    return ok(forest, False)


def redefinition_family(ctx):
    """Redefinitions are beyond the node bound of the plain enumeration (two definitions with bodies and two calls are six
    lines): every sequence of 4 (thorough 5) top-level items out of {Macro A|B with a one-line body (Mark, Call macro A,
    Call macro B), Call macro A, Call macro B, Mark} in which a macro is defined twice and something is called."""
    import itertools
    tops = [(m, ((b, ()),)) for m in ("MA", "MB") for b in ("M", "CA", "CB")] + [("CA", ()), ("CB", ()), ("M", ())]
    out = []
    for n in ((4,) if ctx.quick else (4, 5)):
        for seq in itertools.product(tops, repeat=n):
            kinds = [k for k, _ in seq]
            if not (kinds.count("MA") >= 2 or kinds.count("MB") >= 2) or not ("CA" in kinds or "CB" in kinds):
                continue
            out.append(tuple(seq))
    return out


def nested_recursion_family():
    """A call that closes a cycle from inside an Alarm / Watch / Block nested in the macro body (directly, and through a
    second macro); the plain corpus has no Watch/Alarm."""
    M, CA, CB = ("M", ()), ("CA", ()), ("CB", ())
    out = []
    for inner in ("Al", "Wa", "K"):
        for lead in ((), (M,)):
            out.append((("MA", lead + ((inner, (CA,)),)), CA))
            out.append((("MA", lead + ((inner, (CB,)),)), ("MB", (CA,)), CA))
            out.append((("MA", lead + ((inner, (M, CA)),)), M, CA))
    return out


def later_call_family():
    """Three macros: the call that closes the cycle A -> B -> A is not the first call of A's body (a harmless call of C comes
    first), in every order of the definitions and with the harmless call before / after the closing one."""
    import itertools
    M, CA, CB, CC = ("M", ()), ("CA", ()), ("CB", ()), ("CC", ())
    defs = {"A1": ("MA", (CC, CB)), "A2": ("MA", (CB, CC)), "A3": ("MA", (M, CC, M, CB)), "B": ("MB", (CA,)), "B2": ("MB", (CC, CA)),
            "C": ("MC", (M,))}
    out = []
    for a in ("A1", "A2", "A3"):
        for b in ("B", "B2"):
            for order in itertools.permutations((a, b, "C")):
                out.append(tuple(defs[k] for k in order) + (M, CA))
    return out


def block_in_body_family():
    """A macro whose body contains a Block (ended by End block / End blocks) is called twice or three times: every call runs the
    whole body again, the Block included."""
    M, CA, EB, EBS = ("M", ()), ("CA", ()), ("EB", ()), ("EBS", ())
    bodies = [(("K", (EB,)),), (("K", (M, EB)),), (("K", (M, EB)), M), (M, ("K", (M, EB))), (("K", (M, EB, M)), M),
              (("K", (M, EBS)), M), (("K", (("K", (M, EBS)), M)), M), (("K", (M, EB)), ("K", (M, EB)))]
    out = []
    for body in bodies:
        for calls in ((CA, CA), (CA, M, CA), (CA, CA, CA)):
            if len(calls) * len(pgen.kinds_flat(body)) > 15:
                continue          # would not be quiescent inside the horizon
            out.append((("MA", body),) + calls)
    return out


WATCH_IN_MACRO = {"Mark: a": ["Macro: A", "    Watch: X > 1", "        Mark: w", "    Mark: a", "Call macro: A", "Call macro: A", "Mark: end"],
                  "Wait": ["Macro: A", "    Watch: X > 1", "        Mark: w", "    Wait: 0.3s", "Call macro: A", "Mark: mid", "Call macro: A", "Mark: end"],
                  "three calls": ["Macro: A", "    Watch: X > 1", "        Mark: w", "    Mark: a", "Call macro: A", "Call macro: A", "Call macro: A"]}


def check_watch_in_macro(item):
    """A macro whose body holds a Watch, called two or three times: every call arms the Watch afresh - it fires in every call while
    X > 1 holds throughout (w once per call), never while X stays 0, and only in the first call when X drops right after the
    first w."""
    name, traj = item
    lines = WATCH_IN_MACRO[name]
    calls = sum(1 for ln in lines if ln.startswith("Call macro"))
    run = Run("\n".join(lines), observe=())
    x = 2.0 if traj.startswith("true") else 0.0
    for t in range(70):
        run.set_input("X", x)
        ob = run.tick()
        if traj == "true-then-false" and "w" in run.marks():
            x = 0.0
    marks = run.marks()
    errors = list(run.error_events)
    run.cleanup()
    want = {"true": calls, "false": 0, "true-then-false": 1}[traj]
    out = []
    if errors:
        out.append((f"C41:watch-in-macro-body:error:{traj}", f"{lines}: X {traj}: method error {errors[0][1:]}"))
    elif marks.count("w") != want:
        out.append((f"C41:watch-in-macro-body:{traj}:fired-{marks.count('w')}-times-in-{calls}-calls",
                    f"{lines} with X {traj}: the Watch body ran {marks.count('w')} times, expected {want} (marks {marks})"))
    return out


def run(ctx):
    n = 4 if ctx.quick else 5
    forests = ([f for f in pgen.programs(KINDS, n, depth=2) if valid(f)] + redefinition_family(ctx) + nested_recursion_family()
               + later_call_family() + block_in_body_family())
    ctx.prove_deterministic(lambda f: check_program(f)[0], [forests[0], forests[len(forests) // 2]], k=2)
    results = ctx.pmap(check_program, forests)
    execs = nontrivial = edits = 0
    ends = collections.Counter()
    for f, (viol, st) in zip(forests, results):
        execs += st["exec"]
        edits += st["edits"]
        nontrivial += 1 if st["nontrivial"] else 0
        ends[st["ref_end"]] += 1
        for sig, what in viol:
            ctx.violation(sig, what, {"lines": pgen.render(f)})
    wim = [(name, traj) for name in WATCH_IN_MACRO for traj in ("true", "false", "true-then-false")]
    for item in wim:
        for sig, what in check_watch_in_macro(item):
            ctx.violation(sig, what, {"watch_in_macro": list(item)})
        execs += 1
    if ends["recursion"] < 10 or nontrivial < 50:
        raise HarnessError(f"vacuous corpus: {dict(ends)}")
    ctx.coverage.update(
        states=execs * HORIZON, transitions=execs * HORIZON, traces_validated_against_impl=execs,
        evaluations=execs, distinct_nontrivial=nontrivial, programs=len(forests), reference_outcomes=dict(ends),
        edits_of_started_macros=edits,
        rule="all programs with at least one macro definition and one call up to the size bound; non-trivial = the reference "
             "semantics predicts a recursion error, or the program calls a defined macro",
        samples=[pgen.render(forests[0]), pgen.render(forests[len(forests) // 3]), pgen.render(forests[-1])],
        max_statements=n, exhaustive=True)


def replay(data):
    if "watch_in_macro" in data:
        out = check_watch_in_macro(tuple(data["watch_in_macro"]))
        print("program:", WATCH_IN_MACRO[data["watch_in_macro"][0]], "X:", data["watch_in_macro"][1], "->", out or "as expected")
        return out
    lines = [(f"L{i}", c) for i, c in enumerate(data["lines"])]
    ref = refsem.reference(lines)
    run = execute(lines, horizon=HORIZON, observe=("mstate", "tags"))
    print("program:")
    for c in data["lines"]:
        print("   ", c)
    print("reference:", ref)
    print("engine marks:", run.marks(), "state:", run.state(), "errors:", run.error_events, "failed:", run.method_state()["failed"])
    # rebuild forest-independent check
    out = []
    # reuse check on a pseudo forest is not possible; re-evaluate directly
    import types
    f = _forest_from_lines(data["lines"])
    viol, _ = check_program(f)
    return viol


def _forest_from_lines(lines):
    rev = {v.split("{")[0]: k for k, v in pgen.TEMPLATES.items()}
    def kind_of(stripped):
        for k in KINDS + ["Al", "Wa", "MC", "CC"]:
            t = pgen.TEMPLATES[k]
            head = t.split("{")[0]
            if stripped.startswith(head) and (k not in ("M", "K") or True):
                if k == "EB" and stripped != "End block":
                    continue
                return k
        raise ValueError(stripped)
    items = [(len(l) - len(l.lstrip(" ")), kind_of(l.strip())) for l in lines]
    def build(i, indent):
        out = []
        while i < len(items) and items[i][0] == indent:
            k = items[i][1]
            ch, j = build(i + 1, indent + 4)
            out.append((k, tuple(ch)))
            i = j
        return out, i
    f, _ = build(0, 0)
    return tuple(f)
