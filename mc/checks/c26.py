"""C26 — Protocol messages round-trip through JSON.

Message classes are discovered by introspection: every MessageBase subclass reachable as an attribute of the
namespaces known to openpectus.protocol.serialization (so a new message is covered without touching this file).

For every class a *base instance* is derived from the pydantic field annotations (all fields explicit, containers with
one element, optional fields set), together with the list of *atomic deviations*: (path into the instance, other value)
taken from a per-type alphabet (str: "", unicode, JSON-special, "1"; int: 0, -1, 2**53+1, 2**64; float: 0.0, -1.0, 1.0,
1e308, 5e-324; bool; None for Optional; every other arm of a union; every enum member / literal; containers: empty,
other element, two elements; dict keys: every key-type value; nested models recursively).  Every combination of
<= K atomic deviations at independent paths is built with the real constructor (K = 2 quick, 3 thorough), sent over
the production wire and compared with what arrives.

Wires (exactly what the dispatchers do, using the libraries' own functions):
  rpc-request  serialize(m) -> RpcMessage(request=RpcRequest(arguments={"message_json": ...})) -> the rpc library's
               JsonSerializingWebSocket._serialize (pydantic JSON) -> _deserialize (json.loads) -> RpcMessage parse ->
               deserialize(arguments["message_json"])                       [send_async / rpc_call; every class]
  rpc-reply    json.dumps(serialize(m)) -> RpcResponse[str] through the same socket -> json.loads(result) ->
               deserialize                                                   [classes of the `messages` namespace,
               which is what handlers return]
  rest         the real AggregatorDispatcher POST route in a FastAPI app driven by starlette's TestClient (httpx):
               client.post(json=serialize(register_msg)) -> request.json() -> deserialize -> handler -> serialize(reply)
               -> FastAPI response -> response.json() -> deserialize        [RegisterEngineMsg, RegisterEngineReplyMsg]

Oracle: what arrives has exactly the sender's type and is equal, checked strictly (same types at every leaf, same
dict key types); plus pydantic's own ==.  Malformed envelopes (missing/unknown `_type`/`_ns`, `_type` naming a
non-message attribute of the namespace, a message of another namespace) must raise ProtocolDeserializationException.
Non-finite floats (inf, -inf) are not JSON proper: through the RPC/REST wires they are run as a separately labelled class
whose outcome is only recorded; through serialize() -> json.dumps -> json.loads -> deserialize() (wire "json-text", Python's json
module writes and reads Infinity) they must survive like any other value.  NaN is excluded (NaN != NaN).
"""
import enum
import inspect
import json
import types
import typing

from fastapi import FastAPI
from fastapi.testclient import TestClient
from fastapi_websocket_rpc.schemas import RpcMessage, RpcRequest, RpcResponse
from fastapi_websocket_rpc.simplewebsocket import JsonSerializingWebSocket
from fastapi_websocket_rpc.utils import pydantic_parse
from pydantic import BaseModel, ValidationError

import openpectus.protocol.serialization as S
from openpectus.protocol.aggregator_dispatcher import AggregatorDispatcher
from openpectus.protocol.dispatch_interface import AGGREGATOR_REST_PATH
from openpectus.protocol.exceptions import ProtocolDeserializationException
from openpectus.protocol.serialization import serialize, deserialize

from mc.core import HarnessError

ID = "C26"
LEVEL = "exploration"
META = dict(
    technique="complete enumeration of bounded field deviations per message class over the production JSON wires",
    text="Every MessageBase subclass found by introspection is instantiated from its field annotations; every combination "
         "of up to K single-field deviations (values from per-type alphabets, nested models included) is serialized, "
         "passed through the same library functions the dispatchers use (pydantic JSON inside the rpc library, json.dumps "
         "for replies, httpx/FastAPI for registration) and deserialized, then compared strictly with the original. "
         "Malformed envelopes are enumerated over every non-message attribute of every namespace. Exhaustive within the "
         "bound K and the alphabets, not over all field values.",
    note="Field validators are assumed per-field (deviations are validated one at a time; combinations that the constructor "
         "rejects are counted and skipped). inf/-inf are a labelled class that is only recorded; NaN excluded.",
)

M = S.M
NAMESPACES = list(S._message_namespaces)

STRS = ["a", "", "\u00e6\u2713\U0001F600", '"\\{\n\u0007', "1"]
INTS = [1, 0, -1, 2 ** 53 + 1, 2 ** 64]
FLOATS = [1.5, 0.0, -1.0, 1.0, 1e308, 5e-324]
NONFINITE = [float("inf"), float("-inf")]
BOOLS = [True, False]


# ---------------------------------------------------------------------------------------------------------------
# discovery

def message_classes():
    """[(cls)] every MessageBase subclass that is an attribute of a message namespace, each once, stable order"""
    found = {}
    for ns in NAMESPACES:
        for name in sorted(vars(ns)):
            obj = getattr(ns, name)
            if inspect.isclass(obj) and issubclass(obj, M.MessageBase):
                found.setdefault((obj.__module__, obj.__qualname__), obj)
    # subclasses that exist but are not reachable through a namespace could not be deserialized at all
    stack = [M.MessageBase]
    while stack:
        c = stack.pop()
        for sub in c.__subclasses__():
            stack.append(sub)
            if sub.__module__.startswith("openpectus.protocol") and (sub.__module__, sub.__qualname__) not in found:
                found[(sub.__module__, sub.__qualname__)] = sub
    return [found[k] for k in sorted(found)]


def cls_key(cls):
    return f"{cls.__module__}:{cls.__qualname__}"


# ---------------------------------------------------------------------------------------------------------------
# alphabets, base tree and deviation sites derived from annotations
#
# The base instance is described as a plain tree (model -> dict of kwargs, list, set, dict, scalars); a site is a path
# into the tree; an atomic deviation replaces the subtree at a site.

def _strip(ann):
    while typing.get_origin(ann) is typing.Annotated:
        ann = typing.get_args(ann)[0]
    return ann


def _is_model(ann):
    return inspect.isclass(ann) and issubclass(ann, BaseModel)


def _is_union(ann):
    return typing.get_origin(ann) in (typing.Union, types.UnionType)


def scalar_values(ann):
    """full alphabet [(value, nonfinite)] for a scalar-like annotation, base value first; None if not scalar-like"""
    ann = _strip(ann)
    if ann is str:
        return [(v, False) for v in STRS]
    if ann is bool:
        return [(v, False) for v in BOOLS]
    if ann is int:
        return [(v, False) for v in INTS]
    if ann is float:
        return [(v, False) for v in FLOATS] + [(v, True) for v in NONFINITE]
    if ann is type(None) or ann is None:
        return [(None, False)]
    if typing.get_origin(ann) is typing.Literal:
        return [(v, False) for v in typing.get_args(ann)]
    if inspect.isclass(ann) and issubclass(ann, enum.Enum):
        return [(v, False) for v in ann]
    if _is_union(ann):
        out = []
        for arm in typing.get_args(ann):
            sv = scalar_values(arm)
            if sv is None:
                return None
            out += sv
        return out
    return None


def skey(v):
    """strict identity of a plain value: type and content"""
    if isinstance(v, dict):
        return ("dict", tuple(sorted(((skey(k), skey(x)) for k, x in v.items()), key=repr)))
    if isinstance(v, (list, tuple)):
        return (type(v).__name__, tuple(skey(x) for x in v))
    if isinstance(v, (set, frozenset)):
        return ("set", tuple(sorted((skey(x) for x in v), key=repr)))
    return (type(v).__name__, repr(v))


class Builder:
    """walks the annotations of one message class"""

    def __init__(self):
        self.sites = {}      # path -> {"owner": (class name, field), "alts": [(value, nonfinite)]}
        self.order = []

    def add(self, path, owner, alts):
        if path not in self.sites:
            self.sites[path] = {"owner": owner, "alts": []}
            self.order.append(path)
        have = {skey(v) for v, _ in self.sites[path]["alts"]}
        for v, nf in alts:
            if skey(v) not in have:
                have.add(skey(v))
                self.sites[path]["alts"].append((v, nf))

    def build(self, ann, path, owner, record=True, depth=0):
        """-> base plain value for the annotation; registers sites below/at path when record"""
        if depth > 12:
            raise HarnessError(f"annotation nesting too deep at {path}")
        ann = _strip(ann)
        if _is_model(ann):
            tree = {}
            for fname, f in ann.model_fields.items():
                fann = f.annotation
                tree[fname] = self.build(fann, path + (("f", fname),), (ann.__name__, fname), record, depth + 1)
            return tree
        if _is_union(ann):
            arms = [a for a in typing.get_args(ann)]
            structural = [a for a in arms if _strip(a) is not type(None)]
            first = structural[0]
            base = self.build(first, path, owner, record, depth + 1)
            if record:
                alts = []
                for arm in arms:
                    if arm is first:
                        continue
                    sv = scalar_values(arm)
                    if sv is not None:
                        alts += sv
                    else:
                        alts.append((Builder().build(arm, (), owner, False), False))
                self.add(path, owner, [(v, nf) for v, nf in alts if skey(v) != skey(base)])
            return base
        sv = scalar_values(ann)
        if sv is not None:
            base = sv[0][0]
            if record:
                self.add(path, owner, sv[1:])
            return base
        origin = typing.get_origin(ann)
        args = typing.get_args(ann)
        if origin in (list, typing.List) or ann is list:
            if not args:
                raise HarnessError(f"untyped list at {path}: extend the alphabet rules")
            eb = self.build(args[0], path + (("i", 0),), owner, record, depth + 1)
            if record:
                second = Builder().build(args[0], (), owner, False)
                esv = scalar_values(args[0])
                if esv is not None and len(esv) > 1:
                    second = esv[1][0]
                self.add(path, owner, [([], False), ([eb, second], False)])
            return [eb]
        if origin in (set, frozenset, typing.Set) or ann is set:
            esv = scalar_values(args[0]) if args else None
            if not esv:
                raise HarnessError(f"set of non-scalar elements at {path}: extend the alphabet rules")
            base = {esv[0][0]}
            if record:
                alts = [(set(), False)] + [({v}, nf) for v, nf in esv[1:]]
                if len(esv) > 1:
                    alts.append(({esv[0][0], esv[1][0]}, False))
                self.add(path, owner, alts)
            return base
        if origin in (dict, typing.Dict) or ann is dict:
            if len(args) != 2:
                raise HarnessError(f"untyped dict at {path}: extend the alphabet rules")
            ksv = scalar_values(args[0])
            if not ksv:
                raise HarnessError(f"dict with non-scalar keys at {path}: extend the alphabet rules")
            kb = ksv[0][0]
            vb = self.build(args[1], path + (("k", kb),), owner, record, depth + 1)
            if record:
                alts = [({}, False)] + [({k: vb}, nf) for k, nf in ksv[1:]]
                if len(ksv) > 1:
                    alts.append(({kb: vb, ksv[1][0]: vb}, False))
                self.add(path, owner, alts)
            return {kb: vb}
        raise HarnessError(f"annotation {ann!r} at {path} is not covered by the alphabet rules of this check")


def assoc(node, path, value):
    """functional update: a new tree with `value` at `path`, sharing everything else"""
    if not path:
        return value
    k = path[0][1]
    if isinstance(node, dict):
        new = dict(node)
    elif isinstance(node, list):
        new = list(node)
    else:
        raise HarnessError(f"cannot descend into {type(node).__name__} with {k!r}")
    new[k] = assoc(node[k], path[1:], value)
    return new


def path_str(path):
    """path elements are ("f", field) / ("i", list index) / ("k", dict key)"""
    s = ""
    for tag, p in path:
        s += (("." if s else "") + p) if tag == "f" else f"[{p!r}]"
    return s


def plain(v):
    """a model instance as a plain tree, by attribute access (not by model_dump, which is under test)"""
    if isinstance(v, BaseModel):
        return {f: plain(getattr(v, f)) for f in type(v).model_fields}
    if isinstance(v, list):
        return [plain(x) for x in v]
    if isinstance(v, dict):
        return {k: plain(x) for k, x in v.items()}
    if isinstance(v, (set, frozenset)):
        return {plain(x) for x in v}
    return v


def get_at(tree, path):
    for _, p in path:
        tree = tree[p]
    return tree


class ClassInfo:
    def __init__(self, cls):
        self.cls = cls
        b = Builder()
        self.base_tree = b.build(cls, (), (cls.__name__, ""))
        self.atomics = []          # (label, path, value, nonfinite, owner)
        self.dropped = []          # (label, reason)
        try:
            self.base = cls(**self.base_tree)
        except ValidationError as ex:
            raise HarnessError(f"cannot build the base instance of {cls.__name__}: {ex}")
        if skey(plain(self.base)) != skey(self.base_tree):
            raise HarnessError(f"base instance of {cls.__name__} does not hold the base values: {plain(self.base)} vs {self.base_tree}")
        for path in b.order:
            site = b.sites[path]
            for value, nf in site["alts"]:
                label = f"{path_str(path)}={value!r}"
                try:
                    m = cls(**assoc(self.base_tree, path, value))
                except ValidationError:
                    self.dropped.append((label, "rejected by the constructor"))
                    continue
                if skey(get_at(plain(m), path)) != skey(value):
                    self.dropped.append((label, f"coerced by the constructor to {get_at(plain(m), path)!r}"))
                    continue
                self.atomics.append((label, path, value, nf, site["owner"]))
        labels = [a[0] for a in self.atomics]
        if len(set(labels)) != len(labels):
            raise HarnessError(f"ambiguous deviation labels in {cls.__name__}")

    def compatible(self, i, j):
        p, q = self.atomics[i][1], self.atomics[j][1]
        n = min(len(p), len(q))
        return p[:n] != q[:n]

    def make(self, idxs):
        tree = self.base_tree
        for i in idxs:
            tree = assoc(tree, self.atomics[i][1], self.atomics[i][2])
        return self.cls(**tree)

    def defaults_instance(self):
        """only the required fields given (recursively); everything else left to the declared defaults"""
        def prune(ann, tree):
            ann = _strip(ann)
            if _is_model(ann) and isinstance(tree, dict):
                return {f: prune(fi.annotation, tree[f]) for f, fi in ann.model_fields.items() if fi.is_required()}
            return tree
        return self.cls(**prune(self.cls, self.base_tree))


_INFO = {}


def info(cls) -> ClassInfo:
    k = cls_key(cls)
    if k not in _INFO:
        _INFO[k] = ClassInfo(cls)
    return _INFO[k]


# ---------------------------------------------------------------------------------------------------------------
# the production wires

_WS = None


def _ws():
    global _WS
    if _WS is None:
        _WS = JsonSerializingWebSocket(None)       # only its (de)serialization functions are used
    return _WS


def wire_rpc_request(m):
    message_json = serialize(m)
    sent = RpcMessage(request=RpcRequest(method="dispatch_message_async", arguments={"message_json": message_json}, call_id="0"))
    text = _ws()._serialize(sent)
    data = _ws()._deserialize(text)
    received = pydantic_parse(RpcMessage, data)
    return text, lambda: deserialize(received.request.arguments["message_json"])


def wire_rpc_reply(m):
    result = json.dumps(serialize(m))
    sent = RpcMessage(response=RpcResponse[str](call_id="0", result=result, result_type="str"))
    text = _ws()._serialize(sent)
    data = _ws()._deserialize(text)
    received = pydantic_parse(RpcMessage, data)
    return text, lambda: deserialize(json.loads(received.response.result))


_REST = None


def _rest():
    global _REST
    if _REST is None:
        disp = AggregatorDispatcher()
        app = FastAPI()
        app.include_router(disp.router)
        state = {}

        async def handler(msg):
            state["received"] = msg
            return state["reply"]
        disp.set_register_handler(handler)
        _REST = (TestClient(app), state, AGGREGATOR_REST_PATH)
    return _REST


def rest_exchange(register_msg, reply_msg):
    """-> (what the aggregator's handler received, what the engine deserializes from the response)"""
    client, state, url = _rest()
    state.pop("received", None)
    state["reply"] = reply_msg
    response = client.post(url, json=serialize(register_msg))
    if response.status_code != 200:
        raise RuntimeError(f"http status {response.status_code}: {response.text[:200]}")
    return state.get("received"), deserialize(response.json())


def wires_for(cls):
    w = ["rpc-request"]
    if cls.__module__ == M.__name__:
        w.append("rpc-reply")
    if cls.__name__ in ("RegisterEngineMsg", "RegisterEngineReplyMsg"):
        w.append("rest")
    return w


def transport(cls, m, wire):
    """-> (wire text or None, arrived message)  — raises whatever the production path raises"""
    if wire == "rpc-request":
        text, finish = wire_rpc_request(m)
        return text, finish()
    if wire == "rpc-reply":
        text, finish = wire_rpc_reply(m)
        return text, finish()
    if wire == "json-text":
        # (sets are written as arrays and enums by value, as pydantic does on the RPC wire)
        text = json.dumps(serialize(m), default=lambda o: list(o) if isinstance(o, (set, frozenset, tuple)) else o.value if isinstance(o, enum.Enum) else str(o))
        return text, deserialize(json.loads(text))
    if wire == "rest":
        EM, AM = _ns("engine_messages"), _ns("aggregator_messages")
        if cls.__name__ == "RegisterEngineMsg":
            received, _ = rest_exchange(m, info(AM.RegisterEngineReplyMsg).base)
            return None, received
        _, reply = rest_exchange(info(EM.RegisterEngineMsg).base, m)
        return None, reply
    raise HarnessError(wire)


def _ns(short):
    for ns in NAMESPACES:
        if ns.__name__.endswith("." + short):
            return ns
    raise HarnessError(f"namespace {short} not found")


# ---------------------------------------------------------------------------------------------------------------
# oracle

def strict_diff(a, b, owner):
    """first difference between sent a and arrived b -> (owner class, field, why, sent value, arrived value) or None"""
    d = _strict_diff(a, b, owner)
    if d is not None and len(d) == 3:
        d = d + (a, b)
    return d


def _strict_diff(a, b, owner):
    if isinstance(a, BaseModel):
        if type(a) is not type(b):
            return owner + (f"type-changed:{type(a).__name__}-becomes-{type(b).__name__}",)
        for f in type(a).model_fields:
            d = strict_diff(getattr(a, f), getattr(b, f, None), (type(a).__name__, f))
            if d:
                return d
        return None
    if type(a) is not type(b):
        return owner + (f"value:{type(a).__name__}-becomes-{type(b).__name__}",)
    if isinstance(a, list):
        if len(a) != len(b):
            return owner + ("list-length-changed",)
        for x, y in zip(a, b):
            d = strict_diff(x, y, owner)
            if d:
                return d
        return None
    if isinstance(a, dict):
        ka, kb = {skey(k) for k in a}, {skey(k) for k in b}
        if ka != kb:
            lost = sorted(k[0] for k in ka - kb)
            new = sorted(k[0] for k in kb - ka)
            if lost and new and len(a) == len(b):
                return owner + (f"dict-key:{lost[0]}-becomes-{new[0]}",)
            return owner + ("dict-keys-changed",)
        for k in a:
            d = strict_diff(a[k], b[k], owner)
            if d:
                return d
        return None
    if isinstance(a, (set, frozenset)):
        return None if {skey(x) for x in a} == {skey(x) for x in b} else owner + ("set-changed",)
    return None if a == b else owner + (f"value-changed:{type(a).__name__}",)


def judge_roundtrip(ci: ClassInfo, m, idxs, wire):
    """-> (outcome string for statistics, [(signature, what)])"""
    cls = ci.cls
    labels = [ci.atomics[i][0] for i in idxs]
    first_owner = ci.atomics[idxs[0]][4] if idxs else (cls.__name__, "")
    where = f"{cls.__name__}({', '.join(labels) or 'base'}) over {wire}"
    try:
        text, back = transport(cls, m, wire)
    except ProtocolDeserializationException as ex:
        return "rejected", [(f"C26:roundtrip:{first_owner[0]}.{first_owner[1]}:arrives-as-protocol-error:{wire}",
                             f"{where}: the receiver rejects the sender's own message: {str(ex)[:300]}")]
    except Exception as ex:  # noqa
        return "raised", [(f"C26:roundtrip:{first_owner[0]}.{first_owner[1]}:cannot-be-sent:{type(ex).__name__}:{wire}",
                           f"{where}: {type(ex).__name__}: {str(ex)[:300]}")]
    if back is None:
        return "nothing", [(f"C26:roundtrip:{cls.__name__}:nothing-arrived:{wire}", f"{where}: handler never received a message")]
    if type(back) is not type(m):
        return "type", [(f"C26:roundtrip:{cls.__name__}:arrives-as-{type(back).__name__}",
                         f"{where}: arrives as {type(back).__module__}.{type(back).__qualname__}")]
    d = strict_diff(m, back, (cls.__name__, ""))
    if d:
        return "changed", [(f"C26:roundtrip:{d[0]}.{d[1]}:{d[2]}",
                            f"{where}: {d[0]}.{d[1]} sent {plain(d[3])!r} arrived {plain(d[4])!r}")]
    if not (back == m):
        return "unequal", [(f"C26:roundtrip:{cls.__name__}:not-equal", f"{where}: strict walk equal but pydantic == is False: {m!r} vs {back!r}")]
    return "ok", []


def observe_nonfinite(ci, m, wire):
    try:
        _, back = transport(ci.cls, m, wire)
    except ProtocolDeserializationException:
        return "rejected-by-receiver"
    except Exception as ex:  # noqa
        return f"cannot-be-sent:{type(ex).__name__}"
    return "unchanged" if strict_diff(m, back, ("", "")) is None else "silently-changed"


# ---------------------------------------------------------------------------------------------------------------
# malformed envelopes

def envelope_of(ci: ClassInfo):
    text, _ = wire_rpc_request(ci.base)
    return json.loads(text)["request"]["arguments"]["message_json"]


def _home_ns(cls):
    for n in NAMESPACES:
        if n.__name__ == cls.__module__:
            return n
    return None


def malformations(cls):
    """[(kind, asserted, param)] — param is enough to rebuild the envelope in replay"""
    ns = _home_ns(cls)
    if ns is None:      # a message class outside the namespaces cannot round-trip at all (reported by the round trip)
        return []
    out = [("missing-_type", True, None), ("missing-_ns", True, None), ("missing-both", True, None)]
    for v in ("NoSuchMsg", "", cls.__name__.lower(), cls.__name__ + " ", "MessageBase.__init__"):
        if not isinstance(getattr(ns, v, None) if v.isidentifier() else None, type):
            out.append(("unknown-_type", True, v))
    for v in ("no.such.module", "", "openpectus.protocol.models", "openpectus.protocol.serialization", ns.__name__.split(".")[-1],
              ns.__name__.upper(), "json", "builtins"):
        out.append(("unknown-_ns", True, v))
    for name in sorted(set(dir(ns))):
        obj = getattr(ns, name, None)
        if inspect.isclass(obj) and issubclass(obj, M.MessageBase):
            continue
        out.append(("non-message-attribute", True, name))
    for other in NAMESPACES:
        if other is ns:
            continue
        if not (inspect.isclass(getattr(other, cls.__name__, None)) and issubclass(getattr(other, cls.__name__), M.MessageBase)):
            out.append(("message-of-another-namespace", True, other.__name__))
    for v in (None, 5, ["x"], {"a": 1}):
        out.append(("non-string-_type", False, v))
        out.append(("non-string-_ns", False, v))
    for v in (None, [], "x", 5):
        out.append(("envelope-not-an-object", False, v))
    return out


def malformed_envelope(ci: ClassInfo, kind, param):
    env = dict(envelope_of(ci))
    ns = _home_ns(ci.cls)
    if kind == "missing-_type":
        del env["_type"]
    elif kind == "missing-_ns":
        del env["_ns"]
    elif kind == "missing-both":
        del env["_type"], env["_ns"]
    elif kind in ("unknown-_type", "non-string-_type"):
        env["_type"] = param
    elif kind in ("unknown-_ns", "non-string-_ns", "message-of-another-namespace"):
        env["_ns"] = param
    elif kind == "non-message-attribute":
        obj = getattr(ns, param, None)
        if _is_model(obj):
            # make the sharpest envelope: one the named (non-message) model would accept
            try:
                env = json.loads(json.dumps(_jsonable_tree(Builder().build(obj, (), (obj.__name__, ""), False))))
            except HarnessError:
                env = dict(env)
            env["_ns"] = ns.__name__
        env["_type"] = param
    elif kind == "envelope-not-an-object":
        env = param
    else:
        raise HarnessError(kind)
    return env


def _jsonable_tree(t):
    if isinstance(t, dict):
        return {str(k): _jsonable_tree(v) for k, v in t.items()}
    if isinstance(t, (list, set, frozenset)):
        return [_jsonable_tree(v) for v in t]
    if isinstance(t, enum.Enum):
        return t.value
    return t


def judge_malformed(ci, kind, asserted, param):
    env = malformed_envelope(ci, kind, param)
    try:
        got = deserialize(env)
        outcome = f"accepted-as-{type(got).__name__}"
    except ProtocolDeserializationException:
        outcome = "protocol-error"
    except BaseException as ex:  # noqa
        outcome = f"raised-{type(ex).__name__}"
    if outcome == "protocol-error" or not asserted:
        return outcome, []
    return outcome, [(f"C26:malformed:{kind}:{outcome}",
                      f"envelope for {ci.cls.__name__} with {kind} ({param!r}) is not rejected as a protocol error: {outcome}; envelope {str(env)[:300]}")]


# ---------------------------------------------------------------------------------------------------------------
# enumeration

def combos(ci: ClassInfo, k, first):
    """all index tuples (first < j < ...) of k pairwise compatible atomic deviations"""
    n = len(ci.atomics)

    def rec(chosen, start):
        if len(chosen) == k:
            yield tuple(chosen)
            return
        for j in range(start, n):
            if all(ci.compatible(c, j) for c in chosen):
                chosen.append(j)
                yield from rec(chosen, j + 1)
                chosen.pop()
    yield from rec([first], first + 1)


def work(item):
    """item: (class key, what, arg)
         what = 'k': arg = (k, lo, hi)  -> every combination of k deviations whose smallest index is in [lo, hi)
         what = 'special'                           -> base, declared-defaults instance, malformed envelopes"""
    key, what, arg = item
    ci = _INFO[key] if key in _INFO else info(_CLS[key])
    viols = []
    seen = set()
    cnt = {"evaluations": 0, "cases": 0, "nonfinite_cases": 0, "rejected_combinations": 0, "malformed": 0, "malformed_unasserted": 0}
    outcomes = {}

    def record(sigs, rp):
        for sig, what_ in sigs:
            if sig not in seen:
                seen.add(sig)
                viols.append((sig, what_, rp))

    def roundtrips(m, idxs, extra=None):
        nonfinite = any(ci.atomics[i][3] for i in idxs)
        cnt["nonfinite_cases" if nonfinite else "cases"] += 1
        if nonfinite:
            # Python's json module writes and reads Infinity: serialize() -> JSON text -> deserialize() must keep the value
            cnt["evaluations"] += 1
            o, sigs = judge_roundtrip(ci, m, idxs, "json-text")
            outcomes[f"nonfinite:json-text:{o}"] = outcomes.get(f"nonfinite:json-text:{o}", 0) + 1
            record(sigs, {"kind": "roundtrip", "cls": key, "deviations": [ci.atomics[i][0] for i in idxs], "wire": "json-text", **(extra or {})})
        for wire in wires_for(ci.cls):
            cnt["evaluations"] += 1
            if nonfinite:
                o = observe_nonfinite(ci, m, wire)
                outcomes[f"nonfinite:{wire}:{o}"] = outcomes.get(f"nonfinite:{wire}:{o}", 0) + 1
                continue
            o, sigs = judge_roundtrip(ci, m, idxs, wire)
            outcomes[f"{wire}:{o}"] = outcomes.get(f"{wire}:{o}", 0) + 1
            record(sigs, {"kind": "roundtrip", "cls": key, "deviations": [ci.atomics[i][0] for i in idxs], "wire": wire, **(extra or {})})

    if what == "special":
        roundtrips(ci.base, ())
        try:
            dm = ci.defaults_instance()
        except ValidationError as ex:
            raise HarnessError(f"defaults instance of {key}: {ex}")
        for wire in wires_for(ci.cls):
            cnt["evaluations"] += 1
            o, sigs = judge_roundtrip(ci, dm, (), wire)
            outcomes[f"{wire}:{o}"] = outcomes.get(f"{wire}:{o}", 0) + 1
            record([(s, w.replace("(base)", "(declared defaults)")) for s, w in sigs], {"kind": "defaults", "cls": key, "wire": wire})
        cnt["cases"] += 1
        for kind, asserted, param in malformations(ci.cls):
            cnt["evaluations"] += 1
            cnt["malformed" if asserted else "malformed_unasserted"] += 1
            o, sigs = judge_malformed(ci, kind, asserted, param)
            outcomes[f"malformed:{kind}:{o}"] = outcomes.get(f"malformed:{kind}:{o}", 0) + 1
            record(sigs, {"kind": "malformed", "cls": key, "malformation": kind, "asserted": asserted, "param": param})
    else:
        k, lo, hi = arg
        for first in range(lo, hi):
            for idxs in combos(ci, k, first):
                try:
                    m = ci.make(idxs)
                except ValidationError:
                    cnt["rejected_combinations"] += 1
                    continue
                roundtrips(m, idxs)
    return viols, cnt, outcomes


_CLS = {}


def plan(quick):
    """-> (items, per-class description)"""
    classes = message_classes()
    for c in classes:
        _CLS[cls_key(c)] = c
        info(c)
    items = []
    desc = {}
    K = 2 if quick else 3
    for c in classes:
        ci = info(c)
        n = len(ci.atomics)
        desc[cls_key(c)] = {"atomic_deviations": n, "max_simultaneous": min(K, n), "wires": wires_for(c),
                            "dropped_values": len(ci.dropped)}
        items.append((cls_key(c), "special", None))
        for k in range(1, K + 1):
            block = {1: max(n, 1), 2: 16}.get(k, 1)      # work items of comparable size
            for lo in range(0, n, block):
                items.append((cls_key(c), "k", (k, lo, min(n, lo + block))))
    # simplest first: specials, then by k
    items.sort(key=lambda it: (0 if it[1] == "special" else it[2][0], it[0], it[2] or ()))
    return items, desc


def run(ctx):
    items, desc = plan(ctx.quick)
    if not any("rest" in d["wires"] for d in desc.values()):
        raise HarnessError("RegisterEngineMsg / RegisterEngineReplyMsg not found: the rest wire was never exercised")
    some = [it for it in items if it[1] == "k" and it[2][0] == 1]
    ctx.prove_deterministic(work, [items[0], some[0], some[len(some) // 2]])
    res = ctx.pmap(work, items, chunk=1)
    tot = {}
    outcomes = {}
    allv = []
    for (viols, cnt, oc), it in zip(res, items):
        for k, v in cnt.items():
            tot[k] = tot.get(k, 0) + v
        for k, v in oc.items():
            outcomes[k] = outcomes.get(k, 0) + v
        allv += viols
    allv.sort(key=lambda v: (len(v[2].get("deviations", [])), v[2]["cls"], str(v[2].get("deviations", ""))))
    for sig, what, rp in allv:
        ctx.violation(sig, what, rp)
    if not tot.get("malformed") or tot.get("cases", 0) < 2:
        raise HarnessError(f"vacuous run: {tot}")
    dropped = sorted({f"{k.split(':')[1]}: {lab} ({why})" for k in desc for lab, why in _INFO[k].dropped})
    samples = []
    for k in sorted(desc)[:: max(1, len(desc) // 4)]:
        ci = _INFO[k]
        if ci.atomics:
            samples.append(f"{ci.cls.__name__}({ci.atomics[len(ci.atomics) // 2][0]})")
    ctx.coverage.update(
        evaluations=tot["evaluations"], distinct_nontrivial=tot["cases"] - 2 * len(desc),
        rule="per message class: the base instance, the declared-defaults instance and every combination of <= K "
             "independent single-site deviations from the base instance (alphabets per annotation), each sent over every "
             "production wire that applies to the class; plus every malformed envelope. Cases are distinct by "
             "construction (distinct deviation sets); non-trivial = at least one field deviates from the base instance",
        samples=samples, exhaustive=True, classes=len(desc), per_class=desc, message_cases=tot["cases"],
        nonfinite_cases_asserted_over_json_text=tot["nonfinite_cases"], combinations_rejected_by_constructor=tot["rejected_combinations"],
        malformed_envelopes_asserted=tot["malformed"], malformed_envelopes_recorded_only=tot["malformed_unasserted"],
        outcomes=outcomes, values_dropped_at_setup=dropped,
        alphabets={"str": STRS, "int": INTS, "float": FLOATS, "float_nonfinite_asserted_over_json_text_recorded_only_over_rpc": [repr(x) for x in NONFINITE]},
    )
    ctx.assumptions += [
        "the wire of a class is the dispatcher path that sends it: rpc request for every class, rpc reply for the classes of "
        "openpectus.protocol.messages, the REST registration route for RegisterEngineMsg/RegisterEngineReplyMsg",
        "websocket framing and HTTP transport below the JSON text are not modelled (TestClient for REST, the rpc library's "
        "own (de)serialization functions for websocket rpc)",
        "inf/-inf have no JSON representation: recorded, not asserted; NaN excluded",
        "field validators are per-field: deviations validated singly; combinations rejected by the constructor are skipped and counted",
    ]


def replay(data):
    classes = {cls_key(c): c for c in message_classes()}
    cls = classes[data["cls"]]
    _CLS[data["cls"]] = cls
    ci = info(cls)
    if data["kind"] == "malformed":
        env = malformed_envelope(ci, data["malformation"], data["param"])
        print("envelope:", env)
        o, sigs = judge_malformed(ci, data["malformation"], data.get("asserted", True), data["param"])
        print("outcome :", o)
        return sigs
    if data["kind"] == "defaults":
        m, idxs = ci.defaults_instance(), ()
    else:
        by_label = {a[0]: i for i, a in enumerate(ci.atomics)}
        idxs = tuple(by_label[lab] for lab in data["deviations"])
        m = ci.make(idxs)
    print("sent    :", repr(m))
    wire = data["wire"]
    try:
        text, back = transport(cls, m, wire)
        if text:
            print("wire    :", text)
        print("arrived :", repr(back))
    except Exception as ex:  # noqa
        print("raised  :", type(ex).__name__, ex)
    o, sigs = judge_roundtrip(ci, m, idxs, wire)
    print("outcome :", o)
    for _, what in sigs:
        print("diff    :", what)
    return sigs
