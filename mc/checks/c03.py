"""C03 — Thresholds and Wait durations are honoured.

Bounded-exhaustive enumeration of programs with thresholds in s / min / h / L and Base changes, Wait durations, blocks
and watches (scope clocks), with one pause or hold interval at every tick; judged only against the engine's own clock
tags as observed at tick boundaries (never against an idealised clock).
"""
from __future__ import annotations

import collections
import itertools
from decimal import Decimal

from mc import flowcheck as fc
from mc import pgen
from mc.core import HarnessError
from mc.engine_harness import Run, apply_request, DT

ID = "C03"
LEVEL = "model_checking"
META = dict(
    technique="bounded-exhaustive enumeration of (program with thresholds/Waits/Base changes, pause|hold interval at every tick) on the real Engine, judged against the engine's own clock tags",
    text="Every program of the corpus (Base s/min/h/L, thresholded Marks with several threshold values per unit, Wait durations "
         "that are and are not multiples of the tick, inside blocks and Watch scopes) runs alone and with one Pause/Unpause or "
         "Hold/Unhold interval at every tick (and, for the short programs, an overlapping Pause and Hold with the inner one "
         "released first).  A thresholded instruction must not start while the scope clock the engine showed "
         "before that tick (Block Time inside a block, else Scope Time, or the accumulated volume for Base L), converted "
         "exactly to the Base unit, is below its threshold, and must start in the first running tick in which that clock has "
         "reached it; for top-level thresholds in time units the start is also compared with an independent lower bound "
         "(ticks that were Running since the clock last restarted); the instruction after 'Wait: d' is first visited no earlier than d seconds after the Wait started and, "
         "when no non-running tick intervenes, no later than d plus one tick.",
    note="Clock values are read from the engine's tags at tick boundaries and compared exactly (Decimal of the printed value); "
         "1 microsecond tolerance on Wait; programs <= 3 statements (4 thorough); horizon 60 ticks.",
)

HORIZON = 60
EPS = 1e-6
UNIT_SECONDS = {"s": Decimal(1), "min": Decimal(60), "h": Decimal(3600)}

# statement alphabet: rendered text; thresholds chosen so that they pass inside the horizon
THRESH = {
    "s": ["0", "0.25", "0.5", "1.05"],
    "min": ["0.005", "0.0125"],
    "h": ["0.0002"],
    "L": ["0.25", "0.5"],
}
WAITS = ["0.05s", "0.1s", "0.25s", "1s", "0.01min"]


def programs(ctx):
    """Programs as lists of source lines.  Marks are named by position."""
    progs = []
    bases = [("s", "Base: s"), ("min", "Base: min"), ("h", "Base: h"), ("L", "Base: L")]
    for unit, base_line in bases:
        for t in THRESH[unit]:
            progs.append([base_line, f"{t} Mark: a"])
            progs.append([base_line, "Mark: p", f"{t} Mark: a"])
            progs.append([base_line, "Block: B", f"    {t} Mark: a", "    End block", "Mark: z"])
            progs.append([base_line, "Wait: 0.3s", "Block: B", f"    {t} Mark: a", "    End block"])
            progs.append([base_line, "Watch: X > 1", f"    {t} Mark: a", "Wait: 3s"])
            for t2 in THRESH[unit][:2]:
                progs.append([base_line, f"{t} Mark: a", f"{t2} Mark: b"])
        if unit == "s":
            # a top-level threshold after a block / a Watch body has run (the program scope's clock must have kept running)
            for t in ("1.05", "1.5"):
                progs.append([base_line, "Block: B", "    Wait: 0.5s", "    End block", f"{t} Mark: a"])
                progs.append([base_line, "Watch: X > 1", "    Wait: 0.5s", "Wait: 0.7s", f"{t} Mark: a"])
        if unit == "L":
            # a threshold in an outer block after a nested block has ended (the block clock must still be the outer block's)
            for t in THRESH[unit]:
                progs.append([base_line, "Wait: 0.5s", "Block: A", "    Block: B", "        Mark: p", "        End block",
                              f"    {t} Mark: a", "    End block", "Mark: z"])
        # base change after a first threshold
        for unit2, base2 in bases:
            if unit2 != unit:
                progs.append([base_line, f"{THRESH[unit][0]} Mark: a", base2, f"{THRESH[unit2][-1]} Mark: b"])
    # default base (min) without a Base line
    progs.append(["0.005 Mark: a"])
    for w in WAITS:
        progs.append([f"Wait: {w}", "Mark: n"])
        progs.append(["Mark: p", f"Wait: {w}", "Mark: n"])
        progs.append(["Block: B", f"    Wait: {w}", "    Mark: n", "    End block"])
        for w2 in WAITS[:3]:
            progs.append([f"Wait: {w}", f"Wait: {w2}", "Mark: n"])
    # a Wait that executes more than once: macro called twice, Alarm body that runs again
    for w in ("0.5s", "0.3s"):
        progs.append(["Macro: A", f"    Wait: {w}", "    Mark: n", "Call macro: A", "Call macro: A"])
        progs.append(["Alarm: X > 1", f"    Wait: {w}", "    Mark: n", "Wait: 4s"])
    if not ctx.quick:
        for unit, base_line in bases[:2]:
            for t, w in itertools.product(THRESH[unit], WAITS):
                progs.append([base_line, f"Wait: {w}", f"{t} Mark: a", f"Wait: {w}", "Mark: n"])
    return progs


def drive(lines, schedule):
    run = Run([(f"L{i}", c) for i, c in enumerate(lines)], observe=("tags",))
    by = collections.defaultdict(list)
    for t, req in schedule:
        by[t].append(req)
    for t in range(HORIZON):
        run.set_input("Tot", round(0.05 * t, 6))        # 0.05 L per tick
        run.set_input("X", 2.0 if t >= 6 else 0.0)
        for req in by.get(t, ()):
            apply_request(run, req)
        run.tick()
    return run


def clock_for(ob, base):
    pc = ob["pre_clocks"]
    in_block = pc["Block"] not in (None, "")
    if base in UNIT_SECONDS:
        v = pc["Block Time"] if in_block else pc["Scope Time"]
        return Decimal(str(v)), "s"
    v = pc.get("Block Volume") if in_block else pc.get("Accumulated Volume")
    return (Decimal(str(v)) if v is not None else None), "L"


def interpreter_ran(ob) -> bool:
    f = ob["pre_flags"]
    return f["started"] and not f["paused"] and not f["holding"] and not f["stopping"]


def prev_interpreter_tick(run: Run, t: int) -> int:
    """the last tick before t in which the interpreter was ticked"""
    k = t - 1
    while k > 0 and not interpreter_ran(run.obs[k]):
        k -= 1
    return k


def judge(lines, run: Run, forced=False):
    probs = []
    info = pgen.line_info([(f"L{i}", c) for i, c in enumerate(lines)])
    rec = fc.record_table(run)
    for ob in run.obs:
        if "tick_exception" in ob:
            probs.append(("C03:tick-raised", ob["tick_exception"]))
    if run.error_events:
        probs.append((f"C03:method-error:{run.error_events[0][1]}", f"{lines}: {run.error_events[0]}"))
        return probs, 0
    judged = 0
    for li in info:
        raw = li["raw"].strip()
        d = rec.get(li["id"])
        if d is None or d["first_visit"] < 0:
            continue
        first = raw.split(" ", 1)[0]
        is_thr = raw[0].isdigit()
        if is_thr and d["started"]:
            T = Decimal(first)
            # every instruction pays one end-of-tick between getting its started flag and producing its effect (the Started
            # record state): the instruction *starts* in the tick before its Started state
            s = prev_interpreter_tick(run, min(d["started"]))
            v = d["first_visit"]
            judged += 1
            base = run.obs[s]["pre_clocks"]["Base"]
            clock, cu = clock_for(run.obs[s], base)
            Tn = T * UNIT_SECONDS[base] if base in UNIT_SECONDS else T
            if clock is None:
                continue
            if base in UNIT_SECONDS and li["parent"] is None and not run.obs[s]["pre_clocks"]["Block"]:
                # independent lower bound: the scope clock of the run cannot have reached T unless that much time passed in
                # ticks that were Running at one end at least, counted from the last reset of the clock (2 ticks of slack)
                # (the program scope's clock starts with the run; the Scope Time tag shows the innermost open scope, so it drops
                # while a Block / Watch body is active and comes back afterwards - no restart of the program scope's clock)
                k0 = max(next((k for k in range(len(run.obs)) if run.obs[k]["pre_clocks"]["Scope Time"] > 0), 1) - 1, 0)
                ref = Decimal(str(DT)) * sum(1 for k in range(k0, s) if "Running" in (run.obs[k]["pre_state"], run.obs[k]["state"]))
                # ... and an upper bound: once that much time has passed in ticks that were Running at both ends (and the
                # predecessor has completed, i.e. the line has been visited) the instruction must start within 2 ticks
                strict = 0
                k_t = None
                for k in range(k0, s + 1):
                    if Decimal(str(DT)) * strict >= Tn:
                        k_t = k
                        break
                    if run.obs[k]["pre_state"] == "Running" and run.obs[k]["state"] == "Running":
                        strict += 1
                if k_t is not None and s > max(v, k_t) + 2 and all(interpreter_ran(run.obs[k]) for k in range(max(v, k_t), s + 1)):
                    probs.append((f"C03:threshold-late:reference-clock:{base}",
                                  f"{raw!r} first visited in tick {v} started only in tick {s}: since the scope clock last restarted "
                                  f"(tick {k0}) {T} {base} had passed in Running ticks by tick {k_t} (engine's Scope Time then "
                                  f"{run.obs[k_t]['pre_clocks']['Scope Time']})"))
                if ref + 2 * Decimal(str(DT)) < Tn:
                    probs.append((f"C03:threshold-early:reference-clock:{base}",
                                  f"{raw!r} started in tick {s}: since the run's scope clock started (tick {k0}) only {ref} s passed in "
                                  f"ticks that were Running, threshold {T} {base} (engine's Scope Time {clock})"))
            if base in UNIT_SECONDS and li["parent"] is not None and info[li["parent"]]["name"] == "Block":
                # independent lower bound for the block's time clock: since the block became the active one, only ticks that were
                # Running at one end at least can have moved it (2 ticks of slack)
                bname = info[li["parent"]]["arg"]
                k_a = next((k for k in range(len(run.obs)) if run.obs[k]["pre_clocks"]["Block"] == bname), None)
                if k_a is not None and k_a <= s:
                    ref = Decimal(str(DT)) * sum(1 for k in range(max(k_a - 1, 0), s) if "Running" in (run.obs[k]["pre_state"], run.obs[k]["state"]))
                    if ref + 2 * Decimal(str(DT)) < Tn:
                        probs.append((f"C03:threshold-early:reference-clock:{base}:block",
                                      f"{raw!r} started in tick {s}: block {bname} has been active since tick {k_a - 1} and only {ref} s "
                                      f"passed in ticks that were Running, threshold {T} {base} (engine's Block Time {clock})"))
            if base == "L" and li["parent"] is not None and info[li["parent"]]["name"] == "Block":
                # independent lower bound for the block's volume clock: the harness feeds 0.05 L per tick, so since the
                # block became the active one at most 0.05 L x ticks can have accumulated (2 ticks of slack)
                bname = info[li["parent"]]["arg"]
                k_a = next((k for k in range(len(run.obs)) if run.obs[k]["pre_clocks"]["Block"] == bname), None)
                if k_a is not None and k_a <= s:
                    ref = Decimal("0.05") * (s - k_a + 1)
                    if ref + Decimal("0.1") < Tn:
                        probs.append(("C03:threshold-early:reference-volume:L:block",
                                      f"{raw!r} started in tick {s}: block {bname} has been active since tick {k_a - 1}, at most {ref} L "
                                      f"can have passed in it, threshold {T} L (engine's block clock {clock})"))
            if clock < Tn:
                probs.append((f"C03:threshold-early:{base}:{'block' if run.obs[s]['pre_clocks']['Block'] else 'scope'}",
                              f"{raw!r} started in tick {s} although the clock before that tick was {clock} {cu} < threshold {T} {base}"))
            # the first line of a body is first visited in the tick in which its scope / block is activated and the clock
            # restarts; the clock shown before that tick belongs to the outer scope, so that tick is not judged
            sib_before = [x for x in info if x["parent"] == li["parent"] and x["idx"] < li["idx"] and not x["blank"]]
            first_in_body = li["parent"] is not None and not sib_before
            for k in range(max(v + (1 if first_in_body else 0), 1), s):
                ob = run.obs[k]
                if not interpreter_ran(ob):
                    continue
                bk = ob["pre_clocks"]["Base"]
                ck, _ = clock_for(ob, bk)
                Tk = T * UNIT_SECONDS[bk] if bk in UNIT_SECONDS else T
                if ck is not None and ck >= Tk:
                    probs.append((f"C03:threshold-late:{bk}:{'block' if ob['pre_clocks']['Block'] else 'scope'}",
                                  f"{raw!r} first visited in tick {v} started only in tick {s}, but before running tick {k} the clock was already {ck} >= {T} {bk}"))
                    break
        if li["name"] == "Wait" and d["started"]:
            # next sibling's first visit
            sibs = [x for x in info if x["parent"] == li["parent"] and x["idx"] > li["idx"] and not x["blank"]]
            if not sibs or sibs[0]["id"] not in rec or rec[sibs[0]["id"]]["first_visit"] < 0:
                continue
            arg = li["arg"]
            dur = float(arg[:-3]) * 60 if arg.endswith("min") else float(arg[:-1])
            # a Wait in a macro or Alarm body runs once per invocation: every execution is judged, paired with the next visit
            # of the following instruction
            nxt_visits = sorted(t for nm, t in rec[sibs[0]["id"]]["states"] if nm == "created")
            for k, ts_state_k in enumerate(sorted(d["started"])[1:], start=2):
                later = [t for t in nxt_visits if t >= ts_state_k]
                if not later:
                    continue
                judged += 1
                el = (later[0] - prev_interpreter_tick(run, ts_state_k)) * DT
                if el < dur - EPS:
                    probs.append((f"C03:wait-too-short:{arg}:execution-{min(k, 2)}+",
                                  f"'Wait: {arg}' execution {k} started in tick {ts_state_k - 1}; the next instruction was visited in tick {later[0]}, {el:.3f}s later"))
            judged += 1
            # "after the Wait started" can be read as the tick of the started flag or the tick of the Started state (one later,
            # which is the time the engine itself counts from); the lower bound is judged from the earlier, the upper bound
            # from the later reading, so that behaviour consistent with either reading is accepted
            ts_state = min(d["started"])
            ts = prev_interpreter_tick(run, ts_state)
            tn = rec[sibs[0]["id"]]["first_visit"]
            elapsed = (tn - ts) * DT
            if elapsed < dur - EPS:
                probs.append((f"C03:wait-too-short:{arg}", f"'Wait: {arg}' started in tick {ts}; the next instruction was visited in tick {tn}, {elapsed:.3f}s later"))
            quiet = all(run.obs[k]["pre_state"] == "Running" and run.obs[k]["state"] == "Running" for k in range(ts, tn + 1))
            elapsed = (tn - ts_state) * DT
            if quiet and elapsed > dur + DT + EPS:
                probs.append((f"C03:wait-too-long:{arg}", f"'Wait: {arg}' started in tick {ts}; the next instruction was visited only in tick {tn}, {elapsed:.3f}s later"))
    return probs, judged


def explore(item):
    lines, with_intervals = item
    out = []
    stats = collections.Counter()
    base = drive(lines, ())
    probs, judged = judge(lines, base)
    stats["exec"] += 1
    stats["judged"] += judged
    for s, w in probs:
        out.append((s, w, {"lines": lines, "schedule": []}))
    # quiescence point: last tick where marks changed
    last = max([ob["n"] for ob in base.obs if ob["nmarks"] != base.obs[-1]["nmarks"]] + [3]) + 2
    base.cleanup()
    if with_intervals:
        for a in range(1, min(last, HORIZON - 20)):
            for cmd, un in (("Pause", "Unpause"), ("Hold", "Unhold")):
                for length in (1, 4):
                    sched = ((a, ("user", cmd)), (a + length, ("user", un)))
                    r = drive(lines, sched)
                    probs, judged = judge(lines, r)
                    stats["exec"] += 1
                    stats["judged"] += judged
                    stats["with_interval"] += 1
                    for s, w in probs:
                        out.append((s + ":" + cmd.lower(), w, {"lines": lines, "schedule": [[t, list(q)] for t, q in sched]}))
                    r.cleanup()
    if with_intervals and len(lines) <= 3:
        # a Pause and a Hold that overlap, the inner one released first (both nestings)
        for a in range(1, min(last, HORIZON - 24)):
            for outer, inner in (("Pause", "Hold"), ("Hold", "Pause")):
                sched = ((a, ("user", outer)), (a + 1, ("user", inner)), (a + 2, ("user", "Un" + inner.lower())),
                         (a + 8, ("user", "Un" + outer.lower())))
                r = drive(lines, sched)
                probs, judged = judge(lines, r)
                stats["exec"] += 1
                stats["judged"] += judged
                stats["with_interval"] += 1
                for s, w in probs:
                    out.append((s + f":{outer.lower()}+{inner.lower()}", w, {"lines": lines, "schedule": [[t, list(q)] for t, q in sched]}))
                r.cleanup()
    if with_intervals and len(lines) <= 5 and not any("Watch" in ln or "Base: L" in ln for ln in lines):
        # second run: the first run is stopped (while running / paused / on hold, before or inside a block), then started again; the
        # second run must start every thresholded / waited-for instruction at the same offset from its start as a fresh run does
        fresh = mark_offsets(base_offsets_of(lines))
        # reference: the plainest second run (stopped while running before tick 2).  The very first run of an engine reaches its
        # first instruction one tick later than later runs do, so offsets are compared between second runs; the fresh run
        # supplies the marks that have to appear
        ref_run = drive(lines, ((2, ("user", "Stop")), (5, ("user", "Start"))))
        want = mark_offsets(ref_run, after=5)
        ref_run.cleanup()
        stats["exec"] += 1
        if fresh is not None and want is not None and [m for m, _ in fresh["marks"]] != [m for m, _ in want["marks"]]:
            out.append(("C03:second-run-differs:marks:after-stop-while-running",
                        f"run stopped at tick 2 and started again: marks {want['marks']}, a fresh run has {fresh['marks']}",
                        {"lines": lines, "schedule": [[2, ["user", "Stop"]], [5, ["user", "Start"]]]}))
        for first in (None, "Pause", "Hold"):
            for s_at in range(2, min(last + 2, 16)):
                sched = (((1, ("user", first)),) if first else ()) + ((s_at, ("user", "Stop")), (s_at + 3, ("user", "Start")))
                r = drive(lines, sched)
                stats["exec"] += 1
                got = mark_offsets(r, after=s_at + 3)
                if got is not None and want is not None and HORIZON - (s_at + 4) > want["span"] + 2:
                    stats["second_runs_compared"] += 1
                    # whether a 'Wait: 0.3s' takes three or four ticks depends on the binary rounding of the tick times, which differ
                    # from run to run: offsets may differ by one tick per Wait line (and one for the tick in which Start lands)
                    tol = 1 + sum(1 for ln in lines if "Wait" in ln)
                    same = ([m for m, _ in got["marks"]] == [m for m, _ in want["marks"]]
                            and all(abs(a[1] - b[1]) <= tol for a, b in zip(got["marks"], want["marks"])))
                    if not same:
                        how = "never" if len(got["marks"]) < len(want["marks"]) else "other-offsets"
                        out.append((f"C03:second-run-differs:{how}:after-stop-{'while-' + first.lower() if first else 'while-running'}",
                                    f"run stopped at tick {s_at}" + (f" ({first} before tick 1)" if first else "") + f" and started again: marks at "
                                    f"offsets {got['marks']} from the start of the second run, the second run after a plain Stop at tick 2 has {want['marks']}",
                                    {"lines": lines, "schedule": [[t, list(q)] for t, q in sched]}))
                r.cleanup()
    seen, uniq = set(), []
    for s, w, c in out:
        if s not in seen:
            seen.add(s)
            uniq.append((s, w, c))
    return uniq, dict(stats)


def base_offsets_of(lines):
    return drive(lines, ())


def mark_offsets(run: Run, after: int = 0):
    """[(mark, ticks since the run (the one started at/after tick `after`) became Running)] or None if it never did"""
    start = next((ob["n"] for ob in run.obs if ob["n"] >= after and ob["state"] == "Running" and ob["flags"]["started"]), None)
    if start is None:
        if after == 0:
            run.cleanup()
        return None
    names = run.marks()
    marks = []
    n0 = run.obs[start - 1]["nmarks"] if start > 0 else 0
    prev = n0
    for ob in run.obs[start:]:
        for k in range(prev, ob["nmarks"]):
            marks.append((names[k], ob["n"] - start))
        prev = ob["nmarks"]
    if after == 0:
        run.cleanup()
    return {"marks": marks, "span": max([o for _, o in marks] + [0])}


def run(ctx):
    progs = programs(ctx)
    items = [(p, True) for p in progs]
    ctx.prove_deterministic(lambda it: explore((it[0], False))[0], [items[0], items[len(items) // 2]], k=2)
    results = ctx.pmap(explore, items, chunk=1)
    tot = collections.Counter()
    for it, (viol, st) in zip(items, results):
        tot.update(st)
        for sig, what, rep in viol:
            ctx.violation(sig, what, rep)
    if tot["judged"] < 500:
        raise HarnessError(f"vacuous: {dict(tot)}")
    ctx.coverage.update(
        states=tot["exec"] * HORIZON, transitions=tot["exec"] * HORIZON, traces_validated_against_impl=tot["exec"],
        evaluations=tot["exec"], distinct_nontrivial=tot["with_interval"], programs=len(items),
        threshold_or_wait_instances_judged=tot["judged"], second_runs_compared_with_a_fresh_run=tot["second_runs_compared"],
        rule="one execution per program and per (program, Pause|Hold, start tick, length 1|4); for programs without Watch / Base L also "
             "per (none|Pause|Hold before tick 1, Stop at tick 2..15, Start three ticks later): the second run's marks are compared, by "
             "offset from the start of the run, with a fresh run; non-trivial = executions with a pause/hold interval",
        samples=[items[0][0], items[len(items) // 2][0], items[-1][0]], exhaustive=True, horizon=HORIZON)


def replay(data):
    lines = data["lines"]
    sched = tuple((t, tuple(q)) for t, q in data["schedule"])
    run = drive(lines, sched)
    print("program:", lines, "schedule:", sched)
    for ob in run.obs[:40]:
        pc = ob["pre_clocks"]
        print(f"  tick {ob['n']} {ob['pre_state']}->{ob['state']} before: Scope {pc['Scope Time']:.3f} Block {pc['Block Time']:.3f} "
              f"AccVol {pc.get('Accumulated Volume')} block={pc['Block']!r} base={pc['Base']} marks={run.marks()[:ob['nmarks']]}")
    for nid, d in sorted(fc.record_table(run).items()):
        print("  ", nid, d["cls"], "first visit", d["first_visit"], "started", d["started"])
    probs, _ = judge(lines, run)
    return probs
