"""C09 — Unpause restores exactly the outputs from before that pause.

Exhaustive enumeration of control-command / inject / tick sequences (mc.seqexplore) on the real Engine, started from
several seed histories so that two runs are reachable within the depth bound.  A shadow copy of the output tags is taken
by the checker at the tick in which a paused period begins; when an Unpause executes, the output tags and the hardware
memory must equal that copy.
"""
from __future__ import annotations

from mc import seqexplore
from mc.core import HarnessError
from mc.engine_harness import Run

ID = "C09"
LEVEL = "model_checking"
META = dict(
    technique="exhaustive enumeration of Start/Pause/Unpause/Stop/Restart/inject/tick sequences from seed histories on the "
              "real Engine with a shadow-copy oracle at the tag and hardware boundary",
    text="From every seed history (fresh engine; a first run that was stopped or restarted while paused, with safe or driven "
         "outputs) every sequence of the given depth over {Start, Pause, Unpause, Stop, Restart, inject Set1: <fresh value>, "
         "inject Valve: <toggled>, inject <failing line>, tick, 3 ticks} is executed on methods with a plain wait, a timed Pause, a method Pause "
         "after an output command and a failing line (error pause).  Whenever the paused flag goes True -> False while the "
         "run continues, every output tag and the hardware memory after that tick's write must equal the values at the end "
         "of the tick before the paused period began; while the run is not paused no output may change to the value of an "
         "already undone pause without a command writing it (an Unpause that undoes nothing restores nothing).",
    note="Requests rejected by the engine's own validation are no-ops and prune the subtree (the sequence without them is "
         "enumerated).  A register commanded by a UOD command in the very tick the pause begins or ends is skipped "
         "(the statement does not order events inside one tick).  Two Pause requests executed in one tick: both readings "
         "of 'most recent Pause' are accepted (pre-pause value or the safe value left by the first Pause).",
)

OUTS = ("Out1", "Out2", "Free", "Out3", "Out4")
WRITERS = {"SetOut": ("Out1",), "Set1": ("Out1", "Out4"), "Valve": ("Out2",), "On1": ("Out1", "Out4"), "OpenV": ("Out2",)}

# abstract events; ("set1",) and ("valve",) are made concrete per position (fresh value / toggled value); ("bogus",) injects
# a line that fails when interpreted (error pause about three ticks later)
ALPHABET = [("user", "Start"), ("user", "Pause"), ("user", "Unpause"), ("user", "Stop"), ("user", "Restart"),
            ("set1",), ("valve",), ("bogus",), ("tick", 1), ("tick", 3)]
# second alphabet: the user commands outputs directly (UOD commands without arguments), also while paused
ALPHABET_B = [("user", "Pause"), ("user", "Unpause"), ("user", "On1"), ("user", "OpenV"), ("user", "Fail"), ("set1",), ("tick", 1), ("tick", 3)]
ALPHABETS = [ALPHABET, ALPHABET_B]
METHODS = [
    "Wait: 100s",
    "Set1: 5\nPause: 0.2s\nWait: 100s",
    "Mark: a\nBogus",
    "Set1: 5\nPause\nWait: 100s",
    "Set1: 5\nPause: 0.6s\nWait: 100s",          # a timed Pause long enough to be un-paused by the user before it expires
    "Set1: 7\nWait: 0.2s\nUnpause\nWait: 100s",          # an Unpause instruction of the method: executes although the run is not paused
]
# seed histories (abstract events): what happened before the enumerated suffix
SEEDS = [
    [],
    # run 1 drove both outputs, was paused and unpaused, then drove both outputs to other values
    [("user", "Start"), ("set1",), ("valve",), ("tick", 3), ("tick", 2), ("user", "Pause"), ("tick", 1), ("user", "Unpause"),
     ("tick", 1), ("set1",), ("valve",), ("tick", 3)],
    # run 1 drove both outputs, was paused and then restarted while paused (run 2 is starting)
    [("user", "Start"), ("set1",), ("valve",), ("tick", 3), ("tick", 2), ("user", "Pause"), ("tick", 1), ("user", "Restart"),
     ("tick", 3)],
    # run 1 drove both outputs, was paused and stopped while paused
    [("user", "Start"), ("set1",), ("valve",), ("tick", 3), ("tick", 2), ("user", "Pause"), ("tick", 1), ("user", "Stop"),
     ("tick", 3)],
    # run 1 running with driven outputs
    [("user", "Start"), ("set1",), ("valve",), ("tick", 3), ("tick", 2)],
    # method 4 only: the method's timed Pause has just begun (it expires six ticks later)
    [("user", "Start"), ("tick", 3), ("tick", 3), ("tick", 1)],
    # alphabet B only: a run is active and every output is at its safe value
    [("user", "Start"), ("tick", 3)],
    # alphabet B only: ... and the run has just been paused by the user
    [("user", "Start"), ("tick", 3), ("user", "Pause"), ("tick", 1)],
    # alphabet B only: a run with driven outputs has just been paused by the user
    [("user", "Start"), ("set1",), ("valve",), ("tick", 3), ("tick", 2), ("user", "Pause"), ("tick", 1)],
    # a run with driven outputs is on hold and has then been paused / has been paused and then put on hold
    [("user", "Start"), ("set1",), ("valve",), ("tick", 3), ("tick", 2), ("user", "Hold"), ("tick", 1), ("user", "Pause"), ("tick", 1)],
    [("user", "Start"), ("set1",), ("valve",), ("tick", 3), ("tick", 2), ("user", "Pause"), ("tick", 1), ("user", "Hold"), ("tick", 1)],
]


def concretize(events):
    """Abstract events -> concrete seqexplore events. Set1 gets a value unique to its position, Valve alternates."""
    out = []
    nv = 0
    for k, ev in enumerate(events):
        ev = tuple(ev)
        if ev[0] == "set1":
            out.append(("inject", f"Set1: {10 + k}"))
        elif ev[0] == "bogus":
            out.append(("inject", "Bogus"))            # a failing line: the engine pauses the run with an error
        elif ev[0] == "valve":
            out.append(("inject", "Valve: Open" if nv % 2 == 0 else "Valve: Closed"))
            nv += 1
        else:
            out.append(ev)
    return out


class _Rejected(Exception):
    def __init__(self, k):
        self.k = k


class Monitor:
    """Reference model: shadow copy of the outputs at the start of each paused period."""

    def __init__(self, n_warm=0, prune=True):
        self.run = None
        self.n_warm = n_warm
        self.prune = prune
        self.k = -1
        self.prev_out = None
        self.shadow = None
        self.pause = None
        self.history = []          # (run_no, [shadow, other readings...], how it ended)
        self.seen_run = {}         # register -> values it held at a tick end of the current run
        self.run_no = 0
        self.rid = None
        self.prev_rid = None
        self.pending = []
        self.safe = {}
        self.checked = 0
        self.checked_nontrivial = 0
        self.skipped_ambiguous = 0
        self.double = 0
        self.pause_events = {}     # tick -> number of PAUSE events emitted by the engine
        self.alt = []              # other readings of "most recent Pause" (a Pause executed while already paused)
        self.kinds = set()
        self.states = set()

    def __call__(self, run: Run, ev, nobs, nreq):
        self.k += 1
        if self.run is None:
            self.run = run
            self.prev_out = {k: run.tag(k) for k in OUTS}
            for r in run.hw.registers.values():
                if "safe_value" in r.options:
                    self.safe[r.name] = r.options["safe_value"]
            self._listen(run)
        probs = []
        for rec in run.requests[nreq:]:
            if rec["kind"] == "user" and not rec["accepted"]:
                if self.prune and self.k >= self.n_warm:
                    raise _Rejected(self.k - self.n_warm)
            else:
                self.pending.append(rec)
        for ob in run.obs[nobs:]:
            probs += self.tick(run, ob)
        return probs

    def _listen(self, run: Run):
        """Count the PAUSE run-state events the engine emits to its listeners, per tick (observation only)."""
        mon = self
        emitter = run.engine.emitter
        orig = emitter.emit_on_runstate_change

        def emit_on_runstate_change(change):
            if str(change.value) == "Pause":
                mon.pause_events[run.tickno] = mon.pause_events.get(run.tickno, 0) + 1
            return orig(change)
        emitter.emit_on_runstate_change = emit_on_runstate_change

    def tick(self, run: Run, ob):
        probs = []
        pre, post = ob["pre_flags"], ob["flags"]
        out, mem = ob["out"], ob["mem"]
        rid = ob["tags"]["Run Id"]
        if post["started"] and rid != self.rid:
            self.run_no += 1
            self.seen_run = {r: {self.prev_out[r]} for r in OUTS}
        self.rid = rid if post["started"] else None
        writers = {r for c in ob["cmd"] if c[2] == "exec" and c[1] in WRITERS for r in WRITERS[c[1]]}
        was_paused = self.shadow is not None

        if was_paused:
            same_run = post["started"] and self.pause["run_no"] == self.run_no
            if not post["paused"] and same_run:
                # an Unpause executed in this tick and the run goes on
                user_unpause = any(r["kind"] == "user" and r["name"] == "Unpause" for r in self.pending)
                kind = self.pause["kind"] + ("" if user_unpause else ">auto")
                self.kinds.add(kind)
                self.checked += 1
                if any(self.shadow[r] != self.safe[r] for r in self.safe):
                    self.checked_nontrivial += 1
                for r in OUTS:
                    if r in self.pause["ambiguous"] or r in writers:
                        self.skipped_ambiguous += 1
                        continue
                    accept = [self.shadow[r]] + [a[r] for a in self.alt]
                    if out[r] not in accept:
                        probs.append((self.classify(r, out[r], kind),
                                      f"tick {ob['n']}: Unpause executed ({kind} pause begun at tick {self.pause['tick']} of run "
                                      f"{self.pause['run_no']}) but tag {r} = {out[r]!r}; immediately before that pause it was "
                                      f"{self.shadow[r]!r}"))
                    elif mem[r] != out[r]:
                        probs.append((f"C09:hardware-not-restored:{r}",
                                      f"tick {ob['n']}: after Unpause tag {r} = {out[r]!r} but the hardware holds {mem[r]!r}"))
                self.history.append((self.pause["run_no"], [self.shadow] + self.alt, "unpaused"))
                self.shadow = None
            elif same_run and post["paused"]:
                if any(r["kind"] == "user" and r["name"] == "Unpause" for r in self.pending):
                    # an Unpause was requested for this tick and the run is paused at its end all the same: the pause may have
                    # ended and a new one (error pause, another Pause) begun inside the tick; a register a command wrote in this
                    # tick may belong to either side of that boundary (the statement does not order events inside one tick)
                    self.pause["ambiguous"] |= set(writers)
                if self.pause_events.get(ob["n"], 0) >= 1:
                    # another Pause executed during the paused period: "the most recent Pause" may mean this one; a register a
                    # command wrote in this very tick may have been written before or after that Pause executed
                    self.pause["ambiguous"] |= set(writers)
                    self.alt.append(dict(self.prev_out))
                    if not self.pause["double"]:
                        self.pause["double"] = True
                        self.double += 1
            else:
                self.history.append((self.pause["run_no"], [self.shadow] + self.alt, "run-ended"))
                self.shadow = None
        if not was_paused and not post["paused"] and pre["started"] and post["started"] and not pre["paused"] and rid == self.prev_rid:
            # frame condition: an Unpause that undoes nothing (not paused) must not touch the outputs
            for r in OUTS:
                if r in writers or out[r] == self.prev_out[r]:
                    continue
                stale = any(sh[r] == out[r] for (_, readings, _) in self.history for sh in readings)
                if stale:
                    probs.append((f"C09:stale-prev-state:applied-while-not-paused:{r}",
                                  f"tick {ob['n']}: the run is not paused and no command wrote {r}, but the tag changed from "
                                  f"{self.prev_out[r]!r} to {out[r]!r}, the value from before an already undone pause"))
        if self.shadow is None and post["paused"] and post["started"]:
            n_pause = sum(1 for r in self.pending if r["kind"] == "user" and r["name"] == "Pause")
            if any(t == ob["n"] for (t, _, _) in run.error_events):
                kind = "error"
            elif n_pause:
                kind = "user"
            else:
                kind = "method"
            self.shadow = dict(self.prev_out)
            self.alt = []
            n_exec = self.pause_events.get(ob["n"], 0)
            self.pause = {"tick": ob["n"], "run_no": self.run_no, "kind": kind, "ambiguous": set(writers),
                          "double": n_exec >= 2}
            if n_exec >= 2:
                # two Pause commands executed in this tick: the second one saw what the first one left, i.e. the safe values
                self.alt.append({r: self.safe.get(r, self.prev_out[r]) for r in OUTS})
                self.double += 1
        self.prev_out = dict(out)
        self.prev_rid = rid
        for r in OUTS:
            self.seen_run.setdefault(r, set()).add(out[r])
        self.pending = []
        self.states.add((ob["state"], post["started"], post["paused"], post["holding"], post["stopping"],
                         self.shadow is not None, tuple(out[r] != self.safe[r] for r in sorted(self.safe)),
                         self.run_no >= 2, bool(self.history)))
        return probs

    def classify(self, r, actual, kind):
        # facts, most specific first: the value of a paused period that was never undone (its run ended while paused);
        # the safe value; the value of an earlier, already undone pause; a value this run never produced
        for never_undone in (True, False):
            if not never_undone and r in self.safe and actual == self.safe[r]:
                return f"C09:left-at-safe-value:{r}:{kind}"
            for (run_no, readings, how) in reversed(self.history):
                if any(sh[r] == actual for sh in readings) and (how == "run-ended") == never_undone:
                    if run_no < self.run_no:
                        return f"C09:stale-prev-state:cross-run:{kind}"
                    return f"C09:stale-prev-state:earlier-pause-of-same-run:{kind}"
        if actual not in self.seen_run.get(r, ()) and any(run_no < self.run_no for (run_no, _, _) in self.history):
            # a value this run never produced, and an earlier run had a paused period
            return f"C09:stale-prev-state:cross-run:{kind}"
        return f"C09:not-restored:{r}:{kind}"


def run_events(method, warm, suffix, prune=True):
    """Execute one sequence.  Returns (problems, monitor, rejected_index or None)."""
    events = concretize(list(warm) + list(suffix))
    mon = Monitor(n_warm=len(warm), prune=prune)
    rejected = None
    try:
        probs, run = seqexplore.run_sequence(method, events, list(range(len(events))), mon, observe=("tags",))
    except _Rejected as rj:
        rejected = rj.k
        probs = None
        run = mon.run
    if run is not None:
        run.cleanup()
    return probs, mon, rejected


def explore(item):
    """All sequences of exactly `depth` events that begin with `prefix`, in odometer order; a rejected request at position i
    skips every sequence sharing the prefix up to i."""
    mi, wi, prefix, depth = item[:4]
    ALPHABET = ALPHABETS[item[4]] if len(item) > 4 else ALPHABETS[0]          # noqa: N806 (shadows the module constant on purpose)
    method, warm = METHODS[mi], SEEDS[wi]
    n = len(ALPHABET)
    free = depth - len(prefix)
    idx = [0] * free
    out = []
    seen = set()
    execs = pruned = transitions = checked = nontrivial = nontrivial_execs = ambiguous = double = two_runs = 0
    kinds = set()
    states = set()
    sample = None
    while True:
        seq = list(prefix) + idx
        suffix = [ALPHABET[i] for i in seq]
        probs, mon, rej = run_events(method, warm, suffix)
        execs += 1
        states |= mon.states
        if rej is not None:
            pruned += 1
            pos = rej
        else:
            pos = depth - 1
            transitions += depth
            checked += mon.checked
            nontrivial += mon.checked_nontrivial
            ambiguous += mon.skipped_ambiguous
            double += mon.double
            kinds |= mon.kinds
            if mon.checked_nontrivial:
                nontrivial_execs += 1
                if sample is None and mon.run_no >= 2:
                    sample = {"method": method, "events": [list(e) for e in list(warm) + suffix]}
            if mon.run_no >= 2:
                two_runs += 1
            for sig, what, k in probs:
                if sig not in seen:
                    seen.add(sig)
                    out.append((sig, what, {"method": method, "events": [list(e) for e in (list(warm) + suffix)[:k + 1]]}))
        if pos < len(prefix):
            break          # the fixed prefix itself contains a rejected request
        # advance the odometer at position pos
        j = pos - len(prefix)
        for t in range(j + 1, free):
            idx[t] = 0
        while j >= 0:
            idx[j] += 1
            if idx[j] < n:
                break
            idx[j] = 0
            j -= 1
        if j < 0:
            break
    return dict(viol=out, execs=execs, pruned=pruned, transitions=transitions, checked=checked, nontrivial=nontrivial,
                nontrivial_execs=nontrivial_execs, ambiguous=ambiguous, double=double, two_runs=two_runs,
                kinds=sorted(kinds), states=sorted(map(repr, states)), sample=sample)


DEEPER = [(0, 0), (3, 0)]          # (method, seed) explored one level deeper in the thorough tier
# quick tier: every seed on the plain method, the other methods on the fresh engine and on the seeds they add something to
QUICK_COMBOS = [(0, 0), (0, 1), (0, 2), (0, 3), (0, 4), (1, 0), (1, 4), (2, 0), (2, 2), (2, 3), (3, 0), (3, 4), (4, 5), (5, 0), (5, 2), (5, 3), (0, 9), (0, 10)]
ONLY_WITH = {5: (4,), 6: (), 7: (), 8: (), 9: (0,), 10: (0,)}            # seed -> methods it makes sense for



def run(ctx):
    depth = 4 if ctx.quick else 5
    n = len(ALPHABET)
    items = []
    depths = {}
    for mi in range(len(METHODS)):
        for wi in range(len(SEEDS)):
            if ctx.quick and (mi, wi) not in QUICK_COMBOS:
                continue
            if wi in ONLY_WITH and mi not in ONLY_WITH[wi]:
                continue
            d = depth + 1 if (not ctx.quick and (mi, wi) in DEEPER) else depth
            depths[f"{mi},{wi}"] = d
            for a in range(n):
                for b in range(n):
                    items.append((mi, wi, (a, b), d))
    # user-commanded outputs (alphabet B) on the plain method: from a fresh engine, from a running run with driven outputs and
    # from a running run whose outputs are at their safe values
    nb = len(ALPHABET_B)
    db = depth + 1
    for wi in (0, 4, 6, 7, 8):
        depths[f"0,{wi},B"] = db
        for a in range(nb):
            for b in range(nb):
                items.append((0, wi, (a, b), db, 1))
    ctx.prove_deterministic(lambda it: explore((it[0], it[1], it[2], 4)), [items[0], items[n * n * 6 + 10], items[n * n * 9 + 75]], k=3)
    results = ctx.pmap(explore, items, chunk=4)
    tot = dict(execs=0, pruned=0, transitions=0, checked=0, nontrivial=0, nontrivial_execs=0, ambiguous=0, double=0, two_runs=0)
    kinds = set()
    states = set()
    samples = []
    per_method_checked = [0] * len(METHODS)
    for it, res in zip(items, results):
        for k in tot:
            tot[k] += res[k]
        kinds.update(res["kinds"])
        states.update(res["states"])
        per_method_checked[it[0]] += res["checked"]
        if res["sample"] and len(samples) < 3 and it[1] in (1, 2, 3):
            samples.append(res["sample"])
        for sig, what, rep in res["viol"]:
            ctx.violation(sig, what, rep)
    if tot["checked"] < 100 or tot["nontrivial_execs"] < 10 or tot["two_runs"] < 10:
        raise HarnessError("vacuous: hardly any Unpause was checked / no second run reached")
    need = {"user", "method", "method>auto", "error"}
    if not need <= kinds:
        raise HarnessError(f"vacuous: pause kinds never unpaused: {sorted(need - kinds)}")
    if min(per_method_checked) == 0:
        raise HarnessError("vacuous: a method never reached a checked Unpause")
    if not samples:
        samples = [r["sample"] for r in results if r["sample"]][:3]
    ctx.coverage.update(
        states=len(states), transitions=tot["transitions"], traces_validated_against_impl=tot["execs"],
        evaluations=tot["checked"], distinct_nontrivial=tot["nontrivial_execs"],
        rule="every sequence of `depth` events after every seed history on every method (rejected requests prune); evaluations "
             "= Unpause executions compared with the shadow copy; non-trivial = executions in which an Unpause executed while "
             "the pre-pause outputs differed from the safe values; states = distinct (system state, run flags, paused period "
             "open, outputs driven, second run, earlier pause in history) observed after a tick",
        samples=samples, exhaustive=True, depth=depth, depth_per_method_and_seed=depths, methods=METHODS, seeds=[[list(e) for e in s] for s in SEEDS],
        alphabet=[list(a) for a in ALPHABET], alphabet_B=[list(a) for a in ALPHABET_B], pruned_after_rejected_request=tot["pruned"],
        executions_reaching_second_run=tot["two_runs"], unpause_kinds=sorted(kinds),
        unpause_checks_on_driven_outputs=tot["nontrivial"], register_checks_skipped_same_tick_command=tot["ambiguous"],
        double_pause_periods=tot["double"], unpause_checks_per_method=per_method_checked)
    ctx.assumptions += ["a request rejected by Engine._validate_control_command changes nothing (subtree pruned)",
                        "events inside one tick are not ordered by the statement: a register written by a UOD command in the "
                        "tick a pause begins or ends is not compared"]


def replay(data):
    events = [tuple(e) for e in data["events"]]
    probs, mon, _ = run_events(data["method"], [], events, prune=False)
    # run again only to print (monitor keeps no run after cleanup)
    conc = concretize(events)
    print("method:", repr(data["method"]))
    run = Run(data["method"], start=False, observe=("tags",))
    from mc.engine_harness import apply_request
    for ev, cev in zip(events, conc):
        if cev[0] == "tick":
            for _ in range(cev[1]):
                ob = run.tick()
                print(f"  tick {ob['n']:2d} {ob['pre_state']:>10s}->{ob['state']:<10s} "
                      f"flags={''.join(k[0].upper() if v else '-' for k, v in ob['flags'].items())} "
                      f"out={ob['out']} hw={ob['mem']} cmds={[c[1] + ':' + c[2] for c in ob['cmd']]}")
        else:
            rec = apply_request(run, cev)
            print(f"  request {cev} -> {'accepted' if rec.get('accepted', True) else 'rejected ' + str(rec.get('error'))}")
    run.cleanup()
    seen = set()
    out = []
    for sig, what, k in probs or []:
        if sig not in seen:
            seen.add(sig)
            out.append((sig, what))
    return out
