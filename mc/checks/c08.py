"""C08 — Outputs with a safe value are safe whenever no run is progressing.

Bounded-exhaustive enumeration of programs x control schedules (<= k requests at any tick, deviation-bounded depth-first
enumeration; a request rejected by the engine is a no-op and ends its branch) on the real Engine with the recording hardware
layer.  The hardware memory is inspected after engine start and after every tick, and every hardware write is inspected
together with the run flags at the moment of the write.
"""
from __future__ import annotations

from mc.core import HarnessError
from mc.engine_harness import Run, apply_request, UNKNOWN

ID = "C08"
LEVEL = "model_checking"
META = dict(
    technique="bounded-exhaustive enumeration of programs x control schedules (<= k requests at any tick) on the real Engine "
              "with a per-tick monitor at the hardware write boundary",
    text="Every program up to the size bound over {SetOut (writes Out1 on 4 iterations), Valve: Open, Mark, Wait, Pause, "
         "Pause: d, Hold: d, Stop, failing line} is run with every schedule of at most k requests from {Start, Stop, Pause, "
         "Unpause, Hold, Unhold, Restart, inject SetOut: 7, inject Valve: Open} placed at any tick; the engine is observed "
         "from engine.run() on (two ticks before the first Start).  After engine start and after every tick the recording "
         "hardware must hold the safe value of every register that has one (a) until the first Start executes, (b) in every "
         "tick that ends with no run active after a Stop, (c) in every tick that begins and ends Paused unless the user "
         "commanded that output during that pause; and no write made while no run is started may carry another value.",
    note="The tick in which a pause begins or ends is not asserted.  The Stopped phase inside Restart is not asserted to be "
         "safe (the statement speaks of Stop), but writes made in it are checked.  A register addressed by a user request "
         "during a pause is exempt for the rest of that pause, whether or not the engine executes the request.",
)

STMTS = ["SetOut: 5", "Valve: Open", "Mark: m", "Wait: 0.3s", "Pause", "Pause: 0.3s", "Hold: 0.3s", "Stop"]
EXTRA = ["Bogus"]                      # failing line -> error pause; only in programs of <= 2 statements
CORE = ["SetOut: 5", "Valve: Open", "Pause"]
REQUESTS = [("user", "Start"), ("user", "Stop"), ("user", "Pause"), ("user", "Unpause"), ("user", "Hold"), ("user", "Unhold"),
            ("user", "Restart"), ("inject", "SetOut: 7"), ("inject", "Valve: Open")]
REDUCED = [("user", "Start"), ("user", "Stop"), ("user", "Pause"), ("user", "Unpause"), ("inject", "SetOut: 7")]
# errors that arrive while the run is on hold / paused / running: a user-issued UOD command that raises
ERRSET = [("user", "Hold"), ("user", "Unhold"), ("user", "Pause"), ("user", "Unpause"), ("user", "Fail")]
REQSETS = {"full": REQUESTS, "reduced": REDUCED, "error": ERRSET}
PRE = 2                                 # ticks before the first Start
HORIZON = {"quick": 16, "thorough": 18}           # ticks per execution
# request ticks per request set: (first, last)
TICKS = {("quick", "full"): (0, 13), ("thorough", "full"): (0, 15), ("thorough", "reduced"): (2, 13), ("quick", "reduced"): (2, 11),
         ("quick", "error"): (3, 11), ("thorough", "error"): (3, 13)}
WRITERS = {"SetOut": "Out1", "Set1": "Out1", "Valve": "Out2"}


def safe_values(run: Run) -> dict:
    return {r.name: r.options["safe_value"] for r in run.hw.registers.values() if "safe_value" in r.options}


def run_one(lines, schedule, horizon, trace=None):
    """One execution: engine start, PRE ticks, Start, ... with `schedule` = [(tick, request)] applied before that tick.
    Returns (problems, info)."""
    run = Run("\n".join(lines), start=False, observe=("tags",))
    safe = safe_values(run)
    probs = []
    seen = set()

    def report(sig, what):
        if sig not in seen:
            seen.add(sig)
            probs.append((sig, what))

    def check_not_started(mem, where):
        if all(mem[r] == UNKNOWN for r in safe):
            report("C08:engine-start:hardware-never-written",
                   f"{where}: no run has started yet and the hardware still holds {mem} - the safe values were never written")
            return
        for r in sorted(safe):
            if mem[r] != safe[r]:
                report(f"C08:engine-start:not-safe:{r}", f"{where}: before the first Start the hardware holds {r} = {mem[r]!r}, "
                                                         f"safe value {safe[r]!r}")

    check_not_started(run.hw.mem, "after engine.run()")
    by_tick: dict = {}
    for idx, (t, req) in enumerate(schedule):
        by_tick.setdefault(t, []).append((tuple(req), idx))
    by_tick.setdefault(PRE, []).insert(0, (("user", "Start"), -1))
    ever_started = False
    restart_phase = False
    restart_requested_at = None
    prev_state = None
    driven = False              # some safe-valued output has been away from its safe value on the hardware
    nontrivial = False
    exempt: set = set()
    pause_begin = None
    pause_kind = None
    last_rejected = False
    n_pause_ticks = n_stop_ticks = n_prestart = n_exempt_used = 0
    states = set()
    wl0 = 0
    for t in range(horizon):
        reqs = [q for q, _ in by_tick.get(t, ())]
        for req, idx in by_tick.get(t, ()):
            rec = apply_request(run, req)
            if idx == len(schedule) - 1:
                last_rejected = not rec.get("accepted", True)
            if req == ("user", "Restart") and rec.get("accepted", True):
                restart_requested_at = t
            if trace is not None:
                trace.append(f"  request {req} -> {'accepted' if rec.get('accepted', True) else 'rejected'}")
            if run.flags()["paused"] and rec.get("accepted", True):
                # the user commands an output during the pause (exception clause)
                name = req[1].split(":")[0].strip()
                if name in WRITERS:
                    exempt.add(WRITERS[name])
                    if name == "Set1":
                        exempt.add("Out4")          # Set1 drives Out4 as well (harness UOD)
        ob = run.tick()
        pre, post = ob["pre_flags"], ob["flags"]
        mem = ob["mem"]
        if "tick_exception" in ob:
            report("C08:tick-raised", f"Engine.tick raised {ob['tick_exception']}")
        # (d) every write made while no run is started carries the safe value
        for (tk, reg, val, fl) in run.hw.wlog[wl0:]:
            if not fl["started"] and reg in safe and val != safe[reg]:
                report(f"C08:unsafe-write-while-no-run:{reg}", f"tick {tk}: {reg} = {val!r} written to the hardware while no run "
                                                               f"is started (safe value {safe[reg]!r})")
        wl0 = len(run.hw.wlog)
        # Restart: request before tick t -> tick t cancels, tick t+1 ends with no run started, tick t+2 starts the new run
        # (two Restart requests in one tick advance the same command twice: the stopped phase is then tick t itself)
        restart_phase = (not post["started"]) and (prev_state == "Restarting" or restart_requested_at in (t - 1, t))
        prev_state = ob["state"]
        if post["started"]:
            ever_started = True
        phase = "run"
        if not ever_started:
            # (a) from engine start until the first Start executes
            phase = "before-first-start"
            n_prestart += 1
            check_not_started(mem, f"tick {t}")
        elif not post["started"]:
            if restart_phase:
                phase = "restart-stopped"
            else:
                # (b) after a Stop
                phase = "stopped"
                n_stop_ticks += 1
                nontrivial = nontrivial or driven
                for r in sorted(safe):
                    if mem[r] != safe[r]:
                        report(f"C08:after-stop-not-safe:{r}", f"tick {t}: the run was stopped but the hardware holds {r} = {mem[r]!r}, "
                                                               f"safe value {safe[r]!r}")
        # pause bookkeeping
        if post["paused"] and post["started"]:
            if pause_begin is None or not (pre["paused"] and pre["started"]):
                # a paused period begins in this tick
                pause_begin = t
                exempt = set()
                if any(tk == t for (tk, _, _) in run.error_events):
                    pause_kind = "error-pause"
                elif any(tuple(q) == ("user", "Pause") for q in reqs):
                    pause_kind = "user-pause"
                else:
                    pause_kind = "method-pause"
        else:
            pause_begin = None
            exempt = set()
        if pre["paused"] and post["paused"] and pre["started"] and post["started"] and pause_begin is not None:
            # (c) a tick that begins and ends paused
            phase = "paused"
            n_pause_ticks += 1
            nontrivial = nontrivial or driven
            for r in sorted(safe):
                if mem[r] == safe[r]:
                    continue
                if r in exempt:
                    n_exempt_used += 1
                    continue
                writers = sorted({c[1] for c in run.cmd_events if c[2] == "exec" and c[0] >= pause_begin
                                  and WRITERS.get(c[1]) == r})
                # ... of which started (init) in the very tick in which the pause began
                fresh = sorted({c[1] for c in run.cmd_events if c[2] == "init" and c[0] == pause_begin and c[1] in writers})
                if writers and pause_kind == "error-pause" and fresh:
                    report(f"C08:pause-not-safe:{r}:{pause_kind}:command-started-in-the-error-tick",
                           f"tick {t}: paused ({pause_kind}) since tick {pause_begin} but the hardware holds {r} = {mem[r]!r}, safe "
                           f"value {safe[r]!r}: UOD command {fresh[0]} was started in the tick of the error, after the safe state was applied")
                elif writers:
                    report(f"C08:pause-overwritten-by-running-uod-command:{writers[0]}",
                           f"tick {t}: paused since tick {pause_begin} but the hardware holds {r} = {mem[r]!r} (safe value "
                           f"{safe[r]!r}): UOD command {writers[0]} kept executing during the pause and wrote the output")
                else:
                    report(f"C08:pause-not-safe:{r}:{pause_kind}",
                           f"tick {t}: paused ({pause_kind}) since tick {pause_begin} but the hardware holds {r} = {mem[r]!r}, safe "
                           f"value {safe[r]!r}")
        if any(mem[r] != safe[r] and mem[r] != UNKNOWN for r in safe):
            driven = True
        states.add((ob["state"], post["started"], post["paused"], post["holding"], post["stopping"], phase,
                    tuple(mem[r] == safe[r] for r in sorted(safe)), tuple(ob["out"][r] == safe[r] for r in sorted(safe))))
        if trace is not None:
            trace.append(f"  tick {t:2d} {ob['pre_state']:>10s}->{ob['state']:<10s} "
                         f"flags={''.join(k[0].upper() if v else '-' for k, v in post.items())} phase={phase:<18s} "
                         f"out={ob['out']} hw={mem} writes={ob['hw']} cmds={[c[1] + ':' + c[2] for c in ob['cmd']]}")
    run.cleanup()
    info = dict(last_rejected=last_rejected, nontrivial=nontrivial, pause_ticks=n_pause_ticks, stop_ticks=n_stop_ticks,
                prestart_ticks=n_prestart, exempt_used=n_exempt_used, states=states)
    return probs, info


def explore_program(item):
    """Depth-first enumeration of the schedules with <= k requests for one program.
    item = (lines, k, request set, first): first is None -> the empty schedule and all single requests;
    first = i -> all schedules of 2..k requests whose first request is candidate i."""
    lines, k, reqset, first, tier = item
    horizon = HORIZON[tier]
    cands = candidates(tier, reqset)
    nreq = len(REQSETS[reqset])
    out = []
    seen = set()
    tot = dict(execs=0, pruned=0, nontrivial=0, pause_ticks=0, stop_ticks=0, prestart_ticks=0, exempt_used=0, ticks=0)
    by_k = [0] * 4
    states = set()

    def rec(schedule, left, start_idx, count=True):
        probs, info = run_one(lines, schedule, horizon)
        if count:
            tot["execs"] += 1
            tot["ticks"] += horizon
            by_k[len(schedule)] += 1
            states.update(info["states"])
            for key in ("pause_ticks", "stop_ticks", "prestart_ticks", "exempt_used"):
                tot[key] += info[key]
            if info["nontrivial"]:
                tot["nontrivial"] += 1
            for sig, what in probs:
                if sig not in seen:
                    seen.add(sig)
                    out.append((sig, what, {"lines": lines, "horizon": horizon, "schedule": [[t, list(r)] for t, r in schedule]}))
        if schedule and info["last_rejected"]:
            if count:
                tot["pruned"] += 1
            return
        if left == 0:
            return
        for i in range(start_idx, len(cands)):
            # the next request is placed at the same or a later tick; inside one tick both orders are enumerated
            rec(schedule + [cands[i]], left - 1, i - (i % nreq))

    if first is None:
        rec([], min(k, 1), 0)
    else:
        rec([cands[first]], k - 1, first - (first % nreq), count=False)
    tot["by_k"] = by_k
    tot["states"] = sorted(map(repr, states))
    return out, tot


def candidates(tier, reqset):
    lo, hi = TICKS[(tier, reqset)]
    return [(t, r) for t in range(lo, hi + 1) for r in REQSETS[reqset]]


def programs(stmts, max_n):
    out = []
    for n in range(1, max_n + 1):
        def gen(prefix):
            if len(prefix) == n:
                out.append(list(prefix))
                return
            for s in stmts:
                gen(prefix + [s])
        gen([])
    return out


def corpus(ctx):
    """(lines, k, request set) simplest first."""
    items = []
    if ctx.quick:
        for p in programs(STMTS + EXTRA, 2):
            core = len(p) == 1 or ("SetOut: 5" in p and all(s in CORE for s in p))
            items.append((p, 2 if core else 1, "full"))
    else:
        for p in programs(STMTS + EXTRA, 2):
            items.append((p, 2, "full"))
        for p in programs(STMTS, 3):
            if len(p) == 3:
                items.append((p, 1, "full"))
        for p in programs(["SetOut: 5", "Valve: Open", "Pause"], 2):
            items.append((p, 3, "reduced"))
    for p in (["SetOut: 5"], ["Valve: Open"], ["SetOut: 5", "Valve: Open"], ["Valve: Open", "Wait: 0.3s", "SetOut: 5"]):
        items.append((p, 2 if ctx.quick else 3, "error"))
    return items


def run(ctx):
    progs = corpus(ctx)
    # work items: per program the schedules with <= 1 request, and one item per first request for the longer schedules
    items = []
    for (p, k, rs) in progs:
        items.append((p, k, rs, None, ctx.tier))
    for (p, k, rs) in progs:
        if k >= 2:
            for i in range(len(candidates(ctx.tier, rs))):
                items.append((p, k, rs, i, ctx.tier))
    ctx.prove_deterministic(lambda it: explore_program((it[0], 1, it[2], None, it[4]))[0], [items[0], items[4], items[len(progs) - 1]], k=3)
    results = ctx.pmap(explore_program, items, chunk=1 if ctx.quick else 2)
    tot = dict(execs=0, pruned=0, nontrivial=0, pause_ticks=0, stop_ticks=0, prestart_ticks=0, exempt_used=0, ticks=0)
    by_k = [0, 0, 0, 0]
    states = set()
    for it, (viol, t) in zip(items, results):
        for key in tot:
            tot[key] += t[key]
        for i, c in enumerate(t["by_k"]):
            by_k[i] += c
        states.update(t["states"])
        for sig, what, rep in viol:
            ctx.violation(sig, what, rep)
    if tot["pause_ticks"] < 1000 or tot["stop_ticks"] < 1000 or tot["nontrivial"] < 100:
        raise HarnessError("vacuous: hardly any paused / stopped tick was observed after an output had been driven")
    ctx.coverage.update(
        states=len(states), transitions=tot["ticks"], traces_validated_against_impl=tot["execs"], evaluations=tot["execs"],
        distinct_nontrivial=tot["nontrivial"], programs=len(progs), executions_by_number_of_requests=by_k,
        branches_ended_by_rejected_request=tot["pruned"], paused_ticks_checked=tot["pause_ticks"],
        stopped_ticks_checked=tot["stop_ticks"], ticks_before_first_start_checked=tot["prestart_ticks"],
        register_checks_exempted_by_user_command=tot["exempt_used"],
        rule="each program with every schedule of <= k requests (any request at any request tick, both orders inside one tick; a "
             "rejected request ends its branch); non-trivial = executions with a checked paused or stopped tick after a "
             "safe-valued output had been driven away from its safe value on the hardware; states = distinct (system state, "
             "run flags, phase, hardware-safe pattern, tag-safe pattern) after a tick",
        samples=[{"lines": progs[0][0], "k": progs[0][1]}, {"lines": progs[len(progs) // 2][0], "k": progs[len(progs) // 2][1]},
                 {"lines": progs[-1][0], "k": progs[-1][1], "requests": progs[-1][2]}],
        exhaustive=True, horizon=HORIZON[ctx.tier], request_ticks={k[1]: list(v) for k, v in TICKS.items() if k[0] == ctx.tier},
        ticks_before_start=PRE, statements=STMTS + EXTRA,
        requests=[list(r) for r in REQUESTS], reduced_requests=[list(r) for r in REDUCED], error_requests=[list(r) for r in ERRSET])
    ctx.assumptions += ["a request rejected by Engine._validate_control_command changes nothing (its branch is not extended)",
                        "Start is requested before tick 2 in every execution; the schedule adds further requests",
                        "user commands reach the engine as in production: control commands by name, UOD commands by inject"]


def replay(data):
    sched = [(t, tuple(r)) for t, r in data["schedule"]]
    trace = []
    probs, _ = run_one(data["lines"], sched, data.get("horizon", HORIZON["thorough"]), trace=trace)
    print("program:", data["lines"])
    print("schedule:", sched, f"(Start before tick {PRE})")
    for line in trace:
        print(line)
    return probs
