"""C12 — Cancel and Force requests take effect exactly as offered.

Stateless exhaustive exploration on the real Engine: for every program, every tick, every item of the run log as it is
at that tick and each of {cancel, force}, one execution with that request; compared with the request-free run.
"""
from __future__ import annotations

import collections

from mc import pgen
from mc.checks.c01 import norm
from mc.core import HarnessError
from mc.engine_harness import Run, apply_request

ID = "C12"
LEVEL = "model_checking"
META = dict(
    technique="stateless exhaustive exploration of (program, tick, run-log item, cancel|force) on the real Engine against effect predicates and the request-free run",
    text="For every program of the corpus, every tick and every run-log item id present at that tick, a cancel and a force request "
         "are issued in separate executions.  A request for an item that is not offered as cancellable/forcible must be rejected "
         "and the rest of the run must equal the request-free run tick for tick; an accepted cancel must prevent the effect "
         "(Watch/Alarm body never starts afterwards, timed Pause/Hold over within two ticks, UOD command finalized once, no "
         "further exec, instance disposed); an accepted force must let a Watch, Wait or thresholded instruction proceed "
         "within four running ticks.",
    note="Offered-but-rejected requests are counted, not flagged (the statement does not promise every offered item can be "
         "cancelled).  Programs <= 2 top-level statements with bodies of <= 2 lines; one request per execution (two in thorough "
         "for a reduced corpus); horizon 34 ticks; X true from tick 6.",
)

HORIZON = 30
X_FROM = 6
TOP = ["M", "T", "Wl", "Pl", "Hl", "L6", "H", "Wa", "Al", "K"]
BODY = ["M", "L6", "Wl", "EB"]


def drive(lines, schedule, observe=("runlog", "mstate", "tags")):
    run = Run(lines, observe=observe)
    by = collections.defaultdict(list)
    for t, req in schedule:
        by[t].append(req)
    recs = []
    for t in range(HORIZON):
        if t == X_FROM:
            run.set_input("X", 2.0)
        for req in by.get(t, ()):
            recs.append(apply_request(run, req))
        run.tick()
    return run, recs


def rest(run: Run, t):
    return norm([{k: ob.get(k) for k in ("n", "state", "flags", "cmd", "hw", "mstate", "instances", "registry", "runlog")}
                 for ob in run.obs[t:]] + [run.marks()])


def body_marks(info, opener_idx):
    out = []
    for li in info:
        p = li["parent"]
        while p is not None:
            if p == opener_idx:
                if li["name"] == "Mark":
                    out.append(li["arg"])
                break
            p = info[p]["parent"]
    return out


def item_line(info, item, run=None):
    """the program line an item belongs to: through the runtime record that carries the item's instance id; by run-log name
    only when the name is unique in the program (two 'Wait: 2s' lines are different lines)"""
    if run is not None:
        by_id = {li["id"]: li for li in info}
        for r in run.engine.tracking.runtimeinfo.records:
            if any(getattr(st, "instance_id", None) == item["id"] for st in r.states) and r.node_id in by_id:
                return by_id[r.node_id]
    same = [li for li in info if li["name"] + (": " + li["arg"] if li["arg"] else "") == item["name"]]
    return same[0] if len(same) == 1 else None


def explore_program(forest):
    lines = pgen.to_lines(forest)
    info = pgen.line_info(lines)
    base, _ = drive(lines, ())
    out = []
    stats = collections.Counter()
    if base.error_events:
        base.cleanup()
        return out, dict(stats)
    base_rest = {}
    for t in range(1, HORIZON - 12):
        items = base.obs[t - 1]["runlog"]
        if not isinstance(items, list):
            continue
        for k, item in enumerate(items):
            for kind in ("cancel", "force"):
                offered = item["cancellable"] if kind == "cancel" else item["forcible"]
                run, recs = drive(lines, ((t, (kind, k)),))
                rec = recs[0]
                stats["exec"] += 1
                cls = item["name"].split(":")[0]
                ctx_ = {"lines": [c for _, c in lines], "schedule": [[t, [kind, k]]]}
                if not offered:
                    stats["not_offered"] += 1
                    if rec["accepted"]:
                        out.append((f"C12:{kind}-accepted-not-offered:{cls}:{item['state']}",
                                    f"{kind} of item {k} ({item['name']}, {item['state']}, not offered) at tick {t} was accepted", ctx_))
                    else:
                        if t not in base_rest:
                            base_rest[t] = rest(base, t)
                        if rest(run, t) != base_rest[t]:
                            out.append((f"C12:rejected-{kind}-changed-run:{cls}",
                                        f"rejected {kind} of item {k} ({item['name']}) at tick {t} changed the rest of the run", ctx_))
                elif not rec["accepted"]:
                    stats["offered_rejected"] += 1
                else:
                    stats["offered_accepted"] += 1
                    li = item_line(info, item, run)
                    out += [(s, w, ctx_) for s, w in effect_problems(kind, rec.get("item") or item, li, info, run, base, t, cls)]
                    if kind == "cancel" and cls in ("Hold", "Pause") and item["name"] != cls \
                            and sum(1 for _, c in lines if c.strip().startswith(("Hold", "Pause"))) == 1:
                        # the same cancel while the run is ALSO paused by the user (timed Hold) / on hold (timed Pause): the
                        # cancelled command must still end at once, so that after Unpause / Unhold the method goes on
                        other, undo = ("Pause", "Unpause") if cls == "Hold" else ("Hold", "Unhold")
                        sched3 = ((t, ("user", other)), (t + 1, ("cancel", item["id"])), (t + 4, ("user", undo)))
                        run3, recs3 = drive(lines, sched3)
                        stats["exec"] += 1
                        stats["second_request"] += 1
                        ctx3 = {"lines": [c for _, c in lines], "schedule": [[a, list(b)] for a, b in sched3]}
                        if len(recs3) == 3 and all(r["accepted"] for r in recs3) and not run3.error_events and not base.error_events:
                            stats["second_request_accepted"] += 1
                            fl = run3.flags()
                            short = collections.Counter(base.marks()) - collections.Counter(run3.marks())     # (an Alarm may run more often)
                            if fl["holding"] or fl["paused"] or short:
                                out.append((f"C12:cancelled-timed-{cls}-did-not-end:while-user-{other}-in-effect",
                                            f"{item['name']} cancelled at tick {t + 1} while the user's {other} was in effect, {undo} at tick "
                                            f"{t + 4}: at the horizon flags {fl}, marks {run3.marks()} (undisturbed run: {base.marks()})", ctx3))
                        run3.cleanup()
                    if kind == "force" and len(lines) <= 3 and sum(1 for _, c in lines if c.strip().split(":")[0] == cls) == 1 \
                            and not any(c.strip().startswith("Alarm") for _, c in lines):       # (an Alarm runs its command line again)
                        # a second request for the same item: cancel it 1..3 ticks after the accepted force, if still offered
                        for dt in (1, 2, 3):
                            later = run.obs[t + dt - 1]["runlog"] if t + dt - 1 < len(run.obs) else None
                            if not isinstance(later, list):
                                continue
                            idx2 = [j for j, it2 in enumerate(later) if it2["id"] == item["id"] and it2["cancellable"]]
                            if not idx2:
                                continue
                            run2, recs2 = drive(lines, ((t, ("force", k)), (t + dt, ("cancel", idx2[0]))))
                            stats["exec"] += 1
                            stats["second_request"] += 1
                            ctx2 = {"lines": [c for _, c in lines], "schedule": [[t, ["force", k]], [t + dt, ["cancel", idx2[0]]]]}
                            if len(recs2) == 2 and recs2[1]["accepted"]:
                                stats["second_request_accepted"] += 1
                                out += [(s_ + ":after-force", w, ctx2) for s_, w in
                                        effect_problems("cancel", recs2[1].get("item") or later[idx2[0]], li, info, run2, run, t + dt, cls)]
                            for ob in run2.obs:
                                if "tick_exception" in ob:
                                    out.append(("C12:tick-raised", ob["tick_exception"], ctx2))
                            run2.cleanup()
                for ob in run.obs:
                    if "tick_exception" in ob:
                        out.append(("C12:tick-raised", ob["tick_exception"], ctx_))
                run.cleanup()
    base.cleanup()
    seen, uniq = set(), []
    for s, w, c in out:
        if s not in seen:
            seen.add(s)
            uniq.append((s, w, c))
    return uniq, dict(stats)


def effect_problems(kind, item, li, info, run: Run, base: Run, t, cls):
    probs = []
    marks_before = base.marks()[:base.obs[t - 1]["nmarks"]]
    after = run.marks()[len(marks_before):] if run.marks()[:len(marks_before)] == marks_before else run.marks()
    if kind == "cancel":
        if cls in ("Watch", "Alarm") and li is not None:
            bm = body_marks(info, li["idx"])
            started_before = any(m in marks_before for m in bm) or item["state"] != "started"
            body_running = False
            # a body that is in progress at the cancel may finish; only bodies that had not begun are judged
            if cls == "Watch" and not started_before and any(m in after for m in bm):
                probs.append((f"C12:cancelled-{cls}-ran-body", f"Watch cancelled at tick {t} (body not started) but body marks {[m for m in after if m in bm]} appeared afterwards"))
            if cls == "Alarm" and not any(m in marks_before for m in bm) and any(m in after for m in bm) and t <= X_FROM:
                probs.append((f"C12:cancelled-{cls}-ran-body", f"Alarm cancelled at tick {t} before its condition held but body marks {[m for m in after if m in bm]} appeared afterwards"))
        elif cls in ("Pause", "Hold"):
            flag = "paused" if cls == "Pause" else "holding"
            begun = run.obs[t - 1]["flags"][flag]          # the command had taken effect when the cancel arrived
            # the cancel is applied at once, i.e. before tick t; a later instruction may pause/hold again from t+1 on
            if run.obs[t]["flags"][flag] and not run.error_events:
                if begun:
                    probs.append((f"C12:cancelled-{cls}-still-in-effect", f"timed {cls} cancelled at tick {t} but the run is still {flag} after the next tick"))
                else:
                    probs.append(("C12:cancel-in-start-window-ignored:engine-command",
                                  f"{cls} was offered as cancellable before it began; cancelled at tick {t}, it began anyway and the run is {flag} after the next tick"))
        elif cls in ("Long", "Hang", "Inst"):
            iid = item["id"]
            evs = [e for e in run.cmd_events if e[3] == iid]
            begun = any(e[0] < t for e in evs)
            fins = [e for e in evs if e[2] == "finalize"]
            late_exec = [e for e in evs if e[2] == "exec" and e[0] > t]
            if not begun and late_exec:
                probs.append(("C12:cancel-in-start-window-ignored:uod-command",
                              f"{cls} was offered as cancellable before the command manager started it; cancelled at tick {t}, it executed anyway at ticks {[e[0] for e in late_exec][:6]}"))
            elif begun:
                if len(fins) != 1:
                    probs.append((f"C12:cancelled-command-finalized-{len(fins)}-times:{cls}", f"{cls} cancelled at tick {t}: finalize events {fins}"))
                if late_exec:
                    probs.append((f"C12:cancelled-command-still-executes:{cls}", f"{cls} cancelled at tick {t} but exec at ticks {[e[0] for e in late_exec]}"))
                live = run.uod.command_instances.get(cls) if False else None
                if any(e[0] > t + 1 for e in evs if e[2] != "finalize"):
                    probs.append((f"C12:cancelled-command-instance-not-disposed:{cls}", f"{cls} cancelled at tick {t}; its instance still acts after tick {t + 1}"))
    else:  # force
        running_ticks = [ob["n"] for ob in run.obs[t:] if ob["state"] == "Running"]
        deadline = running_ticks[4] if len(running_ticks) > 4 else None
        if deadline is None or li is None:
            return probs
        if cls == "Watch":
            bm = body_marks(info, li["idx"])
            if bm and not any(m in marks_before for m in bm):
                upto = run.marks()[:run.obs[deadline]["nmarks"]]
                if bm[0] not in upto and info[li["idx"] + 1]["name"] == "Mark":
                    probs.append(("C12:forced-Watch-did-not-proceed", f"Watch forced at tick {t}; first body mark {bm[0]} not seen by tick {deadline} (marks {upto})"))
        elif cls == "Wait":
            nxt = [s for s in info if s["parent"] == li["parent"] and s["idx"] > li["idx"] and s["name"] == "Mark"
                   and s["raw"].strip().startswith("Mark")]          # not a thresholded Mark
            if nxt and nxt[0]["idx"] == li["idx"] + 1:
                upto = run.marks()[:run.obs[deadline]["nmarks"]]
                if nxt[0]["arg"] not in upto and nxt[0]["arg"] not in marks_before:
                    probs.append(("C12:forced-Wait-did-not-proceed", f"Wait forced at tick {t}; the next Mark {nxt[0]['arg']} not seen by tick {deadline}"))
        elif cls == "Mark" and item["state"] != "completed":
            upto = run.marks()[:run.obs[deadline]["nmarks"]]
            if li["arg"] not in upto:
                probs.append(("C12:forced-threshold-did-not-proceed", f"thresholded Mark {li['arg']} forced at tick {t}; not seen by tick {deadline}"))
    return probs


def corpus(ctx):
    forests = []
    for f in pgen.programs(TOP + BODY[1:3], 2, depth=1):
        pass
    kinds = TOP
    seen = set()
    for n in (1, 2, 3) if ctx.quick else (1, 2, 3, 4):
        for f in pgen.forests(list(dict.fromkeys(TOP + BODY)), n, 1):
            if not pgen.no_empty_openers(f):
                continue
            if len(f) > 2:
                continue
            if any(k in ("EB", "Wl") and True for k, ch in f if not ch and k == "EB"):
                continue                # End block only inside bodies
            if any(len(ch) > 2 for k, ch in f):
                continue
            # top-level kinds restricted to TOP, body kinds to BODY
            if any(k not in TOP for k, ch in f) or any(c[0] not in BODY for k, ch in f for c in ch):
                continue
            key = pgen.text(f)
            if key not in seen:
                seen.add(key)
                forests.append(f)
    return forests


def run(ctx):
    forests = corpus(ctx)
    ctx.prove_deterministic(lambda f: explore_program(f)[0], [forests[1], forests[len(forests) // 2]], k=2)
    results = ctx.pmap(explore_program, forests, chunk=1)
    tot = collections.Counter()
    for f, (viol, st) in zip(forests, results):
        tot.update(st)
        for sig, what, rep in viol:
            ctx.violation(sig, what, rep)
    if tot["offered_accepted"] < 50 or tot["not_offered"] < 50:
        raise HarnessError(f"vacuous: {dict(tot)}")
    ctx.coverage.update(
        states=tot["exec"], transitions=tot["exec"] * HORIZON, traces_validated_against_impl=tot["exec"],
        evaluations=tot["exec"], distinct_nontrivial=tot["offered_accepted"], programs=len(forests),
        requests_for_items_not_offered=tot["not_offered"], offered_and_accepted=tot["offered_accepted"], second_requests_after_force=tot["second_request"],
        second_requests_accepted=tot["second_request_accepted"],
        offered_but_rejected=tot["offered_rejected"],
        rule="one execution per (program, tick, run-log item index, cancel|force); non-trivial = the request addressed an offered "
             "item and was accepted (its effect predicate was evaluated)",
        samples=[pgen.render(forests[0]), pgen.render(forests[len(forests) // 2]), pgen.render(forests[-1])],
        exhaustive=True, horizon=HORIZON)


def replay(data):
    lines = [(f"L{i}", c) for i, c in enumerate(data["lines"])]
    sched = tuple((t, tuple(r)) for t, r in data["schedule"])
    base, _ = drive(lines, ())
    run, recs = drive(lines, sched)
    print("program:", data["lines"], "schedule:", data["schedule"])
    for r in recs:
        print("request:", {k: r.get(k) for k in ("kind", "tick", "accepted", "error")}, "item:", r.get("item"))
    for ob in run.obs:
        rl = ob["runlog"]
        print(ob["n"], ob["state"], ob["cmd"], rl if isinstance(rl, str) else [(i["name"], i["state"], "C" if i["cancellable"] else "", "F" if i["forcible"] else "") for i in rl])
    print("marks:", run.marks(), "base marks:", base.marks())
    from mc.checks.c02 import _forest
    viol, _ = explore_program(_forest(data["lines"]))
    want = {(t, tuple(r)) for t, r in data["schedule"]}
    return [(s, w) for s, w, c in viol if {(t, tuple(r)) for t, r in c["schedule"]} == want] or [(s, w) for s, w, c in viol]
