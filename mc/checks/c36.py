"""C36 — Every changed tag is reported with its latest value.

The C16 program corpus, each program executed once per report period r; the report stream produced by the real
EngineMessageBuilder is compared with the values read directly from the tag objects at the report instants.
"""
from __future__ import annotations

import gc

from mc import c16_common as cc
from mc.core import HarnessError

ID = "C36"
LEVEL = "model_checking"
META = dict(
    technique="bounded-exhaustive enumeration of P-code programs x report periods on the real Engine, differential comparison of the "
              "tags-updated messages built by the real EngineMessageBuilder with the tag values read at the report instants",
    text="Every program of the C16 corpus is executed for 24 ticks once per report period r (reports after every r-th tick through "
         "create_tag_updates_msg; the report in the middle and the last one are snapshots through create_tag_updates_snapshot_msg "
         "/ notify_all_tags).  Between two report instants every tag whose visible value (Tag.as_readonly().value, including "
         "simulation) differs must be in the next report exactly once with the value it has at that instant; no report "
         "contains a tag twice (checked on the message that would be sent, i.e. after the builder's de-duplication); a "
         "snapshot contains every tag of the system, UOD and merged tag collections.",
    note="Two programs additionally run with the Connection Status system tag switched to Disconnected and back (as the hardware "
         "error-recovery layer does).  Three programs additionally run for 400 ticks without any report, then one incremental report and a snapshot (a value "
         "that changes late must not be lost because earlier notifications pile up).  The first interval starts at the state before the first tick.  Unchanged tags may be reported (the statement does not "
         "forbid it).  never-reported = the tag is in no incremental report of the whole run; missing-from-next-report = it is "
         "reported, but not when it changed.",
)


LONG = 400          # ticks without any report (a reporter that is disconnected for 40 s)
LONG_PROGRAMS = [["Wait: 36s", "Mark: late"], ["Wait: 38s", "Valve: Open"], ["Watch: X > 1", "    Wait: 35s", "    Mark: late"]]


def connection_loss(run, k):
    """What ErrorRecoveryDecorator does to the Connection Status system tag when the hardware is lost / comes back."""
    from openpectus.lang.exec.tags import SystemTagName
    tag = run.engine._system_tags[SystemTagName.CONNECTION_STATUS]
    if k == 0:
        # a uod tag that follows the connection status through its event hook (tags are event listeners): its value changes
        # inside on_connection_status_change, i.e. while the engine is collecting the changed tags
        free = run.uod.tags["Free"]
        free.on_connection_status_change = lambda status: free.set_value(1.0 if status == "Connected" else -1.0, run.now)
    if k == 6:
        tag.set_value("Disconnected", run.now)
    elif k == 14:
        tag.set_value("Connected", run.now)


CONNECTION_PROGRAMS = [["Mark: a"], ["Wait: 1s", "Mark: b"]]


def check_program(item):
    lines, period = item[0], item[1]
    if len(item) > 2 and item[2] == "connection":
        tr = cc.trace(lines, period=period, mid_snapshot=True, tick_hook=connection_loss)
        probs, stats = cc.c36_problems(tr)
        return cc.uniq([(s_ + ":hardware-connection-lost-and-back", w) for s_, w in probs]), stats, True, tr["tick_exceptions"]
    if len(item) > 2:
        # one incremental report after a long silence (snapshot_each: followed by a snapshot)
        tr = cc.trace(lines, period=period, snapshot_each=True, horizon=item[2])
        probs, stats = cc.c36_problems(tr)
        last = tr["ticks"][-1]
        have = {r[0] for r in (last["snapshot"] or [])}
        for n in tr["names"]:
            if n not in have:
                probs.append((f"C36:snapshot-misses:{n}", f"snapshot after {item[2]} ticks without a report does not contain tag {n}"))
        return cc.uniq([(s_ + ":after-long-silence", w) for s_, w in probs]), stats, cc.nontrivial(tr), tr["tick_exceptions"]
    tr = cc.trace(lines, period=period, mid_snapshot=True)
    probs, stats = cc.c36_problems(tr)
    return cc.uniq(probs), stats, cc.nontrivial(tr), tr["tick_exceptions"]


def run(ctx):
    periods = (1, 2) if ctx.quick else (1, 2, 3)
    progs = cc.corpus(ctx.quick)
    items = ([(lines, r) for lines in progs for r in periods] + [(lines, LONG, LONG) for lines in LONG_PROGRAMS]
             + [(lines, r, "connection") for lines in CONNECTION_PROGRAMS for r in (1, 3)])
    ctx.prove_deterministic(check_program, [items[0], items[81], items[-1]])
    gc.collect()
    gc.freeze()              # keep the forked workers from copying the inherited heap on their first collection
    results = ctx.pmap(check_program, items)
    reports = changed = snapshots = nontrivial = tick_exc = 0
    for it, (viol, stats, nt, te) in zip(items, results):
        lines, r = it[0], it[1]
        reports += stats["reports"]
        changed += stats["changed"]
        snapshots += stats["snapshots"]
        nontrivial += 1 if nt else 0
        tick_exc += te
        for sig, what in viol:
            ctx.violation(sig, what, {"lines": lines, "period": r, "horizon": it[2] if len(it) > 2 and it[2] != "connection" else None,
                                      "connection": len(it) > 2 and it[2] == "connection"})
    if nontrivial < len(items) // 2 or changed < 1000 or snapshots < len(items):
        raise HarnessError(f"vacuous: {nontrivial} non-trivial executions, {changed} changed (tag, interval) pairs, {snapshots} snapshots")
    n = len(items)
    ctx.coverage.update(
        states=n * cc.HORIZON, transitions=n * cc.HORIZON, traces_validated_against_impl=n, executions=n,
        evaluations=changed, reports_checked=reports, snapshots_checked=snapshots, distinct_nontrivial=nontrivial,
        programs=len(progs), report_periods=list(periods), horizon=cc.HORIZON, ticks_that_raised=tick_exc,
        kinds_full=cc.KINDS_FULL, kinds_sub=cc.KINDS_SUB if ctx.quick else cc.KINDS_SUB4,
        bounds="<=2 statements over kinds_full + 3 over kinds_sub, nesting <=2, no empty bodies" if ctx.quick else
               "<=3 statements over kinds_full + 4 over kinds_sub, nesting <=2, no empty bodies",
        rule="every program of the bounded grammar x every report period is executed once; states = ticks observed; evaluations "
             "= (tag, report interval) pairs in which the visible value changed and whose report was checked; non-trivial = "
             "executions in which a non-clock tag changed its visible value after the first tick because of the program",
        samples=[items[0], items[n // 3], items[n // 2], items[-1]], exhaustive=True)
    ctx.assumptions += ["inputs: Tot grows every third tick, X/In1 = 2.0 from tick 4 and 3.0 from tick 15",
                        "a report instant is the end of a tick (the engine lock is not contended in this single-threaded harness)"]


def replay(data):
    if data.get("connection"):
        viol = check_program((data["lines"], data["period"], "connection"))[0]
        for _, w in viol:
            print(w)
        return viol
    if data.get("horizon"):
        viol = check_program((data["lines"], data["period"], data["horizon"]))[0]
        for _, w in viol:
            print(w)
        return viol
    tr = cc.trace(data["lines"], period=data["period"], mid_snapshot=True)
    cc.print_trace(tr)
    probs, _ = cc.c36_problems(tr)
    return cc.uniq(probs)
