"""C15 — Run log is always producible and well-formed.

Bounded-exhaustive program enumeration with one cancel / force / control deviation at every tick; the run log is
produced after every tick of every execution and checked against the well-formedness rules of the statement.
"""
from __future__ import annotations

import collections
import itertools

from mc import pgen
from mc.core import HarnessError
from mc.engine_harness import Run, execute

ID = "C15"
LEVEL = "model_checking"
META = dict(
    technique="bounded-exhaustive enumeration of programs x (tick, cancel|force|control request) on the real Engine with a per-tick run-log monitor",
    text="Every program of the union grammar up to the size bound, alone and with one cancel, force, Stop, Pause or Restart "
         "request addressed to every run-log item at every tick, is executed; after every tick get_runlog() must succeed and "
         "its items must be ordered by start, have distinct ids, end >= start, concluded items closed and not "
         "cancellable/forcible, and every completed method instruction must appear as a completed item.",
    note="Programs <= 2 statements over the full union grammar and 3 statements over a sub-grammar (thorough: 3 full); one "
         "deviation; horizon 24 ticks; X becomes true at tick 4.",
)

KINDS = ["M", "T", "W", "I", "L", "H", "A", "B", "S", "V", "Boom", "K", "Wa", "Al", "MA", "CA", "EB", "EBS", "P", "Ho", "b",
         "Si", "So", "Bogus", "St", "Rs"]
KINDS3 = ["M", "L", "A", "B", "Boom", "K", "Wa", "Al", "EB", "P"]
HORIZON = 24
EXCLUDED_CLASSES = {"ProgramNode", "BlankNode", "CommentNode", "InjectedNode", "ErrorInstructionNode"}
CONCLUSIVE = {"completed", "failed", "cancelled"}


UOD_COMMANDS = {"Inst", "Long", "Hang", "OvA", "OvB", "SetOut", "Valve", "Dose", "Boom"}
ENGINE_COMMANDS = {"Pause", "Hold", "Unpause", "Unhold", "Stop", "Restart", "Start", "Info", "Warning", "Error"}


def cause(diag: str) -> str:
    """'<Type>:<instr>:<s1>>s2>...' -> '<Type>:<instruction class>:<first two states>' (one signature per cause)."""
    parts = diag.split(":")
    if len(parts) < 3:
        return diag
    exc, instr, chain = parts[0], parts[1], parts[2]
    cls = "uod-command" if instr in UOD_COMMANDS else "engine-command" if instr in ENGINE_COMMANDS else instr
    return f"{exc}:{cls}:{'>'.join(chain.split('>')[:2])}"


def runlog_problems(ob, nodes=None):
    rl = ob.get("runlog")
    probs = []
    if rl is None:
        return probs
    if isinstance(rl, str):
        return [("C15:runlog-raises:" + cause(rl.split(":", 1)[1]), f"get_runlog() raised {rl} at tick {ob['n']}")]
    starts = [it["start"] for it in rl]
    if any(a > b for a, b in zip(starts, starts[1:])):
        probs.append(("C15:not-ordered-by-start", f"run log not ordered by start at tick {ob['n']}: {[(i['name'], i['start']) for i in rl]}"))
    ids = [it["id"] for it in rl]
    if len(set(ids)) != len(ids):
        dup = [i for i, c in collections.Counter(ids).items() if c > 1][0]
        names = [it["name"].split(":")[0] for it in rl if it["id"] == dup]
        probs.append((f"C15:duplicate-id:{names[0]}", f"run log id {dup} occurs more than once at tick {ob['n']} ({names})"))
    for it in rl:
        cls = it["name"].split(":")[0]
        if it["end"] is not None and it["end"] < it["start"]:
            probs.append((f"C15:ends-before-start:{cls}", f"item {it['name']} ends {it['end']} before it starts {it['start']} (tick {ob['n']})"))
        if it["state"] in CONCLUSIVE:
            if it["end"] is None:
                probs.append((f"C15:concluded-without-end:{cls}:{it['state']}", f"item {it['name']} is {it['state']} but has no end time (tick {ob['n']})"))
            if it["cancellable"] or it["forcible"]:
                which = "cancellable" if it["cancellable"] else "forcible"
                probs.append((f"C15:concluded-still-{which}:{cls}:{it['state']}", f"item {it['name']} is {it['state']} but still {which} (tick {ob['n']})"))
    if nodes is not None:
        done_items = collections.Counter(it["name"] for it in rl if it["state"] == "completed")
        need = collections.Counter()
        for nid, nf in nodes.items():
            if nf["completed"] and not nf["failed"] and nf["cls"] not in EXCLUDED_CLASSES and nf["runlog_name"] not in (None, "Stop"):
                need[nf["runlog_name"]] += 1
        for name, c in need.items():
            if done_items.get(name, 0) < 1:
                probs.append((f"C15:completed-instruction-missing:{name.split(':')[0]}",
                              f"instruction '{name}' completed but the run log has no completed item for it at tick {ob['n']}: "
                              f"{[(i['name'], i['state']) for i in rl]}"))
    return probs


def node_table(run: Run):
    out = {}
    for n in run.engine.method_manager.program.get_all_nodes():
        out[n.id] = {"cls": type(n).__name__, "completed": n.completed, "failed": n.failed, "runlog_name": n.runlog_name}
    for inj in run.injected_nodes:          # instructions of injected code (not part of the program tree)
        for n in inj.get_child_nodes(recursive=True):
            out[n.id] = {"cls": type(n).__name__, "completed": n.completed, "failed": n.failed, "runlog_name": n.runlog_name,
                         "injected": True}
    return out


def _nested_in_alarm(lines, node_id) -> bool:
    """the line is an opener inside an Alarm body or at least two levels deep in one (Alarm > Watch|Alarm|Block|... > line):
    when the alarm re-arms, nested nodes are reset while items of their earlier invocations are still in the run log"""
    stack = []
    for i, l in enumerate(lines):
        ind = len(l) - len(l.lstrip(" "))
        while stack and stack[-1][0] >= ind:
            stack.pop()
        if f"L{i}" == node_id:
            opener = l.strip().split(":")[0] in ("Watch", "Alarm", "Block", "Macro")
            return any(nm == "Alarm" for _, nm in stack) and (opener or len(stack) >= 2)
        stack.append((ind, l.strip().split(":")[0]))
    return False


def run_one(lines, schedule, x_from=4):
    return _run_one(lines, schedule, x_from)


def _run_one(lines, schedule, x_from=4):
    run = Run("\n".join(lines), observe=("runlog",))
    probs = []
    by_tick = collections.defaultdict(list)
    for t, req in schedule:
        by_tick[t].append(req)
    from mc.engine_harness import apply_request
    n_items = 0
    for t in range(HORIZON):
        if t == x_from:
            run.set_input("In1", 2.0)
        for req in by_tick.get(t, ()):
            apply_request(run, req)
        ob = run.tick()
        if "tick_exception" in ob:
            probs.append(("C15:tick-raised", f"Engine.tick raised {ob['tick_exception']}"))
        if not run.flags()["started"]:
            run.injected_nodes.clear()          # injected code belongs to the run it was injected into (the run log starts afresh)
        new = runlog_problems(ob, node_table(run)) if run.flags()["started"] else runlog_problems(ob)
        if isinstance(ob.get("runlog"), str) and _nested_in_alarm(lines, getattr(run, "last_runlog_failure_node", None)):
            new = [((s_ + ":nested-in-Alarm") if s_.startswith("C15:runlog-raises:") else s_, w) for s_, w in new]
        probs += new
        if isinstance(ob["runlog"], list):
            n_items = max(n_items, len(ob["runlog"]))
    for (tick, rl) in run.on_stop_runlogs:
        if isinstance(rl, str):
            sfx = ":nested-in-Alarm" if _nested_in_alarm(lines, run.on_stop_failure_nodes.get(tick)) else ""
            probs.append(("C15:runlog-raises:" + cause(rl.split(":", 1)[1]) + sfx, f"producing the run log for the run-stopped message raised {rl} (tick {tick})"))
    run.cleanup()
    return probs, n_items


def explore_program(item):
    lines, deviations = item
    out = []
    base_probs, n_items = run_one(lines, ())
    execs = 1
    for sig, what in base_probs:
        out.append((sig, what, {"lines": lines, "schedule": []}))
    nontrivial = 0
    if any(l.strip().startswith(("Watch", "Alarm")) for l in lines):
        # other onsets of the condition, so that items of the interrupt and of the main flow start in the same tick
        for x_from in (2, 3, 5, 6, 7, 8):
            probs, _ = run_one(lines, (), x_from)
            execs += 1
            nontrivial += 1
            for sig, what in probs:
                out.append((sig, what, {"lines": lines, "schedule": [], "x_from": x_from}))
    if deviations:
        for t in range(1, HORIZON - 4):
            reqs = [("user", "Stop"), ("user", "Pause"), ("user", "Restart")]
            for k in range(n_items):
                reqs += [("cancel", k), ("force", k)]
            if t <= 1:
                # the user saves the (unchanged) method right after Start, before the first instruction has started: a plain set,
                # not a live-edit merge (merges are C01's business)
                reqs += [("edit", tuple((f"L{i}", c) for i, c in enumerate(lines)))]
            if t <= 10:
                reqs += [("inject", "Mark: j"), ("inject", "Inst\nMark: j"), ("inject", "Long: 2")]
            for req in reqs:
                probs, _ = run_one(lines, ((t, req),))
                execs += 1
                nontrivial += 1
                for sig, what in probs:
                    out.append((sig, what, {"lines": lines, "schedule": [[t, list(req)]]}))
    # keep one replay per signature per program
    seen = set()
    uniq = []
    for sig, what, rep in out:
        if sig not in seen:
            seen.add(sig)
            uniq.append((sig, what, rep))
    return uniq, execs, nontrivial, n_items


def corpus(ctx):
    """(lines, with_deviations).  Openers with an empty body are left out (see pgen.no_empty_openers)."""
    ok = pgen.no_empty_openers
    sub = set(KINDS3)
    items = []
    for f in pgen.programs(KINDS, 2, depth=2):
        if ok(f):
            items.append((pgen.render(f), (not ctx.quick) or set(pgen.kinds_flat(f)) <= sub))
    if ctx.quick:
        for f in pgen.forests(KINDS3 + ["W"], 3, 2):
            if ok(f):
                # deviations only for a Watch with a two-line body (Alarm programs run without deviations here)
                items.append((pgen.render(f), len(f) == 1 and f[0][0] == "Wa" and "Al" not in pgen.kinds_flat(f)))
    else:
        for f in pgen.forests(KINDS, 3, 2):
            if ok(f):
                items.append((pgen.render(f), set(pgen.kinds_flat(f)) <= sub))
    return items


def run(ctx):
    items = corpus(ctx)
    ctx.prove_deterministic(lambda it: explore_program(it)[0], [items[2], items[40]], k=2)
    results = ctx.pmap(explore_program, items, chunk=1)
    execs = nontrivial = 0
    for it, (viol, e, nt, n_items) in zip(items, results):
        execs += e
        nontrivial += nt
        for sig, what, rep in viol:
            ctx.violation(sig, what, rep)
    if nontrivial < 100:
        raise HarnessError("vacuous: hardly any deviation executed")
    ctx.coverage.update(
        states=execs * HORIZON, transitions=execs * HORIZON, traces_validated_against_impl=execs,
        evaluations=execs, distinct_nontrivial=nontrivial, programs=len(items),
        rule="each program alone and with one request (Stop/Pause/Restart, cancel or force of run-log item k, code injected at ticks <= 10: Mark / Inst+Mark / Long, the unchanged method saved again before tick 1) at every tick; the "
             "run log is produced and checked after every tick (states = ticks observed); non-trivial = executions with a deviation",
        samples=[items[1][0], items[len(items) // 2][0], items[-1][0]], exhaustive=True, horizon=HORIZON)
    ctx.assumptions += ["X becomes 2.0 at tick 4", "one deviation per execution"]


def replay(data):
    sched = tuple((t, tuple(r)) for t, r in data["schedule"])
    x_from = data.get("x_from", 4)
    probs, _ = run_one(data["lines"], sched, x_from)
    run = execute("\n".join(data["lines"]), schedule=sched, horizon=HORIZON, observe=("runlog",), inputs={x_from: {"In1": 2.0}})
    for ob in run.obs:
        rl = ob["runlog"]
        print(ob["n"], ob["state"], rl if isinstance(rl, str) else [(i["name"], i["state"], i["start"], i["end"], i["cancellable"], i["forcible"]) for i in rl])
    seen = set()
    out = []
    for sig, what in probs:
        if sig not in seen:
            seen.add(sig)
            out.append((sig, what))
    return out
