"""C30 — Each run yields exactly one recent run and one plot log.

Explicit-state BFS over message histories on the real Aggregator + AggregatorMessageHandlers + repositories
(in-memory SQLite, mc/agg_harness.py).  Alphabet: run_started / run_stopped of two runs (every one of them may be
delivered again at any later point: duplicates and late resends), disconnect, re-register, connect, graceful
aggregator restart.  After every transition the PlotLog and RecentRun rows are counted per run id:

* no run id ever gets a second PlotLog or a second RecentRun row (reported when the count grows beyond one);
* a delivered run_started(r) leaves at least one PlotLog(r);
* a delivered run_stopped(r) for a run whose run_started was delivered before leaves at least one RecentRun(r).

The discriminator of a signature is the class of the delivery that broke the count, taken from the history:
duplicate-run-started (run_started(r) again while r is the engine's current run), late-run-started (run_started(r)
delivered again after r had ended: stopped or replaced by another run) and after-late-run-started (its consequences),
...-foreign-run-stopped (a run_stopped(r') with r' != r had been delivered while r was the engine's run).
"""
from mc import agg_harness as H
from mc.core import HarnessError

ID = "C30"
LEVEL = "model_checking"
META = dict(
    technique="explicit-state BFS over run_started/run_stopped/disconnect/restart histories on the real aggregator with an in-memory database",
    text="Every history of the alphabet up to the depth bound is executed on the real Aggregator, message handlers, dispatcher and "
         "repositories (fresh SQLite database per history); after every transition the PlotLog and RecentRun rows are counted per "
         "run id against the statement's exactly-one rule. Exhaustive within the bound over the stated alphabet.",
    note="One engine, two run ids; messages are only delivered while the engine is connected; run_stopped(r) is only generated after "
         "run_started(r) was delivered once (a run_stopped overtaking its own run_started is not generated); graceful restart only "
         "(Aggregator.shutdown runs); wall time virtual.",
)

PREFIX = ("reg", "conn", "uod")
ALPHABET = ("rs1", "stop1", "disc", "reg", "conn", "restart", "rs2", "stop2", "bounce")   # bounce = disc+reg+conn+uod in one step


def _run_of(ev):
    return "r" + ev[-1] if ev in ("rs1", "rs2", "stop1", "stop2") else None


def _class(ev, r, pre):
    """Class of the delivery `ev` that raised the row count of run r, from harness facts only."""
    er = _run_of(ev)
    ended_before = r in pre["stopped"] or r in pre["reopened"] or (r in pre["superseded"] and pre["eng_run"] != r)
    if ev.startswith("rs") and er == r:
        if pre["eng_run"] == r and r in pre["misclosed"]:
            return "duplicate-run-started-after-foreign-run-stopped"
        if ended_before:
            return "late-run-started"
        if pre["eng_run"] == r:
            return "duplicate-run-started"
        return "first-run-started"
    if r in pre["misclosed"]:
        # the run was stored early by a run_stopped of another run id; only a run_started delivered again for it afterwards
        # makes it a run again that will be stored a second time (known); without that a second row is something else
        return "after-foreign-run-stopped" if r in pre.get("misclosed_restarted", ()) else "after-foreign-run-stopped:without-new-run-started"
    if r in pre["reopened"] or (er is not None and er in pre["reopened"]):
        return "after-late-run-started"
    if ev.startswith("stop") and er == r:
        return "duplicate-run-stopped" if r in pre["stopped"] else "first-run-stopped"
    return f"by-{ev}"


def check_step(obs, i):
    rec = obs[i]
    ev, pre = rec["ev"], rec["pre"]
    out = []
    if rec.get("raised"):
        out.append((f"C30:aggregator-raised:{ev}:{rec['raised'].split(':')[0]}",
                    f"handling {ev} (step {i}) raised {rec['raised']}"))
    pre_pl, post_pl = H.count_by_run(rec["pre_db"]["plot_logs"]), H.count_by_run(rec["db"]["plot_logs"])
    pre_rr, post_rr = H.count_by_run(rec["pre_db"]["recent_runs"]), H.count_by_run(rec["db"]["recent_runs"])
    for r in sorted(post_pl):
        if post_pl[r] > 1 and post_pl[r] > pre_pl.get(r, 0):
            out.append((f"C30:second-plotlog:{_class(ev, r, pre)}",
                        f"{ev} (step {i}) left {post_pl[r]} PlotLog rows for run {r} (before: {pre_pl.get(r, 0)})"))
    for r in sorted(post_rr):
        if post_rr[r] > 1 and post_rr[r] > pre_rr.get(r, 0):
            out.append((f"C30:second-recent-run:{_class(ev, r, pre)}",
                        f"{ev} (step {i}) left {post_rr[r]} RecentRun rows for run {r} (before: {pre_rr.get(r, 0)})"))
    er = _run_of(ev)
    if er and rec["reply"] == "SuccessMessage":
        if ev.startswith("rs") and post_pl.get(er, 0) < 1:
            out.append((f"C30:no-plotlog:{_class(ev, er, pre)}", f"{ev} (step {i}) was accepted but run {er} has no PlotLog"))
        if ev.startswith("stop") and er in pre["started"] and post_rr.get(er, 0) < 1:
            out.append((f"C30:no-recent-run:{_class(ev, er, pre)}",
                        f"{ev} (step {i}) was accepted, run_started({er}) had been delivered, but run {er} has no RecentRun"))
    elif er:
        out.append((f"C30:message-refused:{ev}", f"{ev} (step {i}) answered {rec['reply']}"))
    if rec["desync"]:
        out.append((f"C30:connection-state:{ev}", f"after {ev} (step {i}) aggregator registered/connected = "
                    f"{rec['agg']['registered']}/{rec['agg']['connected']}, engine expects {rec['post']['registered']}/{rec['post']['connected']}"))
    return out


def _facts(obs):
    """(dup_or_resend_delivered, disconnect_during_run) for the whole history."""
    dup = interrupted = False
    seen = set()
    for rec in obs:
        if _run_of(rec["ev"]):
            if rec["ev"] in seen:
                dup = True
            seen.add(rec["ev"])
        if rec["ev"] in ("disc", "restart") and rec["pre"]["eng_run"] is not None:
            interrupted = True
    return dup, interrupted


def _worker(item):
    prefix, hist, ev, alphabet = item
    s = H.build(hist + (ev,), prefix)
    viol = check_step(s.obs, len(s.obs) - 1)
    dup, interrupted = _facts(s.obs)
    db = s.obs[-1]["db"]
    return H.canon_digest(s), H.enabled(s.model, alphabet), (viol, dup, interrupted, len(db["plot_logs"]), len(db["recent_runs"]))


def _observe(h):
    return [(r["ev"], r["reply"], r["agg"], r["db"]) for r in H.build(h, PREFIX).obs]


def run(ctx):
    depth = 7 if ctx.quick else 9
    ctx.prove_deterministic(_observe, [("rs1", "rs1", "stop1", "stop1"), ("rs1", "disc", "reg", "conn", "rs2", "stop1"), ("rs1", "restart", "reg", "conn", "stop1")])
    stats = dict(dup=0, interrupted=0, both=0, nontrivial=0, max_pl=0, max_rr=0, samples=[])

    def on_result(h, ev, payload):
        viol, dup, interrupted, npl, nrr = payload
        for sig, what in viol:
            ctx.violation(sig, what, {"prefix": list(PREFIX), "history": list(h) + [ev]})
        stats["dup"] += dup
        stats["interrupted"] += interrupted
        stats["both"] += dup and interrupted
        stats["max_pl"] = max(stats["max_pl"], npl)
        stats["max_rr"] = max(stats["max_rr"], nrr)
        if dup or interrupted:
            stats["nontrivial"] += 1
        if dup and interrupted and len(h) >= 4 and len(stats["samples"]) < 4:
            stats["samples"].append(list(h) + [ev])

    ex = H.Explorer(ctx, _worker, PREFIX, ALPHABET, depth).run(on_result)
    ctx.note(f"[C30] depth={depth} states={ex.states} transitions={ex.transitions} per_level(transitions,new states)={ex.per_level}")
    if not stats["dup"] or not stats["interrupted"]:
        raise HarnessError("vacuous: no history with a duplicated notification or with a disconnect during a run")
    ctx.coverage.update(
        states=ex.states, transitions=ex.transitions, traces_validated_against_impl=ex.transitions, evaluations=ex.transitions,
        distinct_nontrivial=stats["nontrivial"],
        histories_with_duplicate_or_resent_notification=stats["dup"], histories_with_disconnect_or_restart_during_run=stats["interrupted"],
        histories_with_both=stats["both"], max_plot_logs=stats["max_pl"], max_recent_runs=stats["max_rr"],
        rule="level-synchronous BFS over event histories after the fixed prefix; one history per canonical state (database rows in id "
             "order + engine data + harness facts) is expanded by every enabled event; every transition is executed on the real "
             "aggregator and its row counts are checked; non-trivial = explored transitions whose history contains a run_started/"
             "run_stopped delivered more than once or a disconnect/restart while the engine was in a run",
        samples=stats["samples"] or ex.samples, depth=depth, alphabet=list(ALPHABET), prefix=list(PREFIX), per_level=[list(x) for x in ex.per_level],
        states_cut_at_bound=ex.cut_at_bound, exhaustive=True)
    ctx.assumptions += ["messages reach the aggregator only while the engine is connected (they travel over the websocket)",
                        "graceful restart: Aggregator.shutdown() and dispatcher.shutdown() run before the new Aggregator is created on the same database",
                        "run_stopped(r) is generated only after run_started(r) was delivered once"]


def replay(data):
    s = H.build(tuple(data["history"]), tuple(data.get("prefix", PREFIX)))
    out = []
    for i, rec in enumerate(s.obs):
        print(H.fmt_step(rec))
        for v in check_step(s.obs, i):
            print("     !!", v)
            out.append(v)
    return out
