"""C05 — Blocks nest and end correctly; Block tag names the active block.

Bounded-exhaustive program enumeration on the real Engine with a per-tick monitor over the set of active blocks, the
Block tag and the registered interrupts.
"""
from __future__ import annotations

from mc import flowcheck as fc
from mc import pgen
from mc.core import HarnessError
from mc.engine_harness import Run

ID = "C05"
LEVEL = "model_checking"
META = dict(
    technique="bounded-exhaustive program enumeration on the real Engine with a per-tick block-chain / Block-tag / interrupt monitor",
    text="All programs up to the size bound over nested and sequential Blocks, End block, End blocks, Mark, Wait, and Watch/Alarm "
         "that open blocks or end them run on the real engine for several condition trajectories; after every tick the active "
         "blocks (lock held and not ended) must form one ancestor chain, the Block tag must name the innermost one (empty when "
         "none), a completed End block must have ended exactly the innermost active block and removed the Watches/Alarms "
         "registered inside it, End blocks must have ended all, and a line after a block must not be visited before the block "
         "has ended.",
    note="Programs <= 4 statements (5 thorough), nesting <= 3 for blocks; 'active' is computed independently from node flags as "
         "lock_acquired and not block_ended; horizon 36 ticks.",
)

KINDS = ["K", "EB", "EBS", "M", "W", "Wa", "Al"]
HORIZON = 36
TRAJ = {"never": None, "from3": 3, "from9": 9}


def check_item(item):
    forest, traj = item
    lines = pgen.to_lines(forest)
    info = pgen.line_info(lines)
    run = Run(lines, observe=("tags",))
    probs = []
    prev_active: list = []
    prev_interrupts: set = set()
    done_endblocks: set = set()
    max_depth = 0
    ended_tick: dict = {}
    for t in range(HORIZON):
        if TRAJ[traj] is not None and t == TRAJ[traj]:
            run.set_input("X", 2.0)
        ob = run.tick()
        if "tick_exception" in ob:
            probs.append(("C05:tick-raised", ob["tick_exception"]))
        prog, nodes = fc.tree(run)
        active = fc.active_blocks(nodes)
        max_depth = max(max_depth, len(active))
        if not fc.is_chain(active):
            probs.append(("C05:active-blocks-not-a-chain", f"tick {t}: active blocks {[b.name for b in active]} are not nested in each other"))
        inner = fc.innermost(active)
        tag = ob["tags"]["Block"]
        want = inner.name if inner is not None else None
        if (tag or None) != want:
            by_interrupt = any(li["name"] in ("End block", "End blocks") and fc.in_interrupt_body(info, li["idx"]) for li in info)
            probs.append((f"C05:block-tag:{'stale' if want is None else 'wrong' if tag else 'empty'}" + (":blocks-ended-from-an-interrupt" if by_interrupt else ""),
                          f"tick {t}: Block tag is {tag!r} but the innermost active block is {want!r} (active {[b.name for b in active]})"))
        interrupts = {i.node.id for i in run.engine.interpreter.interrupts}
        ends_now = [n for n in nodes if type(n).__name__ in ("EndBlockNode", "EndBlocksNode") and n.completed and n.id not in done_endblocks]
        several_ends = len(ends_now) > 1          # main flow and an interrupt both ended blocks in this tick: only the union is judged
        for n in nodes:
            if type(n).__name__ == "BlockNode" and n.block_ended and n.id not in ended_tick:
                ended_tick[n.id] = t
        for n in nodes:
            cls = type(n).__name__
            if cls in ("EndBlockNode", "EndBlocksNode") and n.completed and n.id not in done_endblocks:
                done_endblocks.add(n.id)
                gone = [b for b in nodes if type(b).__name__ == "BlockNode" and b.block_ended and ended_tick.get(b.id) == t]
                if cls == "EndBlockNode":
                    # candidates: blocks active before this tick plus blocks that took the lock earlier in this very tick
                    cands = list(prev_active) + [b for b in gone if b not in prev_active]
                    pin = fc.innermost(cands)
                    if cands and [b.id for b in gone] != [pin.id] and not several_ends:
                        probs.append(("C05:end-block-ended-wrong-set",
                                      f"tick {t}: End block (line {n.id}) ended {[b.name for b in gone]}, innermost active was {pin.name}"))
                    ended = [pin] if cands else []
                else:
                    left_active = [b for b in prev_active if b in active]      # a block that became active later in this tick is not its business
                    if left_active:
                        probs.append(("C05:end-blocks-left-active", f"tick {t}: End blocks (line {n.id}) left {[b.name for b in left_active]} active"))
                    ended = list(prev_active)
                for b in ended:
                    inside = {c.id for c in b.get_child_nodes(recursive=True)}
                    left = inside & interrupts & prev_interrupts
                    if left:
                        rect = fc.record_table(run)
                        armed = all(any(nm == "awaitingcondition" and tk < t for nm, tk in rect.get(x, {"states": []})["states"]) for x in left)
                        probs.append((f"C05:interrupt-survives-end-of-block:{'armed' if armed else 'registered-but-not-yet-run'}",
                                      f"tick {t}: block {b.name} ended but interrupts for lines {sorted(left)} inside it are still registered"))
        prev_active = active
        prev_interrupts = interrupts
    # a line after a block is first visited only after the block has ended
    rec = fc.record_table(run)
    for li in info:
        if li["blank"] or li["id"] not in rec or rec[li["id"]]["first_visit"] < 0:
            continue
        sibs = [s for s in info if s["parent"] == li["parent"] and s["idx"] < li["idx"] and not s["blank"]]
        if sibs and sibs[-1]["name"] == "Block":
            b = sibs[-1]["id"]
            if b not in ended_tick or ended_tick[b] > rec[li["id"]]["first_visit"]:
                probs.append(("C05:line-after-block-visited-before-block-ended",
                              f"line {li['id']} first visited at tick {rec[li['id']]['first_visit']}, block {b} ended at {ended_tick.get(b)}"))
    run.cleanup()
    # structural context of the program: the interplay of interrupts with blocks has its own (known) defects; a violation in a
    # program without that interplay keeps the plain signature
    ctx_parts = []
    if any(li["name"] in ("Block", "Watch", "Alarm") and any(info[p_]["name"] == "Alarm" for p_ in _ancestors(info, li["idx"])) for li in info):
        ctx_parts.append("nested-in-Alarm")
    if any(li["name"] in ("End block", "End blocks") and fc.in_interrupt_body(info, li["idx"]) for li in info):
        ctx_parts.append("blocks-ended-from-an-interrupt")
    suffix = (":" + "+".join(ctx_parts)) if ctx_parts else ""
    seen, out = set(), []
    for sig, what in probs:
        sig = sig.replace(":blocks-ended-from-an-interrupt", "") + suffix
        if sig not in seen:
            seen.add(sig)
            out.append((sig, what))
    return out, max_depth


def _ancestors(info, idx):
    out = []
    p_ = info[idx]["parent"]
    while p_ is not None:
        out.append(p_)
        p_ = info[p_]["parent"]
    return out


def corpus(ctx):
    n = 4 if ctx.quick else 5
    items = []
    for f in pgen.programs(KINDS, n, depth=3):
        if not pgen.no_empty_openers(f):
            continue
        ks = pgen.kinds_flat(f)
        if "K" not in ks:
            continue
        trajs = ["never", "from3", "from9"] if any(k in ("Wa", "Al") for k in ks) else ["never"]
        for tr in trajs:
            items.append((f, tr))
    return items


def watch_block_family(ctx):
    """Outer block whose Watch opens a long-lived inner block while the outer block's own flow goes on to siblings, among them
    another nested block: Block(Watch(Block(body, End block)), siblings..., End block).  Beyond the size bound of the plain
    enumeration, so enumerated as a structured family."""
    E = ("EB", ())
    inner_bodies = [(("Wl", ()),), (("M", ()), ("Wl", ())), (("Wl", ()), ("M", ()))]
    sib_block = ("K", (("M", ()), E))
    alphabet = [("M", ()), ("W", ()), sib_block]
    import itertools
    out = []
    for body in inner_bodies:
        watch = ("Wa", (("K", body + (E,)),))
        for n in range(1, 3 if ctx.quick else 4):
            for sibs in itertools.product(alphabet, repeat=n):
                if sib_block not in sibs:
                    continue
                f = (("K", (watch,) + tuple(sibs) + (E,)), ("M", ()))
                for tr in ("from3", "from9"):
                    out.append((f, tr))
    return out


def run(ctx):
    items = corpus(ctx) + watch_block_family(ctx)
    ctx.prove_deterministic(lambda it: check_item(it)[0], [items[5], items[len(items) // 2]], k=2)
    results = ctx.pmap(check_item, items)
    nested = 0
    for it, (viol, depth) in zip(items, results):
        nested += 1 if depth >= 2 else 0
        for sig, what in viol:
            ctx.violation(sig, what, {"lines": pgen.render(it[0]), "traj": it[1]})
    if nested < 20:
        raise HarnessError("vacuous: hardly any execution had two nested active blocks")
    ctx.coverage.update(
        states=len(items) * HORIZON, transitions=len(items) * HORIZON, traces_validated_against_impl=len(items),
        evaluations=len(items), distinct_nontrivial=nested,
        rule="every program with at least one Block up to the size bound x condition trajectory; non-trivial = at some tick two "
             "or more blocks were active at once; plus the structured family Block(Watch(Block(..)), siblings incl. a nested "
             "block, End block) in which a Watch-opened block is still active when the outer flow reaches a sibling block",
        samples=[pgen.render(items[3][0]), pgen.render(items[len(items) // 2][0]), pgen.render(items[-1][0])],
        exhaustive=True, horizon=HORIZON)


def replay(data):
    from mc.checks.c02 import _forest
    f = _forest(data["lines"])
    viol, _ = check_item((f, data["traj"]))
    lines = [(f"L{i}", c) for i, c in enumerate(data["lines"])]
    print("program:")
    for i, c in enumerate(data["lines"]):
        print(f"  L{i}: {c!r}")
    run = Run(lines, observe=("tags",))
    for t in range(HORIZON):
        if TRAJ[data["traj"]] is not None and t == TRAJ[data["traj"]]:
            run.set_input("X", 2.0)
        ob = run.tick()
        prog, nodes = fc.tree(run)
        print(f"  tick {t}: Block tag {ob['tags']['Block']!r} active {[b.name for b in fc.active_blocks(nodes)]} "
              f"locked {[b.name for b in nodes if type(b).__name__ == 'BlockNode' and b.lock_acquired]} "
              f"interrupts {[i.node.id for i in run.engine.interpreter.interrupts]} marks {run.marks()}")
    return viol
