"""C22 — Command argument patterns accept exactly their documented language.

Code under test: `RegexNumber(units, non_negative, int_only)` and `RegexCategorical(exclusive_options,
additive_options)` in openpectus/lang/exec/regex.py, used through `RegexNamedArgumentParser` (serialize ->
deserialize -> parse, the path the LSP and the engine take), and the parser's introspection
(`get_units`, `get_exclusive_options`, `get_additive_options`).

Enumerated space
  * item lists: every list of 1..K distinct items (order matters) from ITEMS (plain names, an item with a space,
    and one item per regex metacharacter family: `.`, `|`, `( )`, `+`, `/`, `%`);
  * numeric patterns: units in {None} + all item lists, x non_negative x int_only;
  * categorical patterns: every item list split at every point into (exclusive, additive), either may be empty;
  * candidate strings per pattern: every concatenation of <= L tokens from {each item of the pattern, "+", " ", "",
    "-", "1", "23", ".", "e"}, de-duplicated.
  quick: K=2, L=3; thorough: K=3, L=4.

Oracle: a three-valued reference of the documented language written directly in Python (no regex):
ACCEPT / REJECT are asserted, UNSPECIFIED strings (where docstring and statement are silent) are only counted.
"""
from __future__ import annotations

import itertools
import logging

logging.disable(logging.CRITICAL)

from openpectus.lang.exec.regex import RegexCategorical, RegexNumber, RegexNumberOptional      # noqa: E402
from openpectus.lang.exec.uod import RegexNamedArgumentParser             # noqa: E402

from mc.core import HarnessError                                         # noqa: E402

ID = "C22"
LEVEL = "exploration"
META = dict(
    technique="bounded exhaustive language-equivalence check of generated regexes against a direct Python definition of the documented language",
    text="For every unit/option list up to the size bound (including items with regex metacharacters) the real pattern is built, "
         "wrapped in RegexNamedArgumentParser as the LSP does, and run on every token string up to the length bound; acceptance, "
         "the delivered groups and the introspected lists are compared with a regex-free reference. Language equivalence is a "
         "statement about all strings; complete enumeration of short strings over an alphabet made of the pattern's own items "
         "and the separators is the strongest affordable approximation, and the known defects need strings of 0-3 tokens.",
    note="Where the docstring is silent (surrounding whitespace, more than one space before the unit, '1.' / '.5', a leading '+', "
         "omitting the unit when units are declared, repeated additive options, spaces around '+') either behaviour is accepted "
         "and the strings are counted as unspecified. Strings longer than the bound and items outside ITEMS are not explored.",
)

ITEMS = ["A", "B", "A B", "a.b", "c|d", "(e)", "x+y", "kg", "L/h", "%", "m\\", "R&D #1~"]      # one ends in a backslash; the last has the characters re.escape escapes besides the regex specials
FIXED_TOKENS = ["+", " ", "", "-", "1", "23", ".", "e"]

ACCEPT, UNSPEC, REJECT = "accept", "unspecified", "reject"


# ---------------------------------------------------------------------------------------------------
# reference: numeric language

def _numpart(p: str, non_negative: bool, int_only: bool) -> str:
    """Is p (no spaces) a decimal number under the restrictions?  -> ACCEPT / UNSPEC / REJECT"""
    if p == "":
        return REJECT
    sign = ""
    if p[0] in "+-":
        sign, p = p[0], p[1:]
    if p == "":
        return REJECT
    for ch in p:
        if ch not in "0123456789.":
            return REJECT
    dots = p.count(".")
    if dots > 1:
        return REJECT
    st = ACCEPT
    if dots == 1:
        if int_only:
            return REJECT
        a, b = p.split(".")
        if a == "" and b == "":
            return REJECT
        if a == "" or b == "":
            st = UNSPEC                      # "1." and ".5": the statement says "decimal numbers", docstring is silent
    if sign == "-" and non_negative:
        return REJECT
    if sign == "+":
        st = UNSPEC                          # "signed": an explicit plus is neither promised nor excluded
    return st


def num_oracle(s: str, units, non_negative: bool, int_only: bool):
    """-> (verdict, admissible (number, unit) group pairs).  Layout: [spaces] number [spaces] [unit] [spaces]."""
    best = REJECT
    groups = set()
    cands = list(units) + [None] if units else [None]
    body = s.rstrip(" ")
    trail = len(s) - len(body)
    for u in cands:
        if u is not None:
            if not body.endswith(u):
                continue
            rest = body[:len(body) - len(u)]
            core = rest.rstrip(" ")
            mid = len(rest) - len(core)
        else:
            core = body
            mid = 0
        num = core.lstrip(" ")
        lead = len(core) - len(num)
        if " " in num:
            continue
        st = _numpart(num, non_negative, int_only)
        if st == REJECT:
            continue
        if u is None and units:
            st = UNSPEC                      # "number with optional unit" vs "number_unit is only matched if units are given"
        if lead or trail or mid > 1:
            st = UNSPEC                      # whitespace beyond a single separating space is not documented
        groups.add((num, u))
        if st == ACCEPT:
            best = ACCEPT
        elif best != ACCEPT:
            best = UNSPEC
    return best, groups


def num_accept_class(s: str, units, nn: bool, io: bool) -> str:
    """Why is a string outside the language (for the signature of a wrong acceptance)."""
    if nn and num_oracle(s, units, False, io)[0] != REJECT:
        return "sign-when-non-negative"
    if io and num_oracle(s, units, nn, False)[0] != REJECT:
        return "decimal-when-int-only"
    if nn and io and num_oracle(s, units, False, False)[0] != REJECT:
        return "sign-and-decimal"
    if "e" in s:
        i = s.index("e")
        after = s[i + 1:]
        if _numpart(s[:i].strip(" "), False, False) != REJECT and (after[:1].isdigit() or (after[:1] in ("+", "-") and after[1:2].isdigit())):
            return "exponent"
    if s.strip(" ") == "":
        return "empty"
    for k in range(len(s) - 1, 0, -1):
        if num_oracle(s[:k], units, nn, io)[0] != REJECT:
            return "trailing-garbage"
    for k in range(1, len(s)):
        if num_oracle(s[k:], units, nn, io)[0] != REJECT:
            return "leading-garbage"
    return "other"


def _meta(s: str) -> str:
    return "".join(sorted({ch for ch in s if not ch.isalnum() and ch != " "}))


def num_reject_class(s: str, groups) -> str:
    num, u = sorted(groups, key=repr)[0]
    label = ("negative-" if num.startswith("-") else "") + ("decimal" if "." in num else "integer")
    if u is not None:
        label += "+space+unit" if (" " + u) in s else "+unit"
        if _meta(u):
            label += f"({_meta(u)})"
    return label


# ---------------------------------------------------------------------------------------------------
# reference: categorical language

def _segmentations(s: str, opts, relaxed: bool, limit: int = 50):
    """All ways to read s as  opt ('+' opt)*  with opt in opts; relaxed also allows spaces around options."""
    out = []
    n = len(s)

    def skip(pos):
        while relaxed and pos < n and s[pos] == " ":
            pos += 1
        return pos

    def rec(pos, used):
        if len(out) >= limit:
            return
        pos = skip(pos)
        for o in opts:
            if s.startswith(o, pos):
                end = skip(pos + len(o))
                if end == n:
                    out.append(used + [o])
                elif s[end] == "+":
                    rec(end + 1, used + [o])
    rec(0, [])
    return out


def cat_oracle(s: str, excl, add) -> str:
    if s in excl:
        return ACCEPT
    strict = _segmentations(s, add, False)
    if any(len(set(seg)) == len(seg) for seg in strict):
        return ACCEPT
    if strict:
        return UNSPEC                        # only readable with a repeated option: docstring is silent on repeats
    if s.strip(" ") in excl and s.strip(" ") != "":
        return UNSPEC                        # surrounding whitespace
    if _segmentations(s, add, True):
        return UNSPEC                        # spaces around options / '+'
    return REJECT


def cat_accept_class(s: str, excl, add) -> str:
    s = s.strip(" ")                      # surrounding spaces are unspecified, they do not change the class
    if s == "":
        return "empty"
    toks = sorted(set(excl) | set(add))
    # fewest-token reading of s over options and '+'
    best: dict[int, list[str]] = {0: []}
    for pos in range(len(s)):
        if pos not in best:
            continue
        for t in toks + ["+"]:
            if s.startswith(t, pos):
                cand = best[pos] + [t]
                e = pos + len(t)
                if e not in best or len(cand) < len(best[e]):
                    best[e] = cand
    seq = best.get(len(s))
    if seq is None:
        return "other"
    kinds = ["+" if t == "+" else ("X" if t in excl and t not in add else "O") for t in seq]
    for a, b in zip(kinds, kinds[1:]):
        if a == "+" and b == "+":
            return "double-plus"
    if kinds[0] == "+":
        return "leading-plus"
    for a, b in zip(kinds, kinds[1:]):
        if a != "+" and b != "+":
            return "concatenated"
    if kinds[-1] == "+":
        return "trailing-plus"
    if "X" in kinds:
        return "exclusive-in-list"
    return "other"


def cat_reject_class(s: str, excl, add) -> str:
    if s in excl:
        label, used = "exclusive", [s]
    else:
        used = [seg for seg in _segmentations(s, add, False) if len(set(seg)) == len(seg)][0]
        label = "additive-single" if len(used) == 1 else "additive-list"
    m = "".join(sorted({ch for o in used for ch in _meta(o)}))
    return label + (f"({m})" if m else "")


# ---------------------------------------------------------------------------------------------------
# implementation under test

def build_parser(spec) -> RegexNamedArgumentParser:
    if spec[0] == "num":
        _, units, nn, io = spec
        rx = RegexNumber(units=list(units) if units is not None else None, non_negative=nn, int_only=io)
    elif spec[0] == "numopt":
        _, units, nn, io = spec
        rx = RegexNumberOptional(units=list(units) if units is not None else None, non_negative=nn, int_only=io)
    else:
        _, excl, add = spec
        rx = RegexCategorical(exclusive_options=list(excl) if excl else None, additive_options=list(add) if add else None)
    p = RegexNamedArgumentParser.deserialize(RegexNamedArgumentParser(rx, "cmd").serialize(), "cmd")
    assert p is not None and p.regex == rx
    return p


def spec_items(spec):
    if spec[0] in ("num", "numopt"):
        return list(spec[1] or [])
    return list(spec[1]) + list(spec[2])


def spec_str(spec) -> str:
    if spec[0] == "numopt":
        return f"RegexNumberOptional(units={list(spec[1]) if spec[1] is not None else None}, non_negative={spec[2]}, int_only={spec[3]})"
    if spec[0] == "num":
        return f"RegexNumber(units={list(spec[1]) if spec[1] is not None else None}, non_negative={spec[2]}, int_only={spec[3]})"
    return (f"RegexCategorical(exclusive_options={list(spec[1]) if spec[1] else None}, "
            f"additive_options={list(spec[2]) if spec[2] else None})")


def candidate_strings(spec, max_tokens: int) -> list[str]:
    toks = sorted(set(spec_items(spec))) + FIXED_TOKENS      # "" is a token: length <= L == length exactly L
    out = {"".join(t) for t in itertools.product(toks, repeat=max_tokens)}
    return sorted(out, key=lambda x: (len(x), x))


def check_pair(spec, parser, s: str):
    """-> (verdict, impl_accepts, [(sig, what)])"""
    gd = parser.parse(s)
    valid = parser.validate(s)
    out = []
    if valid != (gd is not None):
        out.append(("C22:parse-validate-disagree", f"{spec_str(spec)}: validate({s!r})={valid} but parse -> {gd}"))
    if spec[0] == "numopt" and s.strip(" ") == "":
        # the optional number: the empty argument is in the language and carries no number
        if gd is None:
            out.append(("C22:optional-number-rejects:empty", f"{spec_str(spec)} rejects the empty argument {s!r}"))
        elif gd.get("number") not in (None, ""):
            out.append(("C22:optional-number-groups:empty", f"{spec_str(spec)} on {s!r} delivers {gd}"))
        return ACCEPT, gd is not None, out
    if spec[0] in ("num", "numopt"):
        _, units, nn, io = spec
        verdict, groups = num_oracle(s, units, nn, io)
        if verdict == REJECT and gd is not None:
            cls = num_accept_class(s, units, nn, io)
            out.append((f"C22:numeric-accepts:{cls}", f"{spec_str(spec)} accepts {s!r} (groups {gd}); not in the documented language"))
        elif verdict == ACCEPT and gd is None:
            cls = num_reject_class(s, groups)
            out.append((f"C22:numeric-rejects:{cls}", f"{spec_str(spec)} rejects {s!r}; documented language contains it as {sorted(groups, key=repr)}"))
        elif gd is not None:
            got = (gd.get("number"), gd.get("number_unit"))
            if not units and "number_unit" in gd:
                out.append(("C22:numeric-groups:unit-group-without-units",
                            f"{spec_str(spec)} on {s!r} delivers a number_unit group although no units were declared: {gd}"))
            elif got not in groups:
                which = "number" if got[0] not in {g[0] for g in groups} else "unit"
                out.append((f"C22:numeric-groups:{which}",
                            f"{spec_str(spec)} on {s!r} delivers {gd}; the string reads as {sorted(groups, key=repr)}"))
    else:
        _, excl, add = spec
        verdict = cat_oracle(s, excl, add)
        if verdict == REJECT and gd is not None:
            cls = cat_accept_class(s, excl, add)
            out.append((f"C22:categorical-accepts:{cls}", f"{spec_str(spec)} accepts {s!r} (groups {gd}); not in the documented language"))
        elif verdict == ACCEPT and gd is None:
            cls = cat_reject_class(s, excl, add)
            out.append((f"C22:categorical-rejects:{cls}", f"{spec_str(spec)} rejects {s!r}, which is in the documented language"))
        elif verdict == ACCEPT and gd.get("option") != s:
            out.append(("C22:categorical-groups:option", f"{spec_str(spec)} on {s!r} delivers {gd}"))
    return verdict, gd is not None, out


def check_introspection(spec, parser, trace: bool = False):
    if spec[0] in ("num", "numopt"):
        want = {"units": list(spec[1] or []), "exclusive": [], "additive": []}
    else:
        want = {"units": [], "exclusive": list(spec[1]), "additive": list(spec[2])}
    fns = {"units": parser.get_units, "exclusive": parser.get_exclusive_options, "additive": parser.get_additive_options}
    out = []
    for which in ("units", "exclusive", "additive"):
        try:
            got = fns[which]()
        except Exception as ex:            # introspection is called from hover/completion; it must not raise
            if trace:
                print(f"  get_{which} raised {type(ex).__name__}: {ex}")
            out.append((f"C22:introspection:{which}:raise:{type(ex).__name__}",
                        f"{spec_str(spec)}: introspection of {which} raised {type(ex).__name__}({ex}); regex {parser.regex!r}"))
            continue
        if trace:
            print(f"  introspected {which}: {got}   built from: {want[which]}")
        if got != want[which]:
            lost = [o for o in want[which] if o not in got]
            m = "".join(sorted({ch for o in lost for ch in _meta(o)}))
            if not m:
                m = "spurious" if not want[which] else ("order" if sorted(got) == sorted(want[which]) else "other")
            out.append((f"C22:introspection:{which}:{m}",
                        f"{spec_str(spec)}: introspected {which} = {got}, built from {want[which]}; regex {parser.regex!r}"))
    return out


# ---------------------------------------------------------------------------------------------------
# enumeration

def item_lists(k_max: int):
    out = []
    for k in range(1, k_max + 1):
        out += list(itertools.permutations(ITEMS, k))
    return out


def all_specs(k_max: int):
    lists = item_lists(k_max)
    specs = []
    for units in [None] + lists:
        for nn in (False, True):
            for io in (False, True):
                specs.append(("num", units, nn, io))
                if units is None or len(units) <= 1:
                    specs.append(("numopt", units, nn, io))
    for lst in lists:
        for cut in range(len(lst) + 1):
            specs.append(("cat", lst[:cut], lst[cut:]))
    specs.sort(key=lambda sp: (len(spec_items(sp)), 0 if sp[0] == "num" else 1 if sp[0] == "numopt" else 2))     # simplest first (stable)
    return specs


def work(item):
    spec, max_tokens = item
    parser = build_parser(spec)
    st = {"pairs": 0, ACCEPT: 0, UNSPEC: 0, REJECT: 0, "unspec_accepted": 0, "impl_accepts": 0, "near_miss": 0}
    viols: dict[str, list] = {}
    for sig, what in check_introspection(spec, parser):
        viols[sig] = [1, what, payload(spec, None), 0]
    items = spec_items(spec)
    for s in candidate_strings(spec, max_tokens):
        verdict, acc, out = check_pair(spec, parser, s)
        st["pairs"] += 1
        st[verdict] += 1
        st["impl_accepts"] += 1 if acc else 0
        if verdict == UNSPEC and acc:
            st["unspec_accepted"] += 1
        if verdict == REJECT and (any(o in s for o in items) or any(ch.isdigit() for ch in s)):
            st["near_miss"] += 1
        for sig, what in out:
            if sig in viols:
                viols[sig][0] += 1
            else:
                viols[sig] = [1, what, payload(spec, s), len(s)]
    return st, viols


def payload(spec, s):
    d = {"kind": spec[0], "string": s}
    if spec[0] in ("num", "numopt"):
        d.update(units=list(spec[1]) if spec[1] is not None else None, non_negative=spec[2], int_only=spec[3])
    else:
        d.update(exclusive=list(spec[1]), additive=list(spec[2]))
    return d


def spec_from_payload(d):
    if d["kind"] in ("num", "numopt"):
        return (d["kind"], tuple(d["units"]) if d["units"] is not None else None, d["non_negative"], d["int_only"])
    return ("cat", tuple(d["exclusive"]), tuple(d["additive"]))


def _observe(item):
    st, viols = work(item)
    return st, {k: v[:2] for k, v in viols.items()}


# ---------------------------------------------------------------------------------------------------
# the lists the UI gets: command description and entry units of a process value, built by the UOD from the pattern

UOD_TAG_UNITS = ("L/h", "s", "kg", None)
UOD_UNIT_LISTS = (("L/min", "L/h", "%"), ("CV", "s"), ("L",), ("kg", "g"), ("L/h",), ("%", "L/h", "s"))


def uod_lists(tag_unit, units, optional=False):
    """-> (units in the command description, entry units of the process value) for a command with a RegexNumber pattern that is the
    entry command of a process value whose tag has `tag_unit`"""
    from openpectus.lang.exec.regex import RegexNumber, RegexNumberOptional
    from openpectus.lang.exec.tags import Tag, create_system_tags
    from openpectus.lang.exec.uod import UodBuilder, UodCommand

    def ex(cmd: UodCommand, number, number_unit=None, **kw):
        cmd.set_complete()
    rx = (RegexNumberOptional if optional else RegexNumber)(units=list(units))
    uod = (UodBuilder().with_instrument("i").with_author("a", "a@b.c").with_filename(__file__).with_hardware_none().with_location("l")
           .with_tag(Tag("PV", value=1.0, unit=tag_unit))
           .with_command_regex_arguments("PV", rx, ex)
           .with_process_value_entry("PV")).build()
    uod.system_tags = create_system_tags()
    uod.validate_configuration()
    uod.build_commands()
    reading = [r for r in uod.readings if r.tag_name == "PV"][0]
    return list(uod.command_descriptions["PV"].argument_valid_units), list(reading.valid_value_units or [])


def check_uod_lists(tag_unit, units, optional):
    import logging
    logging.disable(logging.CRITICAL)
    out = []
    try:
        desc, entry = uod_lists(tag_unit, units, optional)
    except BaseException as e:          # noqa: BLE001 (validate_configuration ends with SystemExit on a rejected UOD)
        return [(f"C22:uod-lists:raise:{type(e).__name__}", f"UOD with tag unit {tag_unit!r} and pattern units {list(units)} could not be built: {e}")]
    kind = "RegexNumberOptional" if optional else "RegexNumber"
    if desc != list(units):
        out.append((f"C22:uod-lists:command-description:tag-unit={tag_unit}", f"{kind}(units={list(units)}) as entry command of a process value with "
                    f"tag unit {tag_unit!r}: the command description lists units {desc}"))
    if entry != list(units):
        out.append((f"C22:uod-lists:entry-units:tag-unit={tag_unit}", f"{kind}(units={list(units)}) as entry command of a process value with "
                    f"tag unit {tag_unit!r}: the process value's entry units are {entry}"))
    return out


def run(ctx):
    n_uod = 0
    for tu in UOD_TAG_UNITS:
        for units in UOD_UNIT_LISTS:
            for optional in (False,) if len(units) > 1 else (False, True):
                n_uod += 1
                for sig, what in check_uod_lists(tu, units, optional):
                    ctx.violation(sig, what, {"uod": [tu, list(units), optional]})
    k_max, max_tokens = (2, 3) if ctx.quick else (3, 4)
    specs = all_specs(k_max)
    items = [(sp, max_tokens) for sp in specs]
    ctx.prove_deterministic(_observe, [(("num", ("kg", "L/h"), True, False), 3), (("cat", ("A",), ("B", "c|d")), 3),
                                       (("cat", (), ("A",)), 3)])
    results = ctx.pmap(work, items)
    tot = {"pairs": 0, ACCEPT: 0, UNSPEC: 0, REJECT: 0, "unspec_accepted": 0, "impl_accepts": 0, "near_miss": 0}
    per_kind = {"num": dict(tot), "numopt": dict(tot), "cat": dict(tot)}
    allv = []
    for idx, ((spec, _), (st, viols)) in enumerate(zip(items, results)):
        for k in tot:
            tot[k] += st[k]
            per_kind[spec[0]][k] += st[k]
        if st[ACCEPT] == 0:
            raise HarnessError(f"no candidate string is in the documented language of {spec_str(spec)}")
        for sig, (cnt, what, rp, size) in viols.items():
            allv.append((len(spec_items(spec)), size, idx, sig, cnt, what, rp))
    allv.sort(key=lambda t: t[:4])
    per_sig: dict[str, int] = {}
    for _, _, _, sig, cnt, what, rp in allv:
        per_sig[sig] = per_sig.get(sig, 0) + cnt
        ctx.violation(sig, what, rp)
    n_lists = len(item_lists(k_max))
    expected_specs = (1 + n_lists) * 4 + sum(len(lst) + 1 for lst in item_lists(k_max))
    exhaustive = len(results) == expected_specs and all(r is not None for r in results)
    if tot[REJECT] == 0 or tot[ACCEPT] == 0 or tot["near_miss"] == 0:
        raise HarnessError("vacuous: a verdict class was never produced")
    ctx.note(f"[C22] K={k_max} L={max_tokens} patterns={len(specs)} (numeric {sum(1 for s in specs if s[0] == 'num')}, categorical "
             f"{sum(1 for s in specs if s[0] == 'cat')}) pairs={tot['pairs']} in-language={tot[ACCEPT]} unspecified={tot[UNSPEC]} "
             f"out-of-language={tot[REJECT]} (near-miss {tot['near_miss']}) implementation-accepts={tot['impl_accepts']}")
    samples = [payload(("num", ("kg",), True, False), "1 kg"), payload(("num", ("L/h", "%"), False, True), "-23%"),
               payload(("cat", ("A",), ("B", "x+y")), "B+x+y"), payload(("cat", (), ("A", "B")), "AB")]
    ctx.coverage.update(uod_built_unit_list_cases=n_uod)
    ctx.coverage.update(
        evaluations=tot["pairs"], distinct_nontrivial=tot[ACCEPT],
        rule="every (pattern, candidate string) pair: patterns = all lists of <= max_items distinct ITEMS as units (x non_negative x "
             "int_only, plus units=None) and split at every point into (exclusive, additive); strings = all concatenations of "
             "<= max_tokens tokens from the pattern's items and the fixed tokens, de-duplicated per pattern; non-trivial = the "
             "reference puts the string inside the documented language (distinct pairs by construction); near_miss counts "
             "out-of-language strings that contain an item or a digit",
        samples=samples, exhaustive=exhaustive, max_items=k_max, max_tokens=max_tokens, items=ITEMS, fixed_tokens=FIXED_TOKENS,
        patterns=len(specs), patterns_numeric=sum(1 for s in specs if s[0] == "num"),
        patterns_categorical=sum(1 for s in specs if s[0] == "cat"), introspection_checks=3 * len(specs),
        in_language=tot[ACCEPT], unspecified=tot[UNSPEC], unspecified_accepted_by_implementation=tot["unspec_accepted"],
        out_of_language=tot[REJECT], near_miss=tot["near_miss"], implementation_accepts=tot["impl_accepts"],
        per_kind=per_kind, violations_by_signature=dict(sorted(per_sig.items())),
        explanation="exhaustive within the bounds: one worker result per generated pattern, each over its complete candidate set",
    )
    ctx.assumptions += [
        "numeric reference: [-]digits[.digits], then no or one space, then exactly one declared unit; asserted both ways",
        "unspecified (either behaviour accepted): leading/trailing spaces, >1 space before the unit, '1.' and '.5', leading '+', "
        "no unit although units are declared, repeated additive options, spaces around options or '+'",
        "exponent notation ('1e23') is outside 'decimal numbers'",
        "categorical reference: the string equals one exclusive option, or reads as additive options joined by single '+' with no "
        "option repeated; options containing '+' are handled by trying every reading",
        "exclusive and additive lists are disjoint and together hold at most max_items items",
    ]


def replay(data):
    if "uod" in data:
        tu, units, optional = data["uod"]
        out = check_uod_lists(tu, tuple(units), optional)
        print("tag unit", tu, "pattern units", units, "optional", optional, "->", out or "as declared")
        return out
    spec = spec_from_payload(data)
    parser = build_parser(spec)
    print(spec_str(spec))
    print(f"  regex: {parser.regex!r}")
    out = []
    if data["string"] is None:
        out += check_introspection(spec, parser, trace=True)
    else:
        s = data["string"]
        verdict, acc, v = check_pair(spec, parser, s)
        print(f"  string: {s!r}")
        print(f"  implementation: parse -> {parser.parse(s)}   validate -> {parser.validate(s)}")
        if spec[0] == "num":
            print(f"  reference: {verdict}; admissible (number, unit) readings: {sorted(num_oracle(s, spec[1], spec[2], spec[3])[1], key=repr)}")
        else:
            print(f"  reference: {verdict}; strict readings as additive list: {_segmentations(s, spec[2], False)}; "
                  f"exclusive match: {s in spec[1]}")
        out += v
    return out
