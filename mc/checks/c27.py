"""C27 — Engine messages survive disconnects without loss or duplication.

Stateless bounded-exhaustive exploration of the REAL `EngineRunner` (with the real `EventEmitter` hand-off through
`asyncio.run_coroutine_threadsafe` and the real `EngineDispatcher.assign_sequence_number`) on `mc.vloop.VirtualLoop`.
The environment (mc/c27_env.py, DESIGN.md A.3) is a link that is up or down, a FIFO of in-flight sends whose
acknowledgement the explorer completes ok or lost, and a script of engine events.

An execution is driven by a *scenario* (a plan: engine events with a trigger state, the number of sends in flight when
the link drops, the outage length, the reconnect back-off) plus a vector of *deviations* from the default schedule
(mc.explore.choice_vectors).  At every quiescent point of the exploration window the alternatives are: let the earliest
timer overtake the oldest acknowledgement | deliver the next scripted engine event now | link down now (all in-flight
sends fail) | link up now | lose the oldest acknowledgement | postpone the planned step.  All scenarios x all deviation
vectors up to the bound are executed; every execution runs the real runner until it is caught up, undisturbed, and every
timer that was pending when it became caught up has fired (a surviving 5 s buffering loop shows itself), or to the 40 s horizon.
"""
from __future__ import annotations

from mc import explore
from mc.core import HarnessError
from mc.c27_env import World, BUFFERING, CAUGHT_UP

ID = "C27"
LEVEL = "model_checking"
META = dict(
    technique="deviation-bounded exhaustive schedule/fault exploration of the real EngineRunner on a virtual asyncio loop",
    text="Every scenario (quick 14, thorough 132: engine events run start / tag update / run stop placed at each recovery state Failed, "
         "Disconnected, Reconnecting, CatchingUp, Reconnected; link loss with 0/1/2/3 sends in flight; 1 s and 6 s outages; back-off 0.5/9.9) "
         "is executed with every vector of up to 2 deviations (thorough: 3 for three base scenarios) - timer before ack, event now, event "
         "together with the default step, link down/up now (second outage), ack lost, planned step postponed - on the real runner, emitter hand-off and sequence "
         "numbering; the complete observation (posts, buffering, sends, acks, state changes) is compared with a reference reading of "
         "the statement. Model checking fits because the runner's behaviour depends only on the interleaving of its tasks with link "
         "and engine events, which the virtual loop makes enumerable and repeatable.",
    note="Reading of 'message the engine produces': a message object that the runner accepted, i.e. that was handed to "
         "EngineRunner._post_async or EngineRunner._buffer_message. Periodic state the runner does not build while disconnected "
         "(ControlStateMsg and RunLogMsg are only built by the steady-state loop; tag updates and method state are sampled every 5 s by "
         "buffer_messages) is not a produced message until the runner builds it; queued tag updates stay in the (stub) builder's "
         "queue and are not counted. 'Delivered' = a send whose acknowledgement succeeded; an attempt whose acknowledgement was lost "
         "is a failed attempt and is not counted as having reached the aggregator. 'Reports it has caught up' = state Connected or "
         "Reconnected. Trusted: mc/vloop.py (FIFO ready queue like asyncio), the link model (sends on one link are FIFO, a link loss "
         "fails every in-flight send, connect fails iff the link is down and does not suspend), constant back-off per scenario, "
         "stub message builder with real message classes. Same schedule twice gives identical observations (checked in-process and "
         "across processes).",
)

HORIZON = 40.0
SETTLE_EXTRA = 0.35   # an execution ends when the runner is caught up, every timer that was pending 0.7 s after it became
                      # caught up has fired (this covers a surviving 5 s buffering loop or 9.9 s back-off sleep) and one more
                      # steady-state cycle (0.3 s) has passed
TAIL = 0.7            # deviations are offered until the runner has been caught up this long (two steady-state cycles)
MAX_EPISODES = 2
MAX_EVENTS_PER_EPISODE = 2
DOC_EDGES = {("Started", "Connected"), ("Started", "Failed"), ("Connected", "Failed"), ("Failed", "Disconnected"),
             ("Disconnected", "Reconnecting"), ("Disconnected", "Failed"), ("Reconnecting", "CatchingUp"),
             ("Reconnecting", "Failed"), ("CatchingUp", "Reconnected"), ("CatchingUp", "Failed"), ("Reconnected", "Failed")}
RUN_DATA = ("TagsUpdatedMsg", "RunStartedMsg", "RunLogMsg")


# ---------------------------------------------------------------------------------------------------------------------
# one execution

def _trigger(step, w, t, episodes, t_down, window):
    st = w.runner.state
    if step[0] == "down":
        return window and st in CAUGHT_UP and w.link_up and len(w.inflight) == step[1]
    trig = step[2]
    if trig == "C":
        return t >= 0.3 and st == "Connected" and not w.inflight
    if episodes == 0:
        return False
    if st in CAUGHT_UP and w.link_up and not w.inflight:      # its state was skipped: deliver once caught up again
        return True
    if trig == "F":
        return st == "Failed"
    if trig == "D":
        return st == "Disconnected"
    if trig == "D5":
        return st in ("Failed", "Disconnected") and t >= t_down + 5.2
    if trig == "R":
        return st == "Reconnecting"
    if trig == "U":
        return st == "CatchingUp"
    if trig == "U2":                     # catching up, the batch of buffered messages is on the wire
        return st == "CatchingUp" and len(w.inflight) >= 2
    if trig == "X":
        return st == "Reconnected"
    raise ValueError(trig)


def execute(scn, ch, trace=None) -> dict:
    """Run one execution of scenario scn under chooser ch.  Returns the observation (plain data)."""
    plan = scn["plan"]
    outage = scn["outage"]
    horizon = scn["horizon"]
    w = World(scn["backoff"])
    try:
        w.settle()
        pi = 0
        episodes = 0
        ev_in_episode = 0
        ev_while_down = 0
        t_down = None
        stable_since = None
        settle_until = None
        settled = False
        window = False
        stranded = None
        points = 0
        decisions = 0
        loop, runner = w.loop, w.runner
        while True:
            t = loop.time()
            st = runner.state
            if t >= horizon:
                break
            if not window and t >= 0.3 and st == "Connected" and (pi >= len(plan) or plan[pi][0] == "down" or plan[pi][2] != "C"):
                window = True
            planned = None
            if pi < len(plan):
                if _trigger(plan[pi], w, t, episodes, t_down, window):
                    planned = plan[pi][0]
            if planned is None and not w.link_up and t >= t_down + outage:
                planned = "up"
            calm = st in CAUGHT_UP and w.link_up and pi == len(plan)
            if calm:
                if runner._message_buffer and stranded is None:
                    stranded = (round(t, 3), st, w.buffer_mids())
                if stable_since is None:
                    stable_since = t
                elif t - stable_since >= TAIL:
                    if settle_until is None:
                        # every timer pending now (e.g. a 5 s buffering loop or a 9.9 s back-off sleep that is still alive)
                        # gets to fire, plus one more steady-state cycle
                        settle_until = max(loop.pending_timers(), default=t) + SETTLE_EXTRA
                    elif t > settle_until and not w.inflight:
                        settled = True
                        break
            else:
                stable_since = None
                settle_until = None
                if st in CAUGHT_UP and episodes and runner._message_buffer and stranded is None:
                    stranded = (round(t, 3), st, w.buffer_mids())
            ordinary = "ack" if w.inflight else "timer"
            action = planned or ordinary
            points += 1
            if window and not (stable_since is not None and t - stable_since >= TAIL):
                alts = []
                if planned:
                    alts.append(ordinary)
                if ordinary == "ack" and action != "timer":
                    alts.append("timer")
                if pi < len(plan) and plan[pi][0] == "ev" and action != "ev" and ev_in_episode < MAX_EVENTS_PER_EPISODE:
                    alts.append("ev")
                    if plan[pi][1] != "tag":
                        alts.append("ev&")      # hand-over from the engine thread lands while the default step's callbacks are queued
                if w.link_up and episodes < MAX_EPISODES and action != "down":
                    alts.append("down")
                if not w.link_up and action != "up":
                    alts.append("up")
                if w.inflight:
                    alts.append("lost")
                if alts:
                    decisions += 1
                    c = ch.pick(1 + len(alts), action)
                    if c:
                        action = alts[c - 1]
            if trace is not None:
                trace.append((round(t, 3), st, action if not action.startswith("ev") else action + " " + plan[pi][1], len(w.inflight), len(runner._message_buffer),
                              "up" if w.link_up else "down"))
            with_event = action == "ev&"
            if with_event:
                action = planned or ordinary
                if action == "ack":
                    w.ack(True, settle=False)
                elif action == "timer":
                    w.fire_timer(settle=False)
                elif action == "up":
                    w.set_link(True, settle=False)
                elif action == "down":
                    if pi < len(plan) and plan[pi][0] == "down":
                        raise HarnessError("C27: ev& with a pending planned down")
                    w.set_link(False, settle=False)
                w.event(plan[pi][1])
                pi += 1
                ev_in_episode += 1
                if not w.link_up:
                    ev_while_down += 1
            elif action == "ack":
                w.ack(True)
            elif action == "lost":
                w.ack(False)
            elif action == "timer":
                if w.fire_timer() is None:
                    raise HarnessError("C27: no timer pending (the runner's tick timer died)")
            elif action == "ev":
                w.event(plan[pi][1])
                pi += 1
                ev_in_episode += 1
                if not w.link_up:
                    ev_while_down += 1
            elif action == "down":
                if pi < len(plan) and plan[pi][0] == "down":
                    pi += 1
                episodes += 1
                ev_in_episode = 0
                t_down = t
                w.set_link(False)
            elif action == "up":
                w.set_link(True)
            else:
                raise HarnessError(f"C27: unknown action {action}")
        b = w.builder
        obs = {
            "log": list(w.log), "kinds": list(b.kinds), "run_ids": list(b.run_ids),
            "seqs": [m.sequence_number for m in b.msgs],
            "final_state": runner.state, "final_buffer": w.buffer_mids(), "final_inflight": [x[0] for x in w.inflight],
            "link_up": w.link_up, "settled": settled,
            "stranded": stranded, "t_end": round(loop.time(), 3), "episodes": episodes, "ev_while_down": ev_while_down,
            "plan_done": pi == len(plan), "points": points, "decisions": decisions, "steps": loop.steps,
        }
    finally:
        errs = w.close()
    obs["task_errors"] = errs
    obs["cancel_cycles"] = getattr(loop, "cancel_cycles", 0)
    return obs


# ---------------------------------------------------------------------------------------------------------------------
# reference oracle on one observation

def check_exec(obs) -> list[tuple[str, str]]:
    log, kinds, run_ids = obs["log"], obs["kinds"], obs["run_ids"]
    out = []
    if obs.get("cancel_cycles"):
        out.append(("C27:tasks-wait-for-each-other-in-a-cycle",
                    "at the end of the execution the runner's unfinished tasks form a wait cycle (a task cancelled the batch it is "
                    "itself part of): cancelling them does not terminate"))
    sends: dict[int, list] = {}        # mid -> [[send index, attempt, outcome]]
    by_att = {}
    fails: dict[int, list] = {}        # mid -> [log index of a failed attempt]
    buffered: dict[int, list] = {}     # mid -> [(log index, state)]
    posts: dict[int, list] = {}        # mid -> [(log index, state)]
    returned: dict[int, int] = {}      # mid -> number of _post_async calls that returned
    raised: dict[int, list] = {}       # mid -> exception type names that escaped _post_async
    seq_of: dict[int, set] = {}
    first_seq_event = {}
    for i, e in enumerate(log):
        k = e[0]
        if k == "send":
            rec = [i, e[3], "pending"]
            sends.setdefault(e[1], []).append(rec)
            by_att[e[3]] = rec
            seq_of.setdefault(e[1], set()).add(e[2])
        elif k == "ack":
            by_att[e[2]][2] = e[3]
            if e[3] == "lost":
                fails.setdefault(e[1], []).append(i)
        elif k == "sendfail":
            fails.setdefault(e[1], []).append(i)
            seq_of.setdefault(e[1], set()).add(e[2])
        elif k == "buffer":
            buffered.setdefault(e[1], []).append((i, e[2]))
            seq_of.setdefault(e[1], set()).add(e[3])
        elif k == "post":
            posts.setdefault(e[1], []).append((i, e[2]))
        elif k == "postret":
            returned[e[1]] = returned.get(e[1], 0) + 1
        elif k == "postexc":
            raised.setdefault(e[1], []).append(e[2])
        elif k == "state":
            if e[1] != e[2] and (e[1], e[2]) not in DOC_EDGES:
                out.append((f"C27:undocumented-transition:{e[1]}->{e[2]}",
                            f"runner changed state {e[1]} -> {e[2]}, which is not an edge of the documented recovery state diagram"))

    def name(m):
        return f"{kinds[m]}#{m}" + (f"(run {run_ids[m]})" if run_ids[m] else "")

    def origin(m):
        """How the message got into the buffer: via _post_async in state S, or directly by the buffering loop."""
        b0 = buffered[m][0]
        ps = [p for p in posts.get(m, []) if p[0] < b0[0]]
        if not ps:
            return f"buffer-loop-in-{b0[1]}"
        return f"posted-in-{ps[-1][1]}"

    # one sequence number per message object, distinct across objects
    for m in sorted(seq_of):
        if len(seq_of[m]) > 1 or -1 in seq_of[m]:
            out.append(("C27:sequence-number-changed", f"{name(m)} was sent/buffered with sequence numbers {sorted(seq_of[m])}"))
    owner = {}
    for m, s in enumerate(obs["seqs"]):
        if s == -1:
            continue
        if s in owner:
            out.append(("C27:sequence-number-shared", f"{name(owner[s])} and {name(m)} both carry sequence number {s}"))
        owner[s] = m

    # delivered more than once only if an earlier attempt failed
    for m in sorted(sends):
        ss = sends[m]
        for j in range(1, len(ss)):
            if not any(f < ss[j][0] for f in fails.get(m, [])):
                earlier = ",".join(x[2] for x in ss[:j])
                out.append((f"C27:duplicate-without-failed-attempt:earlier-{earlier}",
                            f"{name(m)} was put on the wire again (attempt {ss[j][1]}) although no earlier attempt had failed "
                            f"(earlier attempts: {earlier})"))
                break

    # nothing stranded once caught up
    if obs["stranded"]:
        t, st, mids = obs["stranded"]
        m = mids[0]
        how = origin(m) if m in buffered else "unknown"
        out.append((f"C27:stranded-in-buffer:{st}:{how}",
                    f"at t={t} the runner is in state {st} (caught up) with {len(mids)} message(s) in its buffer, first {name(m)} "
                    f"[{how}]; at the end (t={obs['t_end']}, state {obs['final_state']}) the buffer holds "
                    f"{[name(x) for x in obs['final_buffer'][:6]]}"))

    caught_up_end = obs["final_state"] in CAUGHT_UP and obs["link_up"] and obs["settled"]
    # every message buffered / whose attempt failed is delivered (ok) afterwards
    if caught_up_end:
        must: dict[int, int] = {}
        for m, bs in buffered.items():
            must[m] = max(must.get(m, -1), bs[-1][0])
        for m, fs in fails.items():
            must[m] = max(must.get(m, -1), fs[-1])
        for m in sorted(must):
            if any(s[0] > must[m] and s[2] == "ok" for s in sends.get(m, [])):
                continue
            if m in obs["final_buffer"]:
                if not obs["stranded"]:
                    out.append(("C27:stranded-in-buffer:at-end", f"{name(m)} is still buffered at the end in state {obs['final_state']}"))
                continue
            if m in buffered and buffered[m][-1][0] >= must[m]:
                how = "buffered-then-dropped:" + origin(m)
            else:
                if raised.get(m):
                    fate = "post-raised-" + raised[m][-1]
                elif returned.get(m, 0) < len(posts.get(m, [])):
                    fate = "post-never-returned"
                else:
                    fate = "post-returned"
                how = "failed-send-never-buffered:" + fate
            later = [s[2] for s in sends.get(m, []) if s[0] > must[m]]
            out.append((f"C27:lost:{how}",
                        f"{name(m)} was buffered / its send failed at log index {must[m]} and it was never delivered afterwards "
                        f"(later attempts: {later}); the runner ended caught up in state {obs['final_state']} with buffer "
                        f"{obs['final_buffer'][:6]}"))

    # buffered run data reaches the aggregator before that run's stop notification
    for s in range(len(kinds)):
        if kinds[s] != "RunStoppedMsg":
            continue
        oks = [x for x in sends.get(s, []) if x[2] == "ok"]
        if not oks:
            continue
        p_stop = oks[0][0]
        run = run_ids[s]
        for d in range(s):
            if run_ids[d] != run or kinds[d] not in RUN_DATA or d not in buffered or buffered[d][0][0] > p_stop:
                continue
            d_ok = [x[0] for x in sends.get(d, []) if x[2] == "ok"]
            if d_ok and d_ok[0] < p_stop:
                continue
            sp = posts.get(s, [])
            stop_state = sp[0][1] if sp else "?"            # state when the engine handed the stop notification over
            posted = "stop-posted-" + ("while-buffering" if stop_state in BUFFERING else
                                       "while-caught-up" if stop_state in CAUGHT_UP else "in-" + stop_state)
            bs = [x[0] for x in buffered.get(s, []) if x[0] < p_stop]
            bd = [x[0] for x in buffered[d] if x[0] < p_stop]
            d_tried = [x for x in sends.get(d, []) if bd[0] < x[0] < p_stop]
            if not bs:
                # the delivered stop never went through the buffer although the data message was waiting in it
                how = f"stop-bypassed-buffer:{posted}"
            elif bd[-1] < bs[-1] and d_tried:
                # both were buffered in production order and sent from the buffer; the data message's attempt failed by itself
                how = "data-attempt-failed-requeued-behind-stop"
            else:
                # the stop got into the buffer ahead of the (older) data message
                how = f"requeued-out-of-order:{posted}"
            out.append((f"C27:stop-before-buffered-data:{how}",
                        f"{name(s)} was delivered (put on the wire at log index {p_stop}, acknowledged) before {name(d)} of the same run; "
                        f"the data message was buffered at log indices {[x[0] for x in buffered[d]]} ({origin(d)}), the stop at "
                        f"{[x[0] for x in buffered.get(s, [])]} (handed over in state {stop_state}); attempts of the data message: "
                        f"{[(x[0], x[2]) for x in sends.get(d, [])]}, of the stop: {[(x[0], x[2]) for x in sends.get(s, [])]}"))
            break
    return out


# ---------------------------------------------------------------------------------------------------------------------
# scenarios and exploration

def _scn(name, pre, k, during, outage, backoff, bound):
    plan = [("ev", e, "C") for e in pre] + [("down", k)] + [("ev", e, trig) for e, trig in during]
    # virtual-time horizon: two outages with failed reconnects need several back-off periods
    return {"name": name, "plan": plan, "outage": outage, "backoff": backoff, "bound": bound, "horizon": HORIZON if backoff < 1 else 90.0}


RUNNING = ["start:r1", "tag"]          # delivered in state Connected before the outage: a run is in progress, one tag update sent
OUTAGE_STATES = ("F", "D", "R", "U", "X")  # Failed, Disconnected, Reconnecting, CatchingUp, Reconnected (first quiescent point in it)


def scenarios(quick: bool) -> list[dict]:
    """Simplest first.  name: <pre>:<event>@<trigger state>,.../k<sends in flight when the link drops>."""
    deep = 2 if quick else 3
    out = [
        _scn("idle/k0", [], 0, [], 1.0, 0.5, deep),
        _scn("idle/k1", [], 1, [], 1.0, 0.5, 2),
        _scn("idle/k2", [], 2, [], 1.0, 0.5, deep),
        _scn("run:tag@D,stop@D/k0", RUNNING, 0, [("tag", "D"), ("stop", "D")], 1.0, 0.5, deep),
        _scn("run:tag@D,stop@D/k3", RUNNING, 3, [("tag", "D"), ("stop", "D")], 1.0, 0.5, 2),
        _scn("run:tag@F,stop@U/k0", RUNNING, 0, [("tag", "F"), ("stop", "U")], 1.0, 0.5, 2),
        _scn("run:tag@F,stop@U/k1", RUNNING, 1, [("tag", "F"), ("stop", "U")], 1.0, 0.5, 2),
        _scn("run:tag@F,stop@R/k0", RUNNING, 0, [("tag", "F"), ("stop", "R")], 1.0, 0.5, 2),
        _scn("run:tag@D,stop@X/k0", RUNNING, 0, [("tag", "D"), ("stop", "X")], 1.0, 0.5, 2),
        _scn("run:stop@U2/k1", RUNNING, 1, [("stop", "U2")], 1.0, 0.5, 2),
        _scn("idle:start@D,tag@D/k0", [], 0, [("start:r1", "D"), ("tag", "D")], 1.0, 0.5, 2),
        _scn("run:stop@D,start2@D/k0", RUNNING, 0, [("stop", "D"), ("start:r2", "D")], 1.0, 0.5, 2),
        # outage longer than the 5 s period of buffer_messages; slow and fast reconnect back-off
        _scn("run:tag@D5,stop@D5/k0/outage6/backoff9.9", RUNNING, 0, [("tag", "D5"), ("stop", "D5")], 6.0, 9.9, 2),
        _scn("run:tag@D,stop@U/k0/outage6/backoff0.5", RUNNING, 0, [("tag", "D"), ("stop", "U")], 6.0, 0.5, 2),
    ]
    if quick:
        return out
    have = {s["name"] for s in out}
    order = {x: i for i, x in enumerate(OUTAGE_STATES)}
    seqs = [(RUNNING, "run", ["tag", "stop"]), (RUNNING, "run", ["stop", "start:r2"]), (RUNNING, "run", ["stop"]), (RUNNING, "run", ["tag"]),
            ([], "idle", ["start:r1", "tag"]), ([], "idle", ["start:r1", "stop"]), ([], "idle", ["start:r1"])]
    for pre, pname, evs in seqs:
        trigs = [(a,) for a in OUTAGE_STATES] if len(evs) == 1 else \
                [(a, b) for a in OUTAGE_STATES for b in OUTAGE_STATES if order[a] <= order[b]]
        for tr in trigs:
            ks = (0,) if evs in (["stop", "start:r2"], ["start:r1", "stop"]) else (0, 3) if pre else (0, 2)
            for k in ks:
                during = list(zip(evs, tr))
                name = f"{pname}:" + ",".join(f"{e.replace('start:r', 'start')}@{t}" for e, t in during) + f"/k{k}"
                if name not in have:
                    have.add(name)
                    out.append(_scn(name, pre, k, during, 1.0, 0.5, 2))
    for k in (1, 3):
        out.append(_scn(f"run:tag@D5,stop@U/k{k}/outage6/backoff9.9", RUNNING, k, [("tag", "D5"), ("stop", "U")], 6.0, 9.9, 2))
        out.append(_scn(f"idle:start@D,tag@D5/k{k - 1}/outage6/backoff0.5", [], k - 1, [("start:r1", "D"), ("tag", "D5")], 6.0, 0.5, 2))
    return out


class _Prefixed:
    """Chooser proxy: answers the first picks from a fixed prefix, the rest from the inner chooser."""

    def __init__(self, prefix, inner):
        self.prefix, self.inner, self.n = prefix, inner, 0

    def pick(self, n, label=""):
        i = self.n
        self.n += 1
        if i < len(self.prefix):
            if self.prefix[i] >= n:
                raise RuntimeError(f"replay divergence at point {i}")
            return self.prefix[i]
        return self.inner.pick(n, label)


def run_schedule(item):
    scn, choices = item
    return execute(scn, explore.Chooser(choices))


def _tally(c, obs, found):
    c["execs"] += 1
    c["decisions"] += obs["decisions"]
    c["points"] += obs["points"]
    c["steps"] += obs["steps"]
    if obs["ev_while_down"]:
        c["nontrivial"] += 1
    if obs["episodes"] >= 2:
        c["two_episodes"] += 1
    if obs["final_state"] in CAUGHT_UP and obs["settled"]:
        c["caught_up_at_end"] += 1
    else:
        c["not_caught_up_at_horizon"] += 1
    if any(e[0] == "ack" and e[3] == "lost" for e in obs["log"]):
        c["with_failed_attempt"] += 1
    if obs["task_errors"]:
        c["with_task_errors"] += 1
    if found:
        c["violating"] += 1


def new_counters():
    return dict(execs=0, decisions=0, points=0, steps=0, nontrivial=0, two_episodes=0, caught_up_at_end=0,
                not_caught_up_at_horizon=0, with_failed_attempt=0, with_task_errors=0, violating=0)


def explore_item(item):
    """Worker: all executions of scenario scn whose first deviation is `prefix` (None: only the default schedule)."""
    scn, prefix, bound = item
    viol: dict[str, tuple] = {}
    c = new_counters()
    terr = set()
    if prefix is None:
        gen = [([], execute(scn, explore.Chooser([])))]
    else:
        gen = explore.choice_vectors(lambda ch: execute(scn, _Prefixed(prefix, ch)), bound=bound)
    for choices, obs in gen:
        full = (prefix or []) + list(choices)
        found = check_exec(obs)
        _tally(c, obs, found)
        for te in obs["task_errors"] or []:
            terr.add(tuple(te))
        size = (sum(1 for x in full if x), len(full))
        for sig, what in found:
            if sig not in viol or size < viol[sig][3]:
                viol[sig] = (sig, what, {"scenario": scn, "choices": full}, size)
    return {"viol": list(viol.values()), "c": c, "task_errors": sorted(terr)[:5]}


def first_level(scn):
    """The default schedule's choice points -> one work item per first deviation."""
    ch = explore.Chooser([])
    obs = execute(scn, ch)
    items = [(scn, None, 0)]
    for i, (n, _label) in enumerate(ch.points):
        for alt in range(1, n):
            items.append((scn, [0] * i + [alt], scn["bound"] - 1))
    return obs, items


def _vec(dev: dict) -> list:
    v = [0] * (max(dev) + 1)
    for i, c in dev.items():
        v[i] = c
    return v


def DETERMINISM_ITEMS(scns):
    by = {s["name"]: s for s in scns}
    # three schedules that exercise the racy paths (leaked buffering loop, concurrent failures after a reconnect, lost ack in a batch)
    return [(by["idle/k0"], _vec({0: 1, 1: 2})), (by["run:tag@D,stop@X/k0"], _vec({23: 2, 26: 2})),
            (by["run:tag@D,stop@D/k0"], _vec({0: 1, 24: 3}))]


def run(ctx):
    scns = scenarios(ctx.quick)
    ctx.prove_deterministic(run_schedule, DETERMINISM_ITEMS(scns))
    items = []
    base = []
    for scn in scns:
        obs, its = first_level(scn)
        if not obs["plan_done"] or not obs["settled"]:
            raise HarnessError(f"C27: default schedule of scenario {scn['name']} did not complete its plan / settle: "
                               f"state {obs['final_state']} t={obs['t_end']}")
        base.append({"scenario": scn["name"], "first_level_deviations": len(its) - 1, "choice_points": obs["decisions"],
                     "t_end": obs["t_end"]})
        items += its
    results = ctx.pmap(explore_item, items, chunk=1)
    tot = new_counters()
    terr = set()
    per = {}
    best: dict[str, tuple] = {}
    for (scn, prefix, _b), r in zip(items, results):
        for sig, what, rp, size in r["viol"]:
            if sig not in best or tuple(size) < best[sig][0]:       # fewest deviations, shortest schedule, earliest scenario
                best[sig] = (tuple(size), what, rp)
        for k in tot:
            tot[k] += r["c"][k]
        per[scn["name"]] = per.get(scn["name"], 0) + r["c"]["execs"]
        terr.update(tuple(x) for x in r["task_errors"])
    for sig in sorted(best, key=lambda g: best[g][0]):
        ctx.violation(sig, best[sig][1], best[sig][2])
    for bs in base:
        bs["executions"] = per[bs["scenario"]]
    if not tot["nontrivial"] or not tot["two_episodes"] or not tot["with_failed_attempt"] or not tot["caught_up_at_end"]:
        raise HarnessError(f"C27 vacuous: {tot}")
    ctx.note(f"[C27] scenarios={len(scns)} work_items={len(items)} {tot} task_errors={sorted(terr)[:3]}")
    ctx.coverage.update(
        states=tot["execs"], transitions=tot["decisions"], traces_validated_against_impl=tot["execs"],
        evaluations=tot["execs"], distinct_nontrivial=tot["nontrivial"],
        rule="states = distinct executions (scenario x deviation vector), each one a run of the real EngineRunner; transitions = "
             "scheduling decisions with at least one alternative; non-trivial = executions in which an engine event was delivered "
             "while the link was down",
        samples=[{"scenario": s["name"], "plan": s["plan"], "outage_s": s["outage"], "backoff_s": s["backoff"], "choices": c}
                 for s, c in DETERMINISM_ITEMS(scns)] +
                [{"scenario": s["name"], "plan": s["plan"], "outage_s": s["outage"], "backoff_s": s["backoff"], "choices": []} for s in scns[3:6]],
        scenarios=base, deviation_bound=max(s["bound"] for s in scns), deviation_bound_completed=True,
        quiescent_points=tot["points"], loop_steps=tot["steps"],
        executions_with_two_outages=tot["two_episodes"], executions_with_failed_attempt=tot["with_failed_attempt"],
        executions_caught_up_at_end=tot["caught_up_at_end"], executions_not_caught_up_at_horizon=tot["not_caught_up_at_horizon"],
        executions_with_task_exceptions=tot["with_task_errors"], task_exception_samples=[list(x) for x in sorted(terr)[:5]],
        violating_executions=tot["violating"],
        bounds=dict(max_link_down_episodes=MAX_EPISODES, max_events_per_episode=MAX_EVENTS_PER_EPISODE, horizon_s=HORIZON,
                    settle_extra_s=SETTLE_EXTRA, deviation_window_tail_s=TAIL),
        exhaustive=True,
        explanation="for every scenario the complete tree of deviation vectors up to the bound is executed (choice_vectors), "
                    "partitioned over workers by first deviation",
    )
    ctx.assumptions += [
        "asyncio runs ready callbacks FIFO; the explorer acts only when the ready queue is empty",
        "sends on one link are delivered FIFO; a link loss fails every in-flight send; connect fails iff the link is down and "
        "does not suspend; acknowledgements are completed oldest first (ok or lost)",
        "the reconnect back-off (random.uniform) is a constant per scenario (0.5 or 9.9 s); time.time in engine_runner follows "
        "virtual time",
        "link comes up by default <outage> seconds after it went down; earlier/later only as a deviation",
        "deviations are offered from the first steady-state cycle until the runner has been caught up for 0.7 s after the last "
        "planned step; at most 2 link-down episodes and 2 engine events per episode",
    ]


def replay(data):
    scn, choices = data["scenario"], data["choices"]
    trace = []
    obs = execute(scn, explore.Chooser(choices), trace=trace)
    print(f"scenario {scn['name']}: plan {scn['plan']} outage {scn['outage']} s back-off {scn['backoff']} s; choices {choices}")
    print("schedule (t, runner state, action, in flight, buffered, link) - default steps before the window are folded:")
    last = None
    for row in trace:
        key = (row[1], row[2], row[5])
        if row[2] in ("ack", "timer") and key == last:
            continue
        last = key
        print("   ", row)
    kinds = obs["kinds"]
    print("observation log (state changes, link, events, buffering, failed attempts, received):")
    for i, e in enumerate(obs["log"]):
        if e[0] in ("post", "postret") or (e[0] == "postexc" and e[2] == "CancelledError" and i > len(obs["log"]) - 12):
            continue
        tag = kinds[e[1]] if e[0] in ("send", "ack", "sendfail", "buffer") else ""
        if e[0] == "ack" and e[3] == "ok":
            continue
        print(f"   {i:4} {e} {tag}")
    print(f"final: state {obs['final_state']} t={obs['t_end']} buffer {obs['final_buffer']} in flight {obs['final_inflight']} "
          f"task errors {obs['task_errors']}")
    return check_exec(obs)
