"""C19 — Method analysis never crashes and flags undefined names.

Bounded exhaustive enumeration of method texts: every sequence of <= n lines over a fixed alphabet of
line templates (Watch / Alarm / Simulate / Simulate off with a defined, near-miss, unrelated-long, short
or missing tag; incomplete conditions; unit on a unit-less tag; unknown / near-miss / UOD commands; Mark;
Block; End block; blank), each line after the first at every indentation level 0 .. previous level + 1
(so bodies of Watch/Alarm/Block and indentation errors are both produced), against every tag/command
configuration in {no tags, {X}, {X, Temp[degC]}} x {no commands, the engine's system commands, system +
UOD commands}.

Driven through the editor's own entry point: `lsp_analysis.build_tags` / `build_commands` on a
`UodDefinition` (system commands taken from the real `InternalCommandsRegistry`), then
`lsp_analysis.analyze(AnalysisInput, Document)` which parses the text and runs `SemanticCheckAnalyzer`.

Oracle (from the generator's knowledge of the names it passed, never from the analyzer):
 (1) no exception escapes `lsp_analysis.analyze`;
 (2) every line that references an undefined tag or an undefined command, and every Watch/Alarm line whose
     condition is incomplete (missing tag, operator or value), carries at least one ERROR-severity
     diagnostic that starts on that line.
"""
from __future__ import annotations

import logging

logging.disable(logging.CRITICAL)

from pylsp.workspace import Document, Workspace                                     # noqa: E402

from openpectus.engine.internal_commands import InternalCommandsRegistry             # noqa: E402
from openpectus.lang.exec.analyzer import AnalyzerItemType, AnalyzerVisitorBase      # noqa: E402
from openpectus.lang.exec.regex import RegexCategorical, RegexNumber                 # noqa: E402
from openpectus.lang.exec.uod import RegexNamedArgumentParser                        # noqa: E402
from openpectus.lsp import lsp_analysis                                              # noqa: E402
from openpectus.lsp.model import get_item_range, get_item_severity                   # noqa: E402
from openpectus.protocol.models import CommandDefinition, TagDefinition, UodDefinition  # noqa: E402
from pylsp.lsp import DiagnosticSeverity                                             # noqa: E402

from mc.core import HarnessError                                                    # noqa: E402

ID = "C19"
LEVEL = "exploration"
META = dict(
    technique="bounded exhaustive enumeration of method texts x tag/command configurations through the LSP analysis entry point",
    text="Every method text of at most n lines over the line alphabet (all four tag-referencing instructions x all "
         "tag-spelling classes, incomplete conditions, unknown/near-miss/UOD commands, nesting and indentation variants) is "
         "analysed with lsp_analysis.analyze against every tag/command configuration; no exception may escape and every "
         "offending line must carry an ERROR diagnostic. The property quantifies over texts and configurations, so complete "
         "enumeration up to a length bound is the fitting level; the defects depend on a single line's name class, which the "
         "alphabet covers exhaustively.",
    note="Name classes (defined / near-miss / unrelated-long / short / missing) are fixed by construction of the alphabet, not "
         "measured with the analyzer's similarity function. Language keywords (Watch, Alarm, Block, Mark, ...) are not treated as "
         "undefined commands in the artificial 'no commands' configuration. Texts longer than the bound are not explored.",
)

# ---------------------------------------------------------------------------------------------------
# configurations

TAGSETS: list[list[tuple[str, str | None]]] = [
    [],
    [("X", None)],
    [("X", None), ("Temp", "degC")],
]
CMDSETS = ["system", "system+uod", "none"]     # most realistic first: it supplies the kept (smallest) replay
UOD_COMMANDS = ["Valve", "Pump"]

# names built as a one-letter substitution of a defined name with >= 4 letters; "near-miss" only while the source is defined
NEAR_OF = {"Tamp": "Temp", "Marc": "Mark"}

# instruction names that are part of the P-code language itself; every engine publishes them as system commands
KEYWORDS = {"Watch", "Alarm", "Simulate", "Simulate off", "Block", "End block", "Mark"}

CONDITION_INSTR = ("Watch", "Alarm")


class L:
    """One line template with what the generator knows about it."""
    __slots__ = ("text", "instr", "tag", "incomplete", "note")

    def __init__(self, text, instr, tag=None, incomplete=None, note=""):
        self.text = text              # line without indentation
        self.instr = instr            # instruction name, None for a blank line
        self.tag = tag                # None: no tag reference; "": tag missing; else the referenced name
        self.incomplete = incomplete  # None | "missing-operator" | "missing-value"
        self.note = note


def _alphabet() -> list[L]:
    out: list[L] = []
    for k in CONDITION_INSTR:
        out += [
            L(f"{k}: X > 1", k, "X"),
            L(f"{k}: Temp > 1 degC", k, "Temp"),
            L(f"{k}: Tamp > 1 degC", k, "Tamp"),
            L(f"{k}: Pressure > 1", k, "Pressure"),
            L(f"{k}: Ab > 1", k, "Ab"),
            L(f"{k}:", k, ""),
            L(f"{k}: > 1", k, ""),
            L(f"{k}: X", k, "X", "missing-operator"),
            L(f"{k}: X >", k, "X", "missing-value"),
            L(f"{k}: X ==", k, "X", "missing-value"),          # every comparator: the value may be missed by another route
            L(f"{k}: X !=", k, "X", "missing-value"),
            L(f"{k}: X = ", k, "X", "missing-value"),
            L(f"{k}: X <=", k, "X", "missing-value"),
            L(f"{k}: Temp ==", k, "Temp", "missing-value"),
            L(f"{k}: X > 1 degC", k, "X", note="unit on unit-less tag"),
            L(f"{k}: Pressure", k, "Pressure", "missing-operator"),
        ]
    out += [
        L("Simulate: X = 1", "Simulate", "X"),
        L("Simulate: Temp = 1 degC", "Simulate", "Temp"),
        L("Simulate: Tamp = 1 degC", "Simulate", "Tamp"),
        L("Simulate: Pressure = 1", "Simulate", "Pressure"),
        L("Simulate: Ab = 1", "Simulate", "Ab"),
        L("Simulate:", "Simulate", ""),
        L("Simulate: X", "Simulate", "X", "missing-operator"),
        L("Simulate: X =", "Simulate", "X", "missing-value"),
        L("Simulate: X = 1 degC", "Simulate", "X", note="unit on unit-less tag"),
        L("Simulate off: X", "Simulate off", "X"),
        L("Simulate off: Temp", "Simulate off", "Temp"),
        L("Simulate off: Tamp", "Simulate off", "Tamp"),
        L("Simulate off: Pressure", "Simulate off", "Pressure"),
        L("Simulate off: Ab", "Simulate off", "Ab"),
        L("Simulate off:", "Simulate off", ""),
        L("Mark: a", "Mark"),
        L("Frobnicate: 1", "Frobnicate"),
        L("Zz", "Zz"),
        L(": 5", ": 5", note="nothing before the colon: not an instruction at all"),
        L("-Mark: a", "-Mark", note="does not parse as an instruction"),
        L("Marc: a", "Marc"),
        L("Valve: Open", "Valve"),
        L("Valve: Half", "Valve", note="argument outside the command's language"),
        L("Pump: 5 L/h", "Pump"),
        L("Block: B", "Block"),
        L("End block", "End block"),
        L("", None),
    ]
    return out


ALPHABET = _alphabet()
BY_TEXT = {ln.text: i for i, ln in enumerate(ALPHABET)}
assert len(BY_TEXT) == len(ALPHABET)
INDENT = "    "


def name_class(name: str, defined: set[str]) -> str:
    if name == "":
        return "missing"
    if name in defined:
        return "defined"
    if NEAR_OF.get(name) in defined:
        return "near-miss"
    if len(name) <= 2:
        return "short"
    return "unrelated-long"


# ---------------------------------------------------------------------------------------------------
# building the analysis input exactly as the LSP does

_SYSDEFS = None
_INPUTS: dict[tuple[int, int], tuple] = {}
_UOD_DEFS: dict[tuple[int, int], UodDefinition] = {}
_WS = None


def system_command_definitions() -> list[CommandDefinition]:
    global _SYSDEFS
    if _SYSDEFS is None:
        reg = InternalCommandsRegistry(None)
        reg._register_commands(None)           # what Engine does on start; only stores factories
        _SYSDEFS = reg.get_command_definitions()
    return _SYSDEFS


def uod_command_definitions() -> list[CommandDefinition]:
    valve = RegexNamedArgumentParser(RegexCategorical(exclusive_options=["Open", "Closed"]))
    pump = RegexNamedArgumentParser(RegexNumber(units=["L/h"], non_negative=True))
    return [CommandDefinition(name="Valve", validator=valve.serialize(), docstring=""),
            CommandDefinition(name="Pump", validator=pump.serialize(), docstring="")]


def analysis_input(cfg: tuple[int, int]):
    """-> (AnalysisInput, tag names, command names) for configuration (tagset index, cmdset index)."""
    if cfg not in _INPUTS:
        tags = TAGSETS[cfg[0]]
        kind = CMDSETS[cfg[1]]
        sysdefs = system_command_definitions() if kind != "none" else []
        uoddefs = uod_command_definitions() if kind == "system+uod" else []
        uod_def = UodDefinition(commands=uoddefs, system_commands=sysdefs,
                                tags=[TagDefinition(name=n, unit=u) for n, u in tags])
        inp = lsp_analysis.AnalysisInput(commands=lsp_analysis.build_commands(uod_def),
                                         tags=lsp_analysis.build_tags(uod_def), engine_id="c19")
        tagnames = {n for n, _ in tags}
        cmdnames = {d.name for d in sysdefs + uoddefs}
        if set(inp.tags.names) != tagnames or set(inp.commands.names) != cmdnames:
            raise HarnessError("build_tags/build_commands did not produce the configured names")
        if kind != "none" and not KEYWORDS <= cmdnames:
            raise HarnessError(f"system commands miss language keywords: {sorted(KEYWORDS - cmdnames)}")
        _INPUTS[cfg] = (inp, tagnames, cmdnames)
        _UOD_DEFS[cfg] = uod_def
    return _INPUTS[cfg]


def make_text(seq) -> str:
    return "\n".join(INDENT * lvl + ALPHABET[i].text for i, lvl in seq)


# ---------------------------------------------------------------------------------------------------
# oracle

def line_reasons(ln: L, tagnames: set[str], cmdnames: set[str]):
    """-> (asserted reasons, unspecified reasons, descriptor) for one line in one configuration."""
    asserted, unspec = [], []
    if ln.instr is None:
        return asserted, unspec, "blank"
    cc = name_class(ln.instr, cmdnames)
    desc = ln.instr if ln.instr in KEYWORDS else f"command/{cc}"
    if cc != "defined":
        (unspec if ln.instr in KEYWORDS else asserted).append(f"command/{cc}")
    if ln.tag is not None:
        tc = name_class(ln.tag, tagnames)
        desc += ":" + tc
        if tc == "missing":
            # a condition without a tag is an incomplete condition; Simulate takes an assignment, the statement is silent
            (asserted if ln.instr in CONDITION_INSTR else unspec).append("missing-tag")
        elif tc != "defined":
            asserted.append(tc)
        if ln.incomplete:
            desc += "+" + ln.incomplete
            (asserted if ln.instr in CONDITION_INSTR else unspec).append(ln.incomplete)
    return asserted, unspec, desc


def _culprit(exc: BaseException):
    """Innermost analyzer frame on the traceback -> (analyzer class name, line number of the node it was visiting,
    name of the function that raised)."""
    tb = exc.__traceback__
    best = None
    in_parser = False
    site = "?"
    while tb is not None:
        site = tb.tb_frame.f_code.co_name            # ends as the function that raised
        loc = tb.tb_frame.f_locals
        slf = loc.get("self")
        if isinstance(slf, AnalyzerVisitorBase):
            node = loc.get("node")
            line = None
            try:
                line = node.position.line if node is not None else None
            except Exception:
                line = None
            if line is not None or best is None:
                best = (type(slf).__name__, line if line is not None else (best[1] if best else None))
        if tb.tb_frame.f_code.co_filename.endswith(("parser.py", "ast.py")):
            in_parser = True
        tb = tb.tb_next
    if best is None:
        return ("parser" if in_parser else "unknown", None, site)
    return best + (site,)


def evaluate(cfg: tuple[int, int], seq, trace: bool = False):
    """Analyse one text in one configuration.
    -> (violations [(sig, what)], per-line info [(descriptor, asserted, unspec, flagged)], raised)"""
    global _WS
    inp, tagnames, cmdnames = analysis_input(cfg)
    text = make_text(seq)
    if _WS is None:
        _WS = Workspace(root_uri="", endpoint=None, config=None)
    doc = Document(uri="file://c19/method.pcode", workspace=_WS, source=text)
    info = [line_reasons(ALPHABET[i], tagnames, cmdnames) for i, _ in seq]
    cfg_s = f"tags={TAGSETS[cfg[0]]} commands={CMDSETS[cfg[1]]}"
    try:
        result = lsp_analysis.analyze(inp, doc)
    except Exception as ex:
        cls, lineno, site = _culprit(ex)
        if lineno is not None and 0 <= lineno < len(seq):
            d = info[lineno][2]
        else:
            d = "?"
        sig = f"C19:raise:{cls}:{type(ex).__name__}:{d}@{site}"
        what = (f"lsp_analysis.analyze raised {type(ex).__name__}({ex}) in {cls} (raised by {site}()) for text {text!r} with {cfg_s}"
                + (f" (line {lineno}: {ALPHABET[seq[lineno][0]].text!r})" if lineno is not None and lineno < len(seq) else ""))
        if trace:
            print(f"  analyze RAISED {type(ex).__name__}: {ex}  [in {cls}, raised by {site}(), node line {lineno}]")
        return [(sig, what)], [(d_, a, u, None) for a, u, d_ in info], True
    err_lines: dict[int, list[str]] = {}
    for item in result.items:
        rng = get_item_range(item)
        sev = get_item_severity(item)
        if trace:
            print(f"  diagnostic {item.type.name:7s} {item.id:22s} line {rng['start']['line']} "
                  f"[{rng['start']['character']}..{rng['end']['line']}:{rng['end']['character']}] {item.description}")
        if sev == DiagnosticSeverity.Error and item.type == AnalyzerItemType.ERROR:
            err_lines.setdefault(rng["start"]["line"], []).append(item.id)
    viol = []
    lines_out = []
    for k, (asserted, unspec, desc) in enumerate(info):
        flagged = k in err_lines
        lines_out.append((desc, asserted, unspec, flagged))
        if asserted and not flagged:
            ln = ALPHABET[seq[k][0]]
            if ln.tag is not None and any(not r.startswith("command/") for r in asserted):
                cls = "+".join(r for r in asserted if not r.startswith("command/"))
                sig = f"C19:unflagged:{ln.instr}:{cls}"
            else:
                sig = "C19:unflagged:command:" + "+".join(r[len("command/"):] for r in asserted)
            what = (f"line {k} {ln.text!r} ({', '.join(asserted)}) has no ERROR diagnostic; text {text!r} with {cfg_s}; "
                    f"ERROR lines: {({ln_: ids for ln_, ids in sorted(err_lines.items())})}")
            viol.append((sig, what))
    return viol, lines_out, False


# ---------------------------------------------------------------------------------------------------
# enumeration

def sequences_from(first: int, n: int):
    """All line sequences of length 1..n starting with template `first` at level 0, shortest first.
    Line k may sit at any indentation level 0 .. level(k-1)+1."""
    level_items = range(len(ALPHABET))
    frontier = [((first, 0),)]
    for length in range(1, n + 1):
        nxt = []
        for seq in frontier:
            yield seq
            if length < n:
                for lvl in range(seq[-1][1] + 2):
                    for i in level_items:
                        nxt.append(seq + ((i, lvl),))
        frontier = nxt


def count_sequences(n: int) -> int:
    # number of sequences of length exactly m by last level
    total = 0
    by_level = {0: len(ALPHABET)}
    for m in range(1, n + 1):
        total += sum(by_level.values())
        nb: dict[int, int] = {}
        for lvl, c in by_level.items():
            for l2 in range(lvl + 2):
                nb[l2] = nb.get(l2, 0) + c * len(ALPHABET)
        by_level = nb
    return total


def work(item):
    """item = (tagset idx, cmdset idx, first template idx or -1 for the empty text, n)"""
    ti, ci, first, n = item
    cfg = (ti, ci)
    st = {"evaluations": 0, "nontrivial": 0, "raised": 0, "asserted_lines": 0, "unspecified_lines": 0}
    classes: dict[str, list[int]] = {}      # reason -> [reached in analyses that completed, flagged there, in analyses that raised]
    unspec_seen: dict[str, list[int]] = {}
    viols: dict[str, list] = {}             # sig -> [count, what, replay, size]
    seqs = [()] if first < 0 else sequences_from(first, n)
    for seq in seqs:
        v, lines, raised = evaluate(cfg, seq)
        st["evaluations"] += 1
        st["raised"] += 1 if raised else 0
        nt = False
        for (i, _), (desc, asserted, unspec, flagged) in zip(seq, lines):
            instr = ALPHABET[i].instr
            if asserted:
                nt = True
                st["asserted_lines"] += 1
                for r in asserted:
                    key = f"{instr if ALPHABET[i].tag is not None and not r.startswith('command/') else 'command'}:{r}"
                    c = classes.setdefault(key, [0, 0, 0])
                    c[0] += 0 if raised else 1
                    c[1] += 1 if flagged else 0
                    c[2] += 1 if raised else 0
            if unspec:
                st["unspecified_lines"] += 1
                for r in unspec:
                    c = unspec_seen.setdefault(f"{instr}:{r}", [0, 0, 0])
                    c[0] += 0 if raised else 1
                    c[1] += 1 if flagged else 0
                    c[2] += 1 if raised else 0
        st["nontrivial"] += 1 if nt else 0
        for sig, what in v:
            if sig in viols:
                viols[sig][0] += 1
            else:
                viols[sig] = [1, what, replay_payload(cfg, seq), len(seq)]
    return st, classes, unspec_seen, viols


def replay_payload(cfg, seq):
    return {"tags": [[n, u] for n, u in TAGSETS[cfg[0]]], "commands": CMDSETS[cfg[1]],
            "lines": [[ALPHABET[i].text, lvl] for i, lvl in seq], "text": make_text(seq)}


def _observe(item):
    st, classes, unspec_seen, viols = work(item)
    return st, classes, unspec_seen, {k: v[:2] for k, v in viols.items()}


def run(ctx):
    n = 2 if ctx.quick else 3
    cfgs = [(ti, ci) for ti in range(len(TAGSETS)) for ci in range(len(CMDSETS))]
    items = [(ti, ci, -1, n) for ti, ci in cfgs]
    # simplest-first is restored in the parent (violations are sorted by text length); spread the work evenly
    items += [(ti, ci, first, n) for first in range(len(ALPHABET)) for ti, ci in cfgs]
    ctx.prove_deterministic(_observe, [(2, 2, BY_TEXT["Watch: Pressure > 1"], 2), (1, 1, BY_TEXT["Simulate off: Pressure"], 2),
                                       (0, 0, BY_TEXT["Frobnicate: 1"], 2)])
    results = ctx.pmap(work, items, chunk=1 if not ctx.quick else None)
    tot = {"evaluations": 0, "nontrivial": 0, "raised": 0, "asserted_lines": 0, "unspecified_lines": 0}
    classes: dict[str, list[int]] = {}
    unspec: dict[str, list[int]] = {}
    allv = []
    for item, (st, cl, us, viols) in zip(items, results):
        for k in tot:
            tot[k] += st[k]
        for k, v in cl.items():
            c = classes.setdefault(k, [0, 0, 0])
            for j in range(3):
                c[j] += v[j]
        for k, v in us.items():
            c = unspec.setdefault(k, [0, 0, 0])
            for j in range(3):
                c[j] += v[j]
        for sig, (cnt, what, rp, size) in viols.items():
            allv.append((size, len(rp["text"]), sig, item, cnt, what, rp))
    allv.sort(key=lambda t: (t[0], t[1], t[2], t[3]))
    per_sig: dict[str, int] = {}
    for size, _, sig, item, cnt, what, rp in allv:
        per_sig[sig] = per_sig.get(sig, 0) + cnt
        ctx.violation(sig, what, rp)
    expected_total = len(cfgs) * (1 + count_sequences(n))
    exhaustive = tot["evaluations"] == expected_total
    # vacuity: every instruction x undefined-name class, every incomplete-condition class and every command class was reached
    want = {f"{k}:{c}" for k in ("Watch", "Alarm", "Simulate", "Simulate off") for c in ("near-miss", "short", "unrelated-long")}
    want |= {f"{k}:{c}" for k in CONDITION_INSTR for c in ("missing-tag", "missing-operator", "missing-value")}
    want |= {f"command:command/{c}" for c in ("near-miss", "short", "unrelated-long")}
    missing = sorted(want - set(classes))
    if missing:
        raise HarnessError(f"line classes never reached: {missing}")
    if not exhaustive:
        raise HarnessError(f"enumerated {tot['evaluations']} cases, expected {expected_total}")
    ctx.note(f"[C19] n={n} alphabet={len(ALPHABET)} configs={len(cfgs)} analyses={tot['evaluations']} raised={tot['raised']} "
             f"texts_with_offending_line={tot['nontrivial']}")
    for k in sorted(classes):
        ctx.note(f"[C19]   asserted {k}: lines_in_completed_analyses={classes[k][0]} flagged={classes[k][1]} "
                 f"lines_in_raising_analyses={classes[k][2]}")
    for k in sorted(unspec):
        ctx.note(f"[C19]   unspecified (not asserted) {k}: lines_in_completed_analyses={unspec[k][0]} flagged={unspec[k][1]}")
    ctx.coverage.update(
        evaluations=tot["evaluations"], distinct_nontrivial=tot["nontrivial"],
        rule="every sequence of <= max_lines alphabet lines (line k at indentation level 0..level(k-1)+1) plus the empty text, "
             "x every (tag set, command set) configuration; each (configuration, text) pair is generated once; non-trivial = "
             "the text has at least one line that the oracle asserts must be flagged (undefined tag/command or incomplete "
             "condition under that configuration)",
        samples=[replay_payload((2, 1), ((BY_TEXT["Watch: X > 1"], 0), (BY_TEXT["Frobnicate: 1"], 1))),
                 replay_payload((1, 0), ((BY_TEXT["Simulate off: Tamp"], 0),)),
                 replay_payload((0, 2), ((BY_TEXT["Block: B"], 0), (BY_TEXT["Alarm: X >"], 1)))],
        exhaustive=exhaustive, max_lines=n, alphabet=[ln.text for ln in ALPHABET], alphabet_size=len(ALPHABET),
        tagsets=[[f"{a}[{u}]" if u else a for a, u in t] for t in TAGSETS], command_sets=CMDSETS,
        uod_commands=UOD_COMMANDS, system_commands=sorted(d.name for d in system_command_definitions()),
        configurations=len(cfgs), analyses_that_raised=tot["raised"], asserted_lines=tot["asserted_lines"],
        unspecified_lines=tot["unspecified_lines"],
        asserted_classes={k: {"lines_in_completed_analyses": v[0], "flagged": v[1], "lines_in_raising_analyses": v[2]}
                          for k, v in sorted(classes.items())},
        unspecified_classes={k: {"lines_in_completed_analyses": v[0], "flagged": v[1]} for k, v in sorted(unspec.items())},
        violations_by_signature=dict(sorted(per_sig.items())),
        explanation="exhaustive within the bound: the count of analysed (configuration, text) pairs equals the closed-form size "
                    "of the stated space",
    )
    ctx.assumptions += [
        "an ERROR diagnostic is 'on the line' when its LSP range starts on that line (a parent's diagnostic spanning the line does not count)",
        "name classes are fixed by construction: near-miss = one-letter substitution of a defined name of >= 4 letters, short = <= 2 "
        "characters, unrelated-long = any other undefined name (Pressure, Frobnicate, and Temp/Tamp/Valve/Pump while their source is not defined)",
        "language keywords are not counted as undefined commands in the 'no commands' configuration; missing tag / operator / value "
        "under Simulate and Simulate off are observed but not asserted (the statement speaks of conditions)",
        "system commands come from the real InternalCommandsRegistry without starting an engine",
    ]


def replay(data):
    ti = [[list(x) for x in t] for t in TAGSETS].index([list(x) for x in data["tags"]])
    ci = CMDSETS.index(data["commands"])
    seq = tuple((BY_TEXT[t], lvl) for t, lvl in data["lines"])
    text = make_text(seq)
    inp, tagnames, cmdnames = analysis_input((ti, ci))
    print(f"tags: {TAGSETS[ti]}   commands: {CMDSETS[ci]} ({len(cmdnames)} names)")
    print("text:")
    for k, line in enumerate(text.split("\n")):
        a, u, d = line_reasons(ALPHABET[seq[k][0]], tagnames, cmdnames) if k < len(seq) else ([], [], "")
        print(f"  {k}: {line!r:40s} class={d} must-flag={a or '-'} unspecified={u or '-'}")
    viol, lines, raised = evaluate((ti, ci), seq, trace=True)
    for k, (desc, a, u, flagged) in enumerate(lines):
        print(f"  line {k}: ERROR diagnostic on line: {'n/a (analysis raised)' if raised else flagged}")
    if raised:
        # what the editor shows: lint() swallows the exception and returns one generic diagnostic (replay only; same
        # substitution of fetch_uod_info that the repository's own LSP tests use, restored afterwards)
        orig = lsp_analysis.fetch_uod_info
        lsp_analysis.create_analysis_input.cache_clear()
        lsp_analysis.fetch_uod_info = lambda _id: _UOD_DEFS[(ti, ci)]
        try:
            doc = Document(uri="file://c19/method.pcode", workspace=Workspace(root_uri="", endpoint=None, config=None), source=text)
            for d in lsp_analysis.lint(doc, "c19"):
                print(f"  lint() diagnostic shown in the editor: code={d['code']!r} message={d['message']!r} range={d['range']}")
        finally:
            lsp_analysis.fetch_uod_info = orig
            lsp_analysis.create_analysis_input.cache_clear()
    return viol
