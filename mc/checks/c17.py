"""C17 \u2014 Parsing maps every line to one node with indentation structure.

Bounded exhaustive enumeration of method texts, each parsed by the real
create_method_parser(...).parse_method(...):

* structured texts: every text of <= n lines over a line alphabet {Mark, Block, Watch, Alarm, Macro, End block,
  blank, spaces-only, comment} x indent {0, 4, 8, 12, 2}; oracle = `law()` below, a reference implementation of
  the indentation law in the property statement (stack of open bodies keyed by indentation);
  quick: all texts of 1..3 lines over the full 40-line alphabet; thorough: 1..4 lines over the full alphabet plus all
  5-line texts over a reduced 20-line alphabet;
* hostile texts: every single line and every ordered pair from a fixed list of odd/unicode lines; oracle =
  totality (no exception), DFS pre-order == lines 0..n-1, node id == line id.

What the oracle asserts (and nothing more):
  1. parse_method never raises;
  2. the DFS pre-order of the tree lists every line exactly once, in source order, node.id == that line's id;
  3. an instruction line whose parser parent is not a parent the law allows carries indent_error
     (a wrongly indented line has no allowed parent, so it must always be flagged);
  4. in a correctly indented text no instruction line carries indent_error.
Blank / spaces-only / comment lines are ignored by the law (the repo's own tests test_parse_block_w_blank_1..5 nest
through blank lines of any width): any parent and any flag is accepted for them, they only have to be present once,
in order (2).  The statement does not say whether an opener with an empty body is an error, so the line right
after an empty-bodied opener may be flagged (4 is not asserted for that line) - but 3 still holds for it.
After the first wrongly indented line the statement does not say how that line affects later nesting; the law then
explores every reading (the bad line does / does not close deeper bodies, does / does not open a body of its own at
its literal indentation, or is read as a mis-indented child of any open body - the reading of the repo's own
test_block_incorrect_body_ok) and accepts the union.
"""
from __future__ import annotations

import functools
import itertools
import logging

from mc.core import HarnessError

ID = "C17"
LEVEL = "exploration"
META = dict(
    technique="bounded exhaustive enumeration of method texts against a reference implementation of the indentation law",
    text="Every text of up to n lines over a line alphabet of instruction kinds x indentations (incl. blank, spaces-only and "
         "comment lines and a non-multiple-of-4 indentation) is parsed by the real PcodeParser; the tree is compared with a "
         "small stack-based reference implementation of the nesting law in the statement (one node per line, in order, "
         "id == line id, parent = nearest open body one level shallower, anything else flagged). Totality and the "
         "one-node-per-line law are additionally checked on all singles and ordered pairs of a fixed list of hostile unicode "
         "lines. Exhaustive within the stated bounds; no claim beyond them, hence 'exploration'.",
    note="Whitespace lines are structure-neutral (as in the repo's own tests); after the first wrongly indented line every "
         "reading of its effect on later nesting is accepted; an empty-bodied opener may or may not be flagged. "
         "Lines never contain '\\n'.",
)

# ---------------------------------------------------------------------------------------------------------------
# line alphabet

OPENERS = ("Block", "Watch", "Alarm", "Macro")
KIND_TEXT = {
    "Mark": "Mark: a", "Block": "Block: B", "Watch": "Watch: X > 1", "Alarm": "Alarm: X > 1", "Macro": "Macro: M",
    "End block": "End block", "comment": "# c", "spaces": "", "blank": "",
}
INDENTS = (0, 4, 8, 12, 2)


def role_of(kind: str) -> str:
    if kind in OPENERS:
        return "open"
    if kind in ("comment", "spaces", "blank"):
        return "ws"
    return "leaf"


def render(sym) -> str:
    kind, indent = sym
    # indent 1 stands for one tab, indent 3 for two spaces and a tab (their lengths): never a valid indentation
    lead = "\t" if indent == 1 else "  \t" if indent == 3 else " " * indent
    return lead + KIND_TEXT[kind]


def full_alphabet() -> list[tuple[str, int]]:
    """40 distinct lines; simplest first (shallow indentation first)."""
    out = [("blank", 0)]
    for ind in INDENTS:
        for kind in ("Mark", "Block", "Watch", "Macro", "End block", "Alarm", "comment"):
            out.append((kind, ind))
        if ind:
            out.append(("spaces", ind))
    out += [("Mark", 1), ("Block", 1), ("Mark", 3)]          # indented with a tab / two spaces and a tab
    return out


def reduced_alphabet() -> list[tuple[str, int]]:
    """20 lines: every role at the indentations where it matters."""
    out = [("blank", 0)]
    out += [("Mark", i) for i in (0, 4, 8, 12, 2)]
    out += [("Block", i) for i in (0, 4, 8, 12, 2)]
    out += [("Watch", i) for i in (0, 4, 8)]
    out += [("Macro", 0), ("End block", 4)]
    out += [("comment", i) for i in (0, 4, 8)]
    out += [("spaces", 4)]
    out += [("Mark", 1), ("Mark", 3)]          # indented with a tab / two spaces and a tab
    return out


def mini_alphabet() -> list[tuple[str, int]]:
    """9 lines for 5-line texts in the quick tier: two nested bodies, leaves and comments at the three levels."""
    return [("Block", 0), ("Watch", 4), ("Mark", 8), ("Mark", 4), ("comment", 4), ("comment", 8), ("End block", 4), ("Mark", 0), ("Mark", 1)]


ALPHABETS = {"full": full_alphabet(), "reduced": reduced_alphabet(), "mini": mini_alphabet()}

# ---------------------------------------------------------------------------------------------------------------
# reference implementation of the law


@functools.lru_cache(maxsize=None)
def law(shape: tuple) -> tuple:
    """shape: tuple of (role, indent), role in open|leaf|ws (indent of ws lines is irrelevant).
    Returns (allowed, correct): allowed[k] = frozenset of line indices (-1 = program root) that line k may belong to
    (None for whitespace lines; empty = wrongly indented under every reading); correct = no wrongly indented line."""
    n = len(shape)
    allowed: list[set] = [set() for _ in shape]
    wrong = [False]
    seen = set()

    def go(k: int, stack: tuple):                    # stack of open bodies: (line, indent); root = (-1, -4)
        while k < n and shape[k][0] == "ws":
            k += 1
        if k == n or (k, stack) in seen:
            return
        seen.add((k, stack))
        role, ind = shape[k]
        closed = stack
        while closed[-1][1] >= ind:                  # a line closes every body opened at its own depth or deeper
            closed = closed[:-1]
        me = ((k, ind),) if role == "open" else ()
        if closed[-1][1] == ind - 4:                 # exactly one level below an open body: belongs to it
            allowed[k].add(closed[-1][0])
            go(k + 1, closed + me)
        else:                                        # wrongly indented: statement silent about later nesting
            wrong[0] = True
            readings = set()
            for st in (closed, stack):               # it does / does not close the deeper bodies ...
                readings.add(st)                     # ... and is otherwise ignored
                readings.add(st + me)                # ... and (if an opener) opens a body at its literal indentation
            for pos in range(len(stack)):            # or it is read as a (mis-indented) child of any open body b:
                b_indent = stack[pos][1]             # closes what is deeper than b, opens its body one level below b
                readings.add(stack[:pos + 1] + (((k, b_indent + 4),) if me else ()))
            for st in sorted(readings):
                go(k + 1, st)

    go(0, ((-1, -4),))
    return (tuple(None if shape[k][0] == "ws" else frozenset(allowed[k]) for k in range(n)), not wrong[0])


def shape_of(spec) -> tuple:
    return tuple((role_of(k), 0 if role_of(k) == "ws" else i) for k, i in spec)


# ---------------------------------------------------------------------------------------------------------------
# driving the real parser


def observe(lines: list[str]) -> dict:
    """Parse with the real parser; return plain data about the resulting tree."""
    logging.disable(logging.CRITICAL)
    from openpectus.lang.model.parser import ParserMethod, ParserMethodLine, create_method_parser
    import openpectus.lang.model.ast as p

    ids = [f"ln{7 * k + 3}" for k in range(len(lines))]          # not 0..n-1, not contiguous
    method = ParserMethod([ParserMethodLine(id=i, content=c) for i, c in zip(ids, lines)])
    try:
        program = create_method_parser(method).parse_method(method)
    except Exception as ex:  # noqa: BLE001 - totality is the property
        return {"exc": f"{type(ex).__name__}: {ex}"[:200], "exc_type": type(ex).__name__}
    pre: list = []          # (id, parent id, indent_error, class name, position.character)
    stack = [(c, "root") for c in reversed(program.children)]
    budget = 10 * len(lines) + 10
    while stack and budget:
        budget -= 1
        node, par = stack.pop()
        pre.append((node.id, par, bool(node.indent_error), type(node).__name__, node.position.character))
        if isinstance(node, p.NodeWithChildren):
            stack.extend((c, node.id) for c in reversed(node.children))
    return {"exc": None, "ids": ids, "root_id": program.id, "pre": pre, "runaway": bool(stack)}


def judge_tree(lines: list[str], obs: dict) -> list[tuple[str, str]]:
    """Totality + one node per line, in order, id == line id."""
    if obs["exc"] is not None:
        return [(f"C17:raises:{obs['exc_type']}", f"parse_method raised {obs['exc']} on {lines!r}")]
    got = [e[0] for e in obs["pre"]]
    if obs["runaway"] or got != obs["ids"]:
        n = len(lines)
        kind = ("runaway-tree" if obs["runaway"] else "out-of-order" if sorted(got) == sorted(obs["ids"]) else
                "lost-line" if len(got) < n else "extra-node" if len(got) > n else "wrong-id")
        return [(f"C17:one-node-per-line:{kind}",
                 f"DFS pre-order node ids {got} != line ids {obs['ids']} for {lines!r}")]
    return []


def relation(spec, k) -> str:
    """Facts about line k used as signature discriminator: what the previous instruction line is and how line k is
    indented relative to it (whitespace lines are skipped)."""
    prev = [j for j in range(k) if role_of(spec[j][0]) != "ws"]
    ind = spec[k][1]
    if not prev:
        return "first-line:" + ("indent0" if ind == 0 else "indented")
    j = prev[-1]
    d = ind - spec[j][1]
    if role_of(spec[j][0]) == "open":
        ctx = "after-opener" if d > 0 else "empty-body"
    else:
        ctx = "after-leaf"
    rel = "same" if d == 0 else "shallower" if d < 0 else "deeper" if d == 4 else "deeper-not-one-level"
    return f"{ctx}:{rel}" + ("-odd" if ind % 4 else "")


def ws_between(spec, k) -> str:
    """'' if no whitespace line stands between the previous instruction line and line k, else whether one of them is
    indented no deeper than that instruction line."""
    prev = [j for j in range(k) if role_of(spec[j][0]) != "ws"]
    j = prev[-1] if prev else -1
    base = spec[j][1] if prev else 0
    between = [spec[m][1] for m in range(j + 1, k)]
    return "" if not between else "not-deeper" if min(between) <= base else "deeper"


def first_violation(spec, obs: dict):
    """The indentation law, for a structured text whose tree already passed judge_tree.
    Returns None or (kind, line index, discriminator, what) for the FIRST offending line only (later ones may be
    consequences of the first)."""
    lines = [render(s) for s in spec]
    allowed, correct = law(shape_of(spec))
    idx = {i: k for k, i in enumerate(obs["ids"])}
    idx[obs["root_id"]] = -1
    prev_instr = None
    post_error = False
    for k, (nid, par, flagged, cls, ch) in enumerate(obs["pre"]):
        if allowed[k] is None:
            continue
        parent = idx.get(par, -2)
        after_empty_body = (prev_instr is not None and role_of(spec[prev_instr][0]) == "open"
                            and spec[k][1] <= spec[prev_instr][1])
        if parent not in allowed[k] and not flagged:
            if post_error:
                return ("post-error-misnest", k, relation(spec, k),
                        f"line {k} {lines[k]!r} follows a wrongly indented line; under every reading of the law it belongs to "
                        f"{describe(sorted(allowed[k]), lines)} but the parser put it under {describe([parent], lines)} "
                        f"without indent_error; text {lines!r}")
            if allowed[k]:
                return ("silent-renest", k, relation(spec, k),
                        f"line {k} {lines[k]!r} belongs to {describe(sorted(allowed[k]), lines)} by the law but the parser "
                        f"put it under {describe([parent], lines)} without indent_error; text {lines!r}")
            return ("not-flagged", k, relation(spec, k),
                    f"line {k} {lines[k]!r} is not one level below any open body, yet has no indent_error "
                    f"(parser parent {describe([parent], lines)}); text {lines!r}")
        if flagged and not post_error and allowed[k] and not after_empty_body:
            if not correct:
                # a correctly indented prefix whose last line is flagged: not forbidden by the statement inside a text that goes
                # wrong later, but everything after it may be a consequence.  The prefix is a text of the enumeration itself
                # and is judged there; stop here.
                return None
            return ("spurious-indent-error", k, relation(spec, k),
                    f"correctly indented text, yet line {k} {lines[k]!r} carries indent_error "
                    f"(parser parent {describe([parent], lines)}, law parent {describe(sorted(allowed[k]), lines)}); "
                    f"text {lines!r}")
        prev_instr = k
        post_error = post_error or not allowed[k]
    return None


def judge_structure(spec, obs: dict) -> list[tuple[str, str]]:
    v = first_violation(spec, obs)
    if v is None:
        return []
    kind, k, disc, what = v
    # do the whitespace lines right before line k matter?  Decided by re-running the text without them (a fact, not a guess).
    if ws_between(spec, k):
        j = max([m for m in range(k) if role_of(spec[m][0]) != "ws"], default=-1)
        bare = list(spec[:j + 1]) + list(spec[k:])
        bare_lines = [render(s) for s in bare]
        bobs = observe(bare_lines)
        bv = None if judge_tree(bare_lines, bobs) else first_violation(bare, bobs)
        if bv is None or (bv[0], bv[1], bv[2]) != (kind, j + 1, disc):
            disc += ":only-with-whitespace-line-" + ws_between(spec, k)
    return [(f"C17:{kind}:{disc}", what)]


def describe(parents, lines) -> str:
    return " | ".join("root" if q == -1 else "?" if q < -1 else f"line {q} {lines[q]!r}" for q in parents) or "nothing"


def check_structured(spec) -> list[tuple[str, str]]:
    lines = [render(s) for s in spec]
    obs = observe(lines)
    return judge_tree(lines, obs) or judge_structure(spec, obs)


def check_hostile(lines) -> list[tuple[str, str]]:
    return judge_tree(lines, observe(lines))


# ---------------------------------------------------------------------------------------------------------------
# hostile lines


def hostile_lines() -> list[str]:
    base = [
        # whitespace / control characters (no NUL, no \n)
        "\t", "\tMark: a", "\t\tBlock: B", "Mark:\ta", " \t ", "\r", "Mark: a\r", "\x0b", "\x0c", "\x0bMark: a",
        "\x1c", "\x1d", "\x1e", "\x1f", "\x1fBlock: B", "\x85", "\xa0", "\xa0\xa0\xa0\xa0Mark: a", "\u2028",
        "\u2029", "\u200b", "\u200bMark: a", "\ufeff", "\ufeffBlock: B", "\u3000Mark: a", "\x01", "\x07Mark", "\x1b[31mMark",
        "\x7f", "Mark\x08: a",
        # punctuation only
        ":", "::", ":::", ": ", " :", ": a", ":a", "#", "##", "# ", " #", "#:", ":#", "# #", "#\t", ".", "..", "-", "+", "_",
        "__", "=", "==", ">", "<", ">=", "<=", "!=", "!", "%", "/", "\\", "|", "(", ")", "[", "]", "{", "}", "*", "**", "?", "'",
        "\"", "`", "~", "^", "$", "&", "@", ",", ";",
        # numbers / thresholds
        "0", "1", "1.5", "1.", ".5", "1.5 ", " 1.5", "1 2", "1 2 3", "1.5.2 Mark", "1e3 Mark", "-1 Mark", "+1 Mark",
        "1 1 Mark: a", "1  Mark", "1\tMark", "1Mark: A", "1.5Mark", "00001 Mark", "9" * 400 + " Mark", "1." + "0" * 400 + " Mark",
        "\u0661 Mark", "\uff11.\uff15 Mark: a", "\xb2 Mark", "\u0967\u0968 Block: B", "1.\u0665 Watch: X > 1", "\u2460 Mark",
        # instruction-ish
        "Mark", "Mark:", "Mark: ", "Mark :", "Mark : a", "Mark:a", "Mark::", "Mark: :", "Mark: a: b", "Mark: a # c # d",
        "Mark #", "Mark#", "Mark: #", "Mark: a#", " Mark", "   Mark", "     Mark", "Mark ", "Mark: a   ", "mark: a", "MARK: a",
        "Block", "Block:", "Block: ", "  Block: B", "Block: B: C", "Block # B", "End block: x", "End blocks", "Macro", "Macro:",
        "Call macro", "Call macro: ", "Batch", "Notify", "Stop: x", "Pause: 1 s", "Wait: 1", "Wait", "Base: min", "Info: a", "Simulate off",
        "Simulate off: X", "Increment run counter", "Run counter: 3", "Restart", "NoSuchCommand", "NoSuchCommand: 1, 2",
        "Mark: " + "a" * 20000, "M" * 20000, " " * 20001 + "Mark: a", " " * 20000 + ":", "Block: B" + " " * 20000 + "#",
        "Mark: a #" + "#" * 5000, ":" * 5000, "1 " * 3000 + "Mark",
        # conditions
        "Watch", "Watch:", "Watch: ", "Watch: X", "Watch: >", "Watch: > 1", "Watch: X >", "Watch: X > > 1", "Watch: X >= <= 1",
        "Watch: X >= 1 >= 2", "Watch: X = = 1", "Watch: X === 1", "Watch: X != = 1", "Watch: X > 1 mL mL", "Watch: X > 1e", "Watch: X > 1e400",
        "Watch: X > -", "Watch: X > .", "Watch: X > 1..2", "Watch: X > \u0661", "Watch: X > 1 \xb0C", "Watch: X > 5 \xb5S/cm",
        "Watch: X > 1 # c", "Watch: X > #", "Watch: X>1", "Watch:X>1", "Watch: >=", "Watch: <", "Alarm", "Alarm: =", "Alarm: X == == 3",
        "Alarm: X < < <", "Simulate", "Simulate:", "Simulate: X", "Simulate: X =", "Simulate: = 1", "Simulate: X = 1 = 2", "Simulate: = = =",
        "Simulate: X == 1", "Simulate: X = 1 %", "    Watch: Tag Name >= 1.5 mL # c d", "  1.5 Alarm: X = 1",
        # unicode
        "\U0001f600", "\U0001f600: \U0001f600", "Mark: \U0001f600", "\U0001f468\u200d\U0001f469\u200d\U0001f467: a", "Block: \u202eB\u202c",
        "\u05e9\u05dc\u05d5\u05dd: \u05e2\u05d5\u05dc\u05dd", "\u0645\u0631\u062d\u0628\u0627", "\u202eMark: a", "Ma\u0301rk: a", "e\u0301" * 50,
        "\xc6r\xf8: \xe5", "Mark: \xc6\xd8\xc5", "\u4e2d\u6587: \u6d4b\u8bd5", "\u4e2d\u6587", "\ud7ff", "\U0010ffff", "\ufffd", "\ufffe",
        "\ud800", "Mark: \udfff", "Z\u0335\u0321a\u0334l\u0336g\u0337o", "\uff2d\uff41\uff52\uff4b: a", "\u24c2ark", "Block\uff1a B", "Mark\u2236 a",
        "\uff03 comment", "Mark: a \uff03 c", "\xdf", "\u0130stanbul: i", "_x: 1", "_", "x_y z: 1", "a-b: c", "a.b: c", "A/B: c", "a\\b: c",
        "<script>alert(1)</script>", "'; DROP TABLE methods; --", "%s%s%n", "{0}", "${jndi:x}", "Mark: {a}", "Mark: %(a)s", "(?P<indent>x)",
        "\\d+: \\s", "[a-z]+: .*", "^$", "Mark: a\\", "null", "None", "True: False", "NaN Mark", "inf Mark",
    ]
    out, seen = [], set()
    for s in base:
        if s not in seen and "\n" not in s:
            seen.add(s)
            out.append(s)
    return out


# ---------------------------------------------------------------------------------------------------------------
# workers (module level for ctx.pmap)

KEEP_PER_ITEM = 3


def work_structured(item):
    """item = (alphabet name, n, prefix of symbol indices). Enumerates every text of exactly n lines with that prefix."""
    name, n, prefix = item
    alpha = ALPHABETS[name]
    evals = nontrivial = correct_texts = wrong_texts = empty_body = 0
    viol: dict[str, list] = {}
    for rest in itertools.product(range(len(alpha)), repeat=n - len(prefix)):
        spec = [alpha[i] for i in prefix + rest]
        evals += 1
        roles = [role_of(k) for k, _ in spec]
        if roles.count("ws") <= n - 2 and "open" in roles:
            nontrivial += 1
        if law(shape_of(spec))[1]:
            correct_texts += 1
        else:
            wrong_texts += 1
        for sig, what in check_structured(spec):
            v = viol.setdefault(sig, [0, what, {"mode": "structured", "spec": [list(s) for s in spec]}])
            v[0] += 1
    return dict(evals=evals, nontrivial=nontrivial, correct=correct_texts, wrong=wrong_texts,
                viol=[(s, v[0], v[1], v[2]) for s, v in sorted(viol.items())])


def work_hostile(item):
    """item = ("hostile", i): the single line i and every ordered pair (i, j)."""
    hl = hostile_lines()
    i = item[1]
    out = []
    for lines in [[hl[i]]] + [[hl[i], hl[j]] for j in range(len(hl))]:
        out += [(s, w, {"mode": "hostile", "lines": lines}) for s, w in check_hostile(lines)]
    return dict(evals=len(hl) + 1, hviol=out)


def work(item):
    return work_hostile(item) if item[0] == "hostile" else work_structured(item)


def _probe(spec):
    lines = [render(tuple(s)) for s in spec]
    return observe(lines)


# ---------------------------------------------------------------------------------------------------------------


def structured_items(name: str, lengths) -> list:
    a = len(ALPHABETS[name])
    items = []
    for n in lengths:
        for prefix in itertools.product(range(a), repeat=min(n, 2)):
            items.append((name, n, prefix))
    return items


def run(ctx):
    plan = [("full", (1, 2, 3)), ("mini", (4, 5))] if ctx.quick else [("full", (1, 2, 3, 4)), ("reduced", (5,)), ("mini", (6,))]
    ctx.prove_deterministic(_probe, [[("Block", 0), ("Mark", 4)], [("Block", 0), ("comment", 2), ("Watch", 4), ("Mark", 0)],
                                     [("Mark", 2), ("Macro", 8), ("blank", 0)]])
    # the reference law itself: fixed points written out by hand
    assert law((("open", 0), ("leaf", 4), ("leaf", 0))) == ((frozenset({-1}), frozenset({0}), frozenset({-1})), True)
    assert law((("open", 0), ("ws", 0), ("open", 4), ("leaf", 8), ("leaf", 4))) == \
        ((frozenset({-1}), None, frozenset({0}), frozenset({2}), frozenset({0})), True)
    assert law((("leaf", 0), ("leaf", 4)))[0][1] == frozenset() and not law((("leaf", 0), ("leaf", 4)))[1]
    assert law((("open", 0), ("leaf", 0))) == ((frozenset({-1}), frozenset({-1})), True)

    tot = dict(evals=0, nontrivial=0, correct=0, wrong=0)
    per_sig: dict[str, int] = {}
    hl = hostile_lines()
    items = [it for name, lengths in plan for it in structured_items(name, lengths)]
    n_struct_items = len(items)
    items += [("hostile", i) for i in range(len(hl))]
    res = ctx.pmap(work, items, chunk=1)            # one pool for everything; simplest (shortest) texts first
    per_plan = {name: 0 for name, _ in plan}
    for it, r in zip(items[:n_struct_items], res[:n_struct_items]):
        for k in tot:
            tot[k] += r[k]
        per_plan[it[0]] += r["evals"]
        for sig, cnt, what, rep in r["viol"]:
            per_sig[sig] = per_sig.get(sig, 0) + cnt
            ctx.violation(sig, what, rep)
    bounds = []
    for name, lengths in plan:
        expect = sum(len(ALPHABETS[name]) ** n for n in lengths)
        if per_plan[name] != expect:
            raise HarnessError(f"enumerated {per_plan[name]} texts over alphabet {name} lengths {lengths}, expected {expect}")
        bounds.append(dict(alphabet=name, symbols=len(ALPHABETS[name]), lengths=list(lengths), texts=expect))
        ctx.note(f"[C17] alphabet={name} ({len(ALPHABETS[name])} lines) lengths={list(lengths)}: {expect} texts")
    if not tot["correct"] or not tot["wrong"]:
        raise HarnessError("one of the classes (correctly / wrongly indented) was never reached")
    n_hostile = 0
    for r in res[n_struct_items:]:
        n_hostile += r["evals"]
        for sig, what, rep in r["hviol"]:
            per_sig[sig] = per_sig.get(sig, 0) + 1
            ctx.violation(sig, what, rep)
    if n_hostile != len(hl) * (len(hl) + 1):
        raise HarnessError("hostile enumeration incomplete")
    ctx.note(f"[C17] hostile lines={len(hl)}: {n_hostile} texts (all singles and ordered pairs)")

    ctx.coverage.update(
        evaluations=tot["evals"] + n_hostile,
        distinct_nontrivial=tot["nontrivial"],
        rule="every text of the stated lengths over the stated line alphabets (all texts distinct by construction) plus every "
             "single and ordered pair of the hostile lines; non-trivial = structured text with >= 2 instruction lines of which at "
             "least one opens a body (nesting is at stake)",
        samples=[[render(s) for s in spec] for spec in (
            [("Block", 0), ("Mark", 4), ("Mark", 0)], [("Block", 0), ("Watch", 4), ("comment", 2), ("Mark", 8)],
            [("Macro", 0), ("blank", 0), ("End block", 4), ("Mark", 12)])] + [[hl[3], hl[40]]],
        exhaustive=True,
        structured_texts=tot["evals"], correctly_indented_texts=tot["correct"], wrongly_indented_texts=tot["wrong"],
        hostile_lines=len(hl), hostile_texts=n_hostile, bounds=bounds, violations_per_signature=per_sig,
        explanation="exhaustive within the bounds: all texts over the finite alphabets up to the stated lengths",
    )
    ctx.assumptions += [
        "blank, spaces-only and comment lines are structure-neutral: any parent/flag accepted for them, they never open or close a body",
        "after the first wrongly indented line, every reading of how it affects later nesting is accepted (union of allowed parents)",
        "the line following an empty-bodied opener may be flagged or not; if not flagged it must be where the law puts it",
        "lines contain no '\\n'; line ids are distinct strings",
    ]


def replay(data):
    if data["mode"] == "structured":
        spec = [tuple(s) for s in data["spec"]]
        lines = [render(s) for s in spec]
    else:
        spec, lines = None, list(data["lines"])
    obs = observe(lines)
    print("text:")
    for k, ln in enumerate(lines):
        print(f"  {k}: {ln[:100]!r}" + (" ..." if len(ln) > 100 else ""))
    if obs["exc"] is not None:
        print("parse_method raised", obs["exc"])
    else:
        idx = {i: k for k, i in enumerate(obs["ids"])}
        idx[obs["root_id"]] = "root"
        print("parser tree (DFS pre-order): line -> parent, indent_error, node class")
        for nid, par, flagged, cls, ch in obs["pre"]:
            print(f"  {idx.get(nid, nid)!s:>4} -> {idx.get(par, par)!s:<5} indent_error={flagged!s:<5} {cls} @{ch}")
        if spec is not None:
            allowed, correct = law(shape_of(spec))
            print("law: correctly indented text =", correct)
            for k, a in enumerate(allowed):
                print(f"  {k:>4} -> " + ("(whitespace line: any)" if a is None else
                                         "MUST BE FLAGGED (not one level below an open body)" if not a else
                                         " or ".join("root" if q == -1 else str(q) for q in sorted(a))))
    out = judge_tree(lines, obs)
    if not out and spec is not None:
        out = judge_structure(spec, obs)
    return out
