"""C31 — Method saves use optimistic concurrency without lost updates.

Stateless exhaustive schedule exploration on `mc.vloop.VirtualLoop`.  Each execution builds fresh real objects
(`FrontendPublisher`, `AggregatorDispatcher`, `Aggregator`) and runs N concurrent invocations of the real REST route
function `routers.process_unit.save_method` (which calls `FromFrontend.save_method`).  The engine round trip is the real
`AggregatorDispatcher.rpc_call`; only the websocket channel below it is a fake whose `dispatch_message_async` suspends
on an explorer-owned future.  At every quiescent point the explorer picks (mc.explore.choice_vectors, unbounded
deviations = complete enumeration) which save to start next or which pending round trip to complete, and with which
outcome: ok / engine error message / transport error.

Oracle (from the statement, evaluated on the observed step sequence; the method version is read from
engine_data.method.version at every quiescent point):
  A  a save is accepted (route returns normally) only if the current version at that moment equals its base version
  B  every accepted save increases the version by exactly one
  C  nothing but an accepted save changes the version
  D  of the saves based on one version at most one is accepted
  E  final version == initial + number of accepted saves (backstop, implied by B and C)
"""
from __future__ import annotations

import itertools
import json
import logging
from unittest.mock import Mock

from mc import explore
from mc.core import HarnessError
from mc.vloop import VirtualLoop

ID = "C31"
LEVEL = "model_checking"
META = dict(
    technique="exhaustive interleaving exploration of concurrent save_method coroutines on a virtual asyncio loop",
    text="All orders of starting 2 (quick: plus 3 with selected bases) or 3 (thorough: plus 4 with selected bases) save requests and completing their engine "
         "round trips, each completion ok / engine error / transport error, for every assignment of base versions, are executed "
         "on the real route function, FromFrontend.save_method and AggregatorDispatcher.rpc_call under a deterministic loop that "
         "runs ready callbacks FIFO like asyncio; the version is observed at every quiescent point and compared with the "
         "optimistic-concurrency rules of the statement.",
    note="The only await inside a save is the engine round trip, so scheduling decisions at quiescent points cover every "
         "interleaving asyncio can produce. The websocket channel to the engine is a fake (explorer-owned futures); channel.close() "
         "does not suspend. Same schedule twice gives identical observations (checked).",
)

ENGINE = "E1"
OUTCOMES = ("ok", "engine_error", "transport_error")


class _Other:
    def __init__(self, sysm):
        self.sysm = sysm

    async def dispatch_message_async(self, message_json):
        import asyncio
        name = asyncio.current_task().get_name()
        fut = self.sysm.loop.create_future()
        self.sysm.pending[int(name[4:])] = fut
        self.sysm.sent.append(name)
        return await fut


class _Channel:
    def __init__(self, sysm):
        self.other = _Other(sysm)
        self.closed = 0

    async def close(self):
        self.closed += 1


class Sysm:
    """Fresh real aggregator objects for one execution."""

    def __init__(self, v0: int):
        logging.disable(logging.CRITICAL)
        import openpectus.aggregator.models as Mdl
        from openpectus.aggregator.aggregator import Aggregator
        from openpectus.aggregator.frontend_publisher import FrontendPublisher
        from openpectus.protocol.aggregator_dispatcher import AggregatorDispatcher
        self.loop = VirtualLoop()
        self.pending: dict[int, object] = {}
        self.sent: list = []
        self.dispatcher = AggregatorDispatcher()
        self.channel = _Channel(self)
        self.dispatcher._engine_id_channel_map[ENGINE] = self.channel      # engine connected
        self.agg = Aggregator(self.dispatcher, FrontendPublisher(), Mock(name="webpush"))
        ed = Mdl.EngineData(engine_id=ENGINE, computer_name="pc", engine_version="0", uod_name="uod", uod_author_name="",
                            uod_author_email="", uod_filename="", location="")
        ed.method = Mdl.Method(lines=[Mdl.MethodLine(id="l0", content="initial")], version=v0, last_author="")
        self.agg._engine_data_map[ENGINE] = ed
        self.ed = ed

    def version(self):
        return self.agg._engine_data_map[ENGINE].method.version


def _response(outcome):
    from fastapi_websocket_rpc.schemas import RpcResponse
    import openpectus.protocol.aggregator_messages as AM
    from openpectus.protocol.serialization import serialize
    if outcome == "ok":
        msg = AM.SuccessMessage()
    else:
        msg = AM.ErrorMessage(message="Failed to set method", exception_message="engine refused")
    return RpcResponse[str](result=json.dumps(serialize(msg)), result_type=None)


def execute(case, ch) -> dict:
    """One execution.  case = dict(v0, bases, outcomes); ch: explore.Chooser.

    After every scheduling decision the loop is stepped one ready handle at a time; the method version is read before
    and after each handle, so the version a save saw when it finished is exact even if several saves finish between two
    quiescent points (e.g. a save that waited on a lock)."""
    import openpectus.aggregator.routers.dto as Dto
    import openpectus.aggregator.routers.process_unit as pu
    from openpectus.aggregator.exceptions import AggregatorCallerException
    v0, bases, outcomes = case["v0"], case["bases"], case["outcomes"]
    n = len(bases)
    s = Sysm(v0)
    tasks: dict[int, object] = {}
    done: set[int] = set()
    steps = []
    started_at, ended_at, v_at_start = {}, {}, {}
    reported = False
    with s.loop:
        while True:
            options = [("start", i, None) for i in range(n) if i not in tasks]
            options += [("complete", i, o) for i in sorted(s.pending) for o in outcomes]
            if case.get("report") and not reported and tasks:
                # the engine's own method report (MethodMsg, sent during catch-up after a reconnect), built before any of the saves
                # reached the engine: carries the initial lines and the initial version, delivered through the real handler
                options.append(("report", -1, None))
            if not options:
                break
            kind, i, o = options[ch.pick(len(options), "sched")]
            v_step = s.version()
            if kind == "report":
                import openpectus.protocol.engine_messages as EM
                import openpectus.protocol.models as PM
                from openpectus.aggregator.aggregator_message_handlers import AggregatorMessageHandlers
                msg = EM.MethodMsg(method=PM.Method(version=v0, lines=[PM.MethodLine(id="l0", content="initial"),
                                                                       PM.MethodLine(id="l1", content="")]))
                msg.engine_id = ENGINE
                s.loop.spawn(AggregatorMessageHandlers(s.agg).handle_MethodMsg(msg), name="report")
                reported = True
            elif kind == "start":
                # what the save carries: its own text / the same text as every other save / the text that is stored already
                content = {"own": f"content of save{i}", "shared": "the same fix", "initial": "initial"}[case.get("texts", "own")]
                dto = Dto.Method(lines=[Dto.MethodLine(id="l0", content=content)], version=v0 + bases[i], last_author="")
                who = 0 if case.get("same_user") else i          # all saves by one user (second tab, double click, no authentication)
                tasks[i] = s.loop.spawn(pu.save_method(user_name=f"U{who}", user_id=f"u{who}", user_roles=set(), unit_id=ENGINE,
                                                       method_dto=dto, agg=s.agg), name=f"save{i}")
                started_at[i] = len(steps)
                v_at_start[i] = v_step
            else:
                fut = s.pending.pop(i)
                if o == "transport_error":
                    fut.set_exception(ConnectionError("link down"))
                else:
                    fut.set_result(_response(o))
            events = []          # [save index or None, status, detail, version before the handle, version after it]
            while True:
                vb = s.version()
                if not s.loop.step():
                    break
                va = s.version()
                fin = []
                for j, t in sorted(tasks.items()):
                    if j in done or not t.done():
                        continue
                    done.add(j)
                    ended_at[j] = len(steps)
                    exc = t.exception()
                    if exc is None:
                        fin.append([j, "accepted", t.result().version, vb, va])
                    elif isinstance(exc, AggregatorCallerException) and f"save{j}" not in s.sent:
                        fin.append([j, "rejected", type(exc).__name__, vb, va])
                    else:
                        fin.append([j, "failed", type(exc).__name__, vb, va])
                if len(fin) > 1:
                    raise HarnessError("C31: two saves finished inside one loop callback")
                if fin:
                    events.append(fin[0])
                elif va != vb:
                    events.append([None, "running", None, vb, va])
            steps.append({"do": [kind, i, o], "v_before": v_step, "v_after": s.version(), "events": events,
                          "in_flight": sorted(s.pending), "unfinished": sorted(set(tasks) - done)})
        s.loop.drain()                       # publish_method_changed tasks
    unfinished = sorted(set(tasks) - done)
    ed = s.agg._engine_data_map[ENGINE]
    res = {"case": case, "steps": steps, "final_version": s.version(), "final_author": ed.method.last_author,
           "final_content": ed.method.lines[0].content if ed.method.lines else None,
           "started_at": started_at, "ended_at": ended_at, "v_at_start": v_at_start, "unfinished": unfinished,
           "rpc_sent": len(s.sent), "channel_closed": s.channel.closed, "loop_exceptions": len(s.loop.exceptions)}
    s.loop.shutdown()
    return res


def check_exec(ex) -> list[tuple[str, str]]:
    """Reference oracle on one observed execution."""
    case = ex["case"]
    v0, bases = case["v0"], case["bases"]
    out = []
    accepted = []
    b_or_c = False

    def sched():
        return " ; ".join(f"{k} save{i}" + (f"={o}" if o else "") for k, i, o in (st["do"] for st in ex["steps"]))
    for st in ex["steps"]:
        kind, i, o = st["do"]
        for j, status, detail, vb, va in st["events"]:
            if status == "accepted":
                accepted.append(j)
                base = v0 + bases[j]
                if vb != base:
                    shape = "version-changed-during-rpc" if ex["v_at_start"][j] == base else "stale-at-start"
                    out.append((f"C31:accepted-on-stale-version:{shape}",
                                f"save{j} based on version {base} was accepted while the current version was {vb} "
                                f"(version when it started: {ex['v_at_start'][j]}); initial version {v0}, bases {bases}; schedule: {sched()}"))
                if va - vb != 1:
                    b_or_c = True
                    out.append((f"C31:accepted-save-version-delta-not-1:{'on-current-version' if vb == base else 'on-stale-version'}",
                                f"accepted save{j} changed the version from {vb} to {va} (expected +1); final method content "
                                f"'{ex['final_content']}' by {ex['final_author']}; schedule: {sched()}"))
            elif va != vb and kind == "report":
                b_or_c = True
                out.append(("C31:version-changed-by-engine-method-report",
                            f"the engine's method report (built before the saves, version {v0}) changed the version from {vb} to {va}; "
                            f"schedule: {sched()}"))
            elif va != vb:
                b_or_c = True
                who = f"save{j} ({status}: {detail})" if j is not None else "a save that was still running"
                out.append((f"C31:version-changed-without-accept:{status}{':' + o if o else ''}",
                            f"in step '{kind} save{i}{'=' + o if o else ''}' {who} changed the version from {vb} to {va} although it "
                            f"was not accepted; schedule: {sched()}"))
    by_base: dict[int, list[int]] = {}
    for j in accepted:
        by_base.setdefault(bases[j], []).append(j)
    for b, js in sorted(by_base.items()):
        if len(js) > 1:
            overlap = any(ex["started_at"][x] < ex["ended_at"][y] and ex["started_at"][y] < ex["ended_at"][x]
                          for x, y in itertools.combinations(js, 2))
            returned = [e[2] for st in ex["steps"] for e in st["events"] if e[1] == "accepted" and e[0] in js]
            # a version number that existed twice (the counter went back) lets two strictly sequential saves share a base
            regressed = any(e[4] < e[3] for st in ex["steps"] for e in st["events"])
            shape = "overlapping-round-trips" if overlap else ("sequential-after-version-went-backwards" if regressed else "sequential")
            out.append((f"C31:multiple-accepted-same-base:{shape}",
                        f"saves {['save%d' % j for j in js]} all based on version {v0 + b} were all accepted "
                        f"(returned versions {returned}); final version {ex['final_version']}, final content "
                        f"'{ex['final_content']}'; schedule: {sched()}"))
    if ex["final_version"] != v0 + len(accepted) and not b_or_c:
        out.append(("C31:final-version-mismatch",
                    f"final version {ex['final_version']} != initial {v0} + {len(accepted)} accepted; schedule: {sched()}"))
    if ex["loop_exceptions"]:
        out.append(("C31:background-task-raised", f"a task spawned during the saves raised; schedule: {sched()}"))
    return out


def run_schedule(item):
    """(case, choices) -> observation; used for the determinism proof and replay."""
    case, choices = item
    return execute(case, explore.Chooser(choices))


def explore_case(case):
    """Worker: all schedules of one case."""
    viol: dict[str, tuple] = {}
    c = dict(execs=0, decisions=0, overlapping=0, rpc_overlap=0, accepted=0, rejected=0, failed=0, race_shape=0, violating=0, max_in_flight=0)
    sample = None
    outcomes_seen = set()
    for choices, ex in explore.choice_vectors(lambda ch: execute(case, ch), bound=10 ** 6):
        if ex["unfinished"]:
            raise HarnessError(f"C31: saves {ex['unfinished']} never finished under schedule {choices}")
        c["execs"] += 1
        c["decisions"] += len(choices)
        mif = max((len(st["in_flight"]) for st in ex["steps"]), default=0)
        c["max_in_flight"] = max(c["max_in_flight"], mif)
        if mif >= 2:
            c["rpc_overlap"] += 1
        if max((len(st["unfinished"]) for st in ex["steps"]), default=0) >= 2:
            c["overlapping"] += 1            # two saves started and unfinished at a quiescent point
            sample = sample or choices
        fins = [e for st in ex["steps"] for e in st["events"] if e[0] is not None]
        for e in fins:
            c[e[1]] += 1
        outcomes_seen.add(tuple(sorted((e[0], e[1]) for e in fins)))
        found = check_exec(ex)
        if found:
            c["violating"] += 1
        for sig, what in found:
            if sig not in viol:
                viol[sig] = (sig, what, {"case": case, "choices": choices})
    return {"viol": list(viol.values()), "c": c, "sample": sample, "distinct_outcomes": len(outcomes_seen)}


def cases(quick: bool):
    out = []
    if quick:
        for n in (1, 2):
            for bases in itertools.product((0, 1), repeat=n):
                out.append(dict(v0=0, bases=list(bases), outcomes=list(OUTCOMES)))
        for bases in ((0, 0, 0), (0, 1, 2), (0, 0, 1), (0, 1, 1)):
            out.append(dict(v0=0, bases=list(bases), outcomes=["ok", "engine_error"]))
    else:
        for n in (1, 2):
            for bases in itertools.product((0, 1), repeat=n):
                for v0 in (0, 5):
                    out.append(dict(v0=v0, bases=list(bases), outcomes=list(OUTCOMES)))
        for bases in itertools.product((0, 1, 2), repeat=3):
            for v0 in (0, 5):
                out.append(dict(v0=v0, bases=list(bases), outcomes=list(OUTCOMES)))
        for bases in ((0, 0, 0, 0), (0, 0, 0, 1), (0, 0, 1, 1), (0, 1, 2, 3)):       # four concurrent saves, two outcomes
            out.append(dict(v0=0, bases=list(bases), outcomes=["ok", "engine_error"]))
    # the engine's own (stale) method report arrives at any point between / during the saves
    for bases in ((0,), (0, 0), (0, 1)) + (() if quick else ((0, 0, 1), (0, 1, 2))):
        for v0 in (0, 5):
            out.append(dict(v0=v0, bases=list(bases), outcomes=["ok", "engine_error"], report=True))
    # all saves come from the same user
    for bases in ((0, 0), (0, 1)) + (() if quick else ((0, 0, 0), (0, 0, 1), (0, 1, 2))):
        out.append(dict(v0=0, bases=list(bases), outcomes=list(OUTCOMES), same_user=True))
    # saves that carry the same text (two users typing the same fix, a retried request) or the text that is stored already
    same = []
    for c in out:
        if not c.get("report") and not c.get("same_user") and (len(c["bases"]) <= (2 if quick else 3) or c["bases"] in ([0, 0, 0], [0, 0, 1])):
            for texts in ("shared", "initial"):
                same.append(dict(c, texts=texts))
    out += same
    out.sort(key=lambda c: (len(c["bases"]), sum(c["bases"]), c["bases"], c["v0"], c.get("texts", "own"), bool(c.get("report")), bool(c.get("same_user"))))     # simplest first
    return out


def run(ctx):
    cs = cases(ctx.quick)
    race = (dict(v0=0, bases=[0, 0], outcomes=list(OUTCOMES)), [0, 0, 0, 0])
    ctx.prove_deterministic(run_schedule, [race, (dict(v0=0, bases=[0, 1], outcomes=list(OUTCOMES)), [0, 1, 0, 0]),
                                           (dict(v0=0, bases=[0, 0, 1], outcomes=["ok", "engine_error"]), [1, 0, 1, 0, 0, 0])])
    # quick is ~1 s of work: a 16-process pool costs more than it saves
    results = [explore_case(c) for c in cs] if ctx.quick else ctx.pmap(explore_case, cs, chunk=1)
    tot = dict(execs=0, decisions=0, overlapping=0, rpc_overlap=0, accepted=0, rejected=0, failed=0, violating=0)
    samples = []
    per_case = []
    for case, r in zip(cs, results):
        for sig, what, rp in r["viol"]:
            ctx.violation(sig, what, rp)
        for k in tot:
            tot[k] += r["c"][k]
        if r["sample"] is not None and len(samples) < 4:
            samples.append({"case": case, "choices": r["sample"]})
        per_case.append({"bases": case["bases"], "v0": case["v0"], "outcomes": len(case["outcomes"]), "executions": r["c"]["execs"],
                         "overlapping": r["c"]["overlapping"], "distinct_result_vectors": r["distinct_outcomes"]})
    if not tot["overlapping"] or not tot["accepted"] or not tot["rejected"] or not tot["failed"]:
        raise HarnessError(f"C31 vacuous: {tot}")
    ctx.note(f"[C31] cases={len(cs)} executions={tot['execs']} decisions={tot['decisions']} overlapping={tot['overlapping']} "
             f"accepted={tot['accepted']} rejected={tot['rejected']} failed={tot['failed']} violating_executions={tot['violating']}")
    ctx.coverage.update(
        states=tot["execs"], transitions=tot["decisions"], traces_validated_against_impl=tot["execs"],
        evaluations=tot["execs"], distinct_nontrivial=tot["overlapping"],
        rule="every schedule (order of task starts and round-trip completions, each completion with every outcome) of every case "
             "is one execution of the real coroutines; states = distinct schedules executed, transitions = scheduling decisions; "
             "non-trivial = executions in which at least two saves were started and unfinished at the same quiescent point",
        samples=samples, cases=len(cs), per_case=per_case if len(per_case) <= 24 else per_case[:24],
        executions_with_two_round_trips_in_flight=tot["rpc_overlap"], saves_accepted=tot["accepted"], saves_rejected_on_version=tot["rejected"], saves_failed_on_engine=tot["failed"],
        violating_executions=tot["violating"], outcomes=list(OUTCOMES), max_concurrent_saves=max(len(c["bases"]) for c in cs),
        exhaustive=True,
        explanation="choice_vectors with an unbounded deviation budget enumerates the complete decision tree of each case",
    )
    ctx.assumptions += [
        "asyncio runs ready callbacks FIFO and a coroutine only yields at awaits; the only suspension point of a save is the engine "
        "round trip (channel.close() and the publisher do not block)",
        "the engine answers every request (ok / error message / transport error); lost answers (timeouts) are not modelled",
        "auth disabled: the route is called with explicit user name/id and empty role sets",
    ]


def replay(data):
    ex = run_schedule((data["case"], data["choices"]))
    case = data["case"]
    print(f"initial version {case['v0']}, saves based on versions {[case['v0'] + b for b in case['bases']]}")
    for st in ex["steps"]:
        kind, i, o = st["do"]
        fin = ", ".join((f"save{f[0]} {f[1]}" + (f" (returned version {f[2]})" if f[1] == "accepted" else f" [{f[2]}]") if f[0] is not None
                         else "version changed by a running save") + f" at version {f[3]}->{f[4]}" for f in st["events"])
        print(f"  {kind:8} save{i}{('=' + o) if o else '':17} version {st['v_before']} -> {st['v_after']}  in flight {st['in_flight']}  {fin}")
    print(f"final version {ex['final_version']}, content '{ex['final_content']}' by {ex['final_author']}, rpc sent {ex['rpc_sent']}")
    return check_exec(ex)
