"""C10 — Stop and Restart leave no command running and start cleanly.

Bounded-exhaustive enumeration of programs x (user Stop | user Restart at every tick, or a method-issued Stop /
Restart as the last line) on the real Engine.  At the tick in which the Stop / the first Restart completes the
cleanup obligations of the statement are checked on the real objects; after a Restart the new run is compared with
a fresh run of the same method (differential oracle, order and counts, not timing).
"""
from __future__ import annotations

import collections

from mc import pgen
from mc.core import HarnessError
from mc.engine_harness import Run, apply_request

ID = "C10"
LEVEL = "model_checking"
META = dict(
    technique="bounded-exhaustive enumeration of programs x (Stop|Restart at every tick, method-issued Stop/Restart) on the "
              "real Engine with a cleanup monitor at the completion tick and a differential oracle against a fresh run",
    text="Every program of the grammar up to the size bound is run on the real engine with the instrumented UOD; a user "
         "Stop and a user Restart are issued before every tick up to the point where the run has become steady, and each "
         "program is also run with a trailing Stop / Restart line.  At the tick in which System State becomes Stopped "
         "(Stop) or Running again (Restart): uod.command_instances is empty, no internal command besides the finishing one "
         "is registered, every UOD command that had an init event was finalized exactly once and is completed / failed / "
         "cancelled in the run log captured when on_stop fires, no tag is simulated, Run Id is None (Stop) or new "
         "(Restart), no old command has any further event; after Restart the sequence of marks and command starts "
         "equals that of a fresh run of the same method.",
    note="Small scope: <= 3 statements (4 thorough over a sub-grammar), nesting <= 2, one request per execution, only the "
         "first Stop/Restart completion of an execution is examined; In1 = 2.0 throughout (Watch: In1 > 1 fires unless "
         "In1 is simulated to 0); the comparison with the fresh run tolerates a shift of 2 ticks.",
)

# statement kinds (pgen codes): Long: 3, Hang, OvA, OvB, SetOut, Pause: 0.3s, Hold: 0.3s, Simulate: In1 = 0, Wait: 0.3s,
# Mark, Boom: 2 (fails in its second exec -> 'failed' item), Watch: In1 > 1 {...}
KINDS = ["L", "H", "A", "B", "S", "P", "Ho", "SiI", "W", "M", "Boom", "WaI"]
KINDS3 = ["L", "H", "A", "B", "P", "SiI", "M", "WaI"]
KINDS4 = ["L", "A", "B", "P", "SiI", "WaI"]
T_REQ = 22            # last tick before which a user request is issued
AFTER = 16            # ticks observed after a Restart completed (compared with the fresh run)
SLACK = 2
AFTER_STOP = 4        # ticks observed after System State became Stopped (a Restart is Running again within these)
CONCLUSIVE = {"completed", "failed", "cancelled"}
UOD_NAMES = {"Inst", "Long", "Hang", "OvA", "OvB", "SetOut", "Valve", "Dose", "Boom"}


def simulated_tags(run: Run) -> list[str]:
    return sorted(t.name for t in run.engine._iter_all_tags() if getattr(t, "simulated", False))


def drive(lines, schedule, max_ticks, stop_rule=True):
    """Run the program; `schedule` = ((tick, request), ...) applied before that tick.  Stops AFTER ticks after the
    first restart completed / AFTER_STOP ticks after the first stop completed (or at max_ticks)."""
    run = Run("\n".join(lines), observe=())
    run.set_input("In1", 2.0)
    by_tick = collections.defaultdict(list)
    for t, req in schedule:
        by_tick[t].append(tuple(req))
    trace = []
    nmarks = 0
    end_at = max_ticks
    prev_state = "Stopped"
    s = None
    c = None
    for t in range(max_ticks):
        if t >= end_at:
            break
        recs = [apply_request(run, req) for req in by_tick.get(t, ())]
        ob = run.tick()
        marks = run.marks()
        rec = {"n": t, "state": ob["state"], "rid": run.tag("Run Id"), "marks": marks[nmarks:], "cmd": [list(e) for e in ob["cmd"]],
               "instances": ob["instances"], "registry": ob["registry"], "sim": simulated_tags(run),
               "req": [(r["kind"], r.get("name"), r["accepted"], r["error"]) for r in recs]}
        if "tick_exception" in ob:
            rec["exc"] = ob["tick_exception"]
        nmarks = len(marks)
        trace.append(rec)
        if stop_rule:
            if s is None and rec["state"] == "Stopped" and prev_state != "Stopped":
                s = t
                end_at = min(max_ticks, t + 1 + AFTER_STOP)
            elif s is not None and c is None and rec["state"] == "Running":
                c = t
                end_at = t + 1 + AFTER
        prev_state = rec["state"]
    on_stop = list(run.on_stop_runlogs)
    run.cleanup()
    return trace, on_stop


def event_seq(trace, first, last):
    """Marks and command starts (init events) of ticks first..last-1 in order; mark names identify the line."""
    out = []
    for rec in trace:
        if first <= rec["n"] < last:
            out += [f"Mark:{m}" for m in rec["marks"]]
            out += [f"init:{e[1]}" for e in rec["cmd"] if e[2] == "init"]
    return out


def is_prefix(a, b):
    return len(a) <= len(b) and b[:len(a)] == a


def ev_class(e):
    return "Mark" if e.startswith("Mark:") else e


def completion(trace, kinds):
    """-> (kind, s, c): s = first tick in which System State became Stopped, c = completion tick (None if not reached).
    kinds = the requests in play (user request name and/or trailing line).  With both a Stop and a Restart in play the
    one that took effect is recognised by its outcome: Running again within AFTER_STOP ticks = Restart."""
    prev = "Stopped"
    s = None
    for rec in trace:
        if rec["state"] == "Stopped" and prev != "Stopped":
            s = rec["n"]
            break
        prev = rec["state"]
    if s is None:
        return None, None, None
    again = [rec["n"] for rec in trace if s < rec["n"] <= s + AFTER_STOP and rec["state"] == "Running"]
    kinds = sorted(set(kinds))
    kind = kinds[0] if len(kinds) == 1 else ("Restart" if again else "Stop")
    if kind == "Stop":
        return kind, s, s
    return kind, s, (again[0] if again else None)


def judge(lines, trace, on_stop, origin, fresh, kinds):
    """-> (problems [(sig, what)], info).  origin = 'user' | 'method'."""
    probs = []
    info = {"kind": None, "nontrivial": False, "completed": False}
    for rec in trace:
        if "exc" in rec:
            probs.append(("C10:tick-raised", f"Engine.tick raised {rec['exc']} at tick {rec['n']}"))
    kind, s, c = completion(trace, kinds)
    info["kind"] = kind
    if s is None:
        return probs, info
    by_n = {rec["n"]: rec for rec in trace}
    if kind == "Restart" and c is None:
        probs.append((f"C10:restart-never-running-again:{origin}",
                      f"Restart reached Stopped at tick {s} but System State is {trace[-1]['state']} {len(trace) - 1 - s} ticks later"))
        return probs, info
    info["completed"] = True
    tag = f"{kind}:{origin}"
    at_c = by_n[c]
    pre = by_n.get(s - 2)
    info["nontrivial"] = bool((pre and (pre["instances"] or pre["sim"])) or by_n[s - 1]["cmd"])

    # (1) nothing holds an instance / is registered
    if at_c["instances"]:
        probs.append((f"C10:instance-left:{','.join(at_c['instances'])}:{tag}",
                      f"uod.command_instances = {at_c['instances']} at tick {c} when {kind} completed"))
    extra = [x for x in at_c["registry"] if x != kind]
    if extra:
        probs.append((f"C10:internal-command-left:{','.join(extra)}:{tag}",
                      f"internal command(s) {extra} still registered at tick {c} when {kind} completed"))
    # (2) every started UOD command finalized once and concluded in the final run log
    phases = collections.defaultdict(list)
    names = {}
    for rec in trace:
        for (tk, name, phase, iid, it) in rec["cmd"]:
            phases[iid].append((tk, phase))
            names[iid] = name
    started = [iid for iid, ph in phases.items() if any(p == "init" and tk <= s for tk, p in ph)]
    caps = [(tk, rl) for tk, rl in on_stop if tk <= c]
    final_rl = None
    if not caps:
        probs.append((f"C10:on-stop-not-emitted:{tag}", f"{kind} completed at tick {c} but on_stop was never emitted (no run-stopped message)"))
    else:
        final_rl = caps[0][1]
        if isinstance(final_rl, str):
            probs.append((f"C10:final-runlog-raises:{final_rl.split(':')[1]}:{tag}", f"producing the run log at on_stop (tick {caps[0][0]}) raised {final_rl}"))
            final_rl = None
    for iid in started:
        name = names[iid]
        fins = [tk for tk, p in phases[iid] if p == "finalize"]
        if len(fins) == 0 or fins[0] > c:
            probs.append((f"C10:started-command-not-finalized:{name}:{tag}",
                          f"{name} ({iid[-4:]}) had init at tick {phases[iid][0][0]} but no finalize by tick {c} when {kind} completed: {phases[iid]}"))
        elif len(fins) > 1:
            probs.append((f"C10:started-command-finalized-{len(fins)}-times:{name}:{tag}", f"{name} ({iid[-4:]}) finalized at ticks {fins}"))
        late = [(tk, p) for tk, p in phases[iid] if tk > c]
        if late:
            probs.append((f"C10:old-command-event-after-completion:{name}:{late[0][1]}:{tag}",
                          f"{name} ({iid[-4:]}) of the ended run has events {late} after {kind} completed at tick {c}"))
        if final_rl is not None:
            items = [it for it in final_rl if it["id"] == iid]
            if not items:
                probs.append((f"C10:started-command-missing-in-final-runlog:{name}:{tag}",
                              f"{name} ({iid[-4:]}) started at tick {phases[iid][0][0]} but the run log at on_stop has no item for it: "
                              f"{[(i['name'], i['state']) for i in final_rl]}"))
            else:
                bad = [it["state"] for it in items if it["state"] not in CONCLUSIVE]
                if bad:
                    probs.append((f"C10:started-command-{bad[0]}-in-final-runlog:{name}:{tag}",
                                  f"{name} ({iid[-4:]}) is '{bad[0]}' in the run log captured at on_stop: {[(i['name'], i['state']) for i in final_rl]}"))
    # (3) simulation cleared
    if at_c["sim"]:
        probs.append((f"C10:tag-still-simulated:{','.join(at_c['sim'])}:{tag}", f"tag(s) {at_c['sim']} still simulated at tick {c} when {kind} completed"))
    # (4) run id
    old_rid = by_n[s - 1]["rid"]
    if by_n[s]["rid"] is not None:
        probs.append((f"C10:run-id-not-cleared:{tag}", f"Run Id is {by_n[s]['rid']} in the tick System State became Stopped ({s})"))
    if kind == "Restart":
        if at_c["rid"] is None or at_c["rid"] == old_rid:
            probs.append((f"C10:run-id-not-renewed:{tag}", f"Run Id after Restart is {at_c['rid']} (ended run: {old_rid})"))
    else:
        for rec in trace:
            if rec["n"] > c and (rec["cmd"] or rec["instances"]):
                probs.append((f"C10:command-activity-after-stop:{tag}", f"command events {rec['cmd']} / instances {rec['instances']} at tick {rec['n']} after Stop completed at {c}"))
                break
    # (5) the new run equals a fresh run
    later_req = [rec["n"] for rec in trace if rec["n"] > s - 1 and any(a for (_, _, a, _) in rec["req"])]
    if kind == "Restart" and not later_req:
        n_after = trace[-1]["n"] - c          # ticks observed after the completion tick
        got = event_seq(trace, c + 1, c + 1 + n_after)
        # fresh run: Start executes in tick 0 (as Restart completes in tick c), the method begins in tick 1
        lo = event_seq(fresh, 1, 1 + n_after - SLACK)
        hi = event_seq(fresh, 1, 1 + n_after + SLACK)
        if not (is_prefix(lo, got) and is_prefix(got, hi)):
            k = 0
            while k < len(got) and k < len(hi) and got[k] == hi[k]:
                k += 1
            exp = ev_class(hi[k]) if k < len(hi) else "nothing"
            act = ev_class(got[k]) if k < len(got) else "nothing"
            probs.append((f"C10:restarted-run-differs-from-fresh-run:expected-{exp}:got-{act}:{origin}",
                          f"after Restart completed at tick {c} the method produced {got} in {n_after} ticks; a fresh run of the same "
                          f"method produces {lo} in {n_after - SLACK} and {hi} in {n_after + SLACK} ticks"))
    return probs, info


def fresh_trace(lines):
    tr, _ = drive(lines, (), AFTER + SLACK + 2, stop_rule=False)
    return tr


def quiescent_tick(lines):
    """First tick from which the request-free run is steady (nothing changes but exec of a never-ending command)."""
    tr, _ = drive(lines, (), T_REQ + 6, stop_rule=False)
    fp = [(r["state"], tuple(r["instances"]), tuple(r["registry"]), tuple(r["sim"]), bool(r["marks"]),
           tuple(e[2] for e in r["cmd"] if e[2] != "exec")) for r in tr]
    last_change = 0
    for i in range(1, len(fp)):
        if fp[i] != fp[i - 1] or fp[i][4] or fp[i][5]:
            last_change = i
    return last_change


def explore_program(item):
    lines, with_user, trailing = item
    out = []
    cnt = collections.Counter()
    fresh_cache = {}

    def one(prog, sched, origin):
        kinds = [r[1] for _, r in sched] + ([prog[-1]] if prog[-1] in ("Stop", "Restart") else [])
        key = tuple(prog)
        if key not in fresh_cache:
            fresh_cache[key] = fresh_trace(prog)
        trace, on_stop = drive(prog, sched, T_REQ + 12 + AFTER)
        probs, info = judge(prog, trace, on_stop, origin, fresh_cache[key], kinds)
        cnt["exec"] += 1
        cnt["ticks"] += len(trace)
        if info["completed"]:
            cnt["completed:" + info["kind"]] += 1
            if info["nontrivial"]:
                cnt["nontrivial"] += 1
        elif sched:
            accepted = any(a for rec in trace for (_, _, a, _) in rec["req"])
            cnt["request-accepted-no-completion" if accepted else "request-rejected"] += 1
            if accepted and not probs:
                probs.append((f"C10:accepted-{sched[0][1][1]}-never-completes", f"user {sched[0][1][1]} before tick {sched[0][0]} was accepted "
                              f"but System State never became Stopped; final state {trace[-1]['state']}"))
        else:
            cnt["no-completion"] += 1
        seen = set()
        for sig, what in probs:
            if sig not in seen:
                seen.add(sig)
                out.append((sig, what, {"lines": prog, "schedule": [[t, list(r)] for t, r in sched]}))
        return trace

    if with_user:
        last = min(quiescent_tick(lines) + 3, T_REQ)
        for t in range(1, last + 1):
            for name in ("Stop", "Restart"):
                one(lines, ((t, ("user", name)),), "user")
    for tail in trailing:
        prog = lines + [tail]
        alone = one(prog, (), "method")
        if with_user == "all":
            # a request after the method's own Stop/Restart completed is a request in a fresh run (already enumerated)
            _, _, c_alone = completion(alone, [tail])
            last = min(c_alone if c_alone is not None else T_REQ, T_REQ)
            for t in range(1, last + 1):
                for name in ("Stop", "Restart"):
                    one(prog, ((t, ("user", name)),), "user+method")
    seen = set()
    uniq = []
    for sig, what, rep in out:
        if sig not in seen:
            seen.add(sig)
            uniq.append((sig, what, rep))
    return uniq, dict(cnt)


def corpus(ctx):
    tails = ["Stop", "Restart"]
    items = []
    for f in pgen.programs(KINDS, 2, depth=2):
        items.append((pgen.render(f), "all", tails))
    if ctx.quick:
        for f in pgen.forests(KINDS3, 3, 2):
            items.append((pgen.render(f), True, tails))
        bounds = f"<=2 statements over {KINDS} (also user request x trailing Stop/Restart); 3 statements over {KINDS3}"
    else:
        for f in pgen.forests(KINDS, 3, 2):
            items.append((pgen.render(f), True, tails))
        for f in pgen.forests(KINDS4, 4, 2):
            items.append((pgen.render(f), True, tails))
        bounds = f"<=3 statements over {KINDS} (<=2: also user request x trailing Stop/Restart); 4 statements over {KINDS4}"
    return items, bounds


def run(ctx):
    items, bounds = corpus(ctx)
    ctx.prove_deterministic(explore_program, [items[2], items[len(items) // 2]], k=2)
    results = ctx.pmap(explore_program, items, chunk=1)
    tot = collections.Counter()
    for it, (viol, cnt) in zip(items, results):
        tot.update(cnt)
        for sig, what, rep in viol:
            ctx.violation(sig, what, rep)
    if tot["completed:Stop"] < 100 or tot["completed:Restart"] < 100 or tot["nontrivial"] < 100:
        raise HarnessError(f"vacuous: {dict(tot)}")
    ctx.coverage.update(
        states=tot["ticks"], transitions=tot["ticks"], traces_validated_against_impl=tot["exec"], evaluations=tot["exec"],
        distinct_nontrivial=tot["nontrivial"], programs=len(items), stop_completions_examined=tot["completed:Stop"],
        restart_completions_examined=tot["completed:Restart"], requests_rejected=tot["request-rejected"],
        runs_without_completion=tot["no-completion"] + tot["request-accepted-no-completion"],
        rule="one execution = one program with one user Stop/Restart before a given tick (every tick until the request-free "
             "run is steady + 3) or with a trailing Stop/Restart line; states = ticks observed; non-trivial = the Stop/Restart "
             "landed while a UOD command instance existed, a tag was simulated or a command had an event in the cancelling tick",
        samples=[items[1][0], items[len(items) // 2][0], items[-1][0]], exhaustive=True, bounds=bounds,
        request_ticks=f"1..min(steady+3, {T_REQ})", ticks_compared_after_restart=AFTER)
    ctx.assumptions += ["In1 = 2.0 in every run (Watch: In1 > 1 is true unless In1 is simulated to 0)",
                        "only the first Stop/Restart completion of an execution is examined",
                        f"restarted run vs fresh run: marks and command starts, prefix comparison with {SLACK} ticks tolerance"]


def replay(data):
    lines = data["lines"]
    sched = tuple((t, tuple(r)) for t, r in data["schedule"])
    trace, on_stop = drive(lines, sched, T_REQ + 12 + AFTER)
    print("program:", lines, " schedule:", sched)
    for rec in trace:
        print(rec["n"], rec["state"], "rid=" + str(rec["rid"])[-4:], "marks+", rec["marks"],
              "cmd", [(e[1], e[2], e[3][-4:], e[4]) for e in rec["cmd"]], "inst", rec["instances"], "reg", rec["registry"],
              "sim", rec["sim"], "req", rec["req"] if rec["req"] else "")
    for tk, rl in on_stop:
        print(f"run log at on_stop (tick {tk}):", rl if isinstance(rl, str) else [(i["name"], i["state"], i["id"][-4:]) for i in rl])
    fresh = fresh_trace(lines)
    print("fresh run:", event_seq(fresh, 1, len(fresh)))
    origin = "user" if sched and lines[-1] not in ("Stop", "Restart") else ("user+method" if sched else "method")
    kinds = [r[1] for _, r in sched] + ([lines[-1]] if lines[-1] in ("Stop", "Restart") else [])
    probs, _ = judge(lines, trace, on_stop, origin, fresh, kinds)
    seen, out = set(), []
    for sig, what in probs:
        if sig not in seen:
            seen.add(sig)
            out.append((sig, what))
    return out
