"""C10 — Stop and Restart leave no command running and start cleanly.

Bounded-exhaustive enumeration of programs x (user Stop | user Restart at every tick, or a method-issued Stop /
Restart as the last line) on the real Engine.  At the tick in which the Stop / the first Restart completes the
cleanup obligations of the statement are checked on the real objects; after a Restart the new run is compared with
a fresh run of the same method (differential oracle, order and counts, not timing).
"""
from __future__ import annotations

import collections

from mc import pgen
from mc.core import HarnessError
from mc.engine_harness import Run, apply_request

ID = "C10"
LEVEL = "model_checking"
META = dict(
    technique="bounded-exhaustive enumeration of programs x (Stop|Restart at every tick, method-issued Stop/Restart) on the "
              "real Engine with a cleanup monitor at the completion tick and a differential oracle against a fresh run",
    text="Every program of the grammar up to the size bound is run on the real engine with the instrumented UOD; a user "
         "Stop and a user Restart are issued before every tick up to the point where the run has become steady, and each "
         "grammar contains Stop / Restart lines (last statement of the main flow or of a Watch body), alone and with user requests.  At the tick in which System State becomes Stopped "
         "(Stop) or Running again (Restart): uod.command_instances is empty, no internal command besides the finishing one "
         "is registered, every UOD command that had an init event was finalized exactly once and is completed / failed / "
         "cancelled in the run log captured when on_stop fires, no tag is simulated, Run Id is None (Stop) or new "
         "(Restart), no old command has any further event; after Restart the sequence of marks and command starts "
         "equals that of a fresh run of the same method.",
    note="Small scope: <= 3 statements (4 thorough over a sub-grammar), nesting <= 2, one request per execution, only the "
         "first Stop/Restart completion of an execution is examined; In1 = 2.0 throughout (Watch: In1 > 1 fires unless "
         "In1 is simulated to 0); the comparison with the fresh run tolerates a shift of 2 ticks.",
)

# statement kinds (pgen codes): Long: 3, Hang, OvA, OvB, SetOut, Pause: 0.3s, Hold: 0.3s, Simulate: In1 = 0, Wait: 0.3s,
# Mark, Boom: 2 (fails in its second exec -> 'failed' item), Watch: In1 > 1 {...}
KINDS = ["L", "H", "A", "B", "S", "P", "Ho", "SiI", "SiL", "W", "M", "Boom", "WaI"]
KINDS3 = ["L", "H", "A", "B", "P", "SiI", "SiL", "M", "WaI"]
KINDS4 = ["L", "A", "B", "P", "SiI", "WaI"]
T_REQ = 22            # last tick before which a user request is issued
AFTER = 16            # ticks observed after a Restart completed (compared with the fresh run)
SLACK = 2
AFTER_STOP = 4        # ticks observed after System State became Stopped (a Restart is Running again within these)
CONCLUSIVE = {"completed", "failed", "cancelled"}
UOD_NAMES = {"Inst", "Long", "Hang", "OvA", "OvB", "SetOut", "Valve", "Dose", "Boom"}


def simulated_tags(run: Run) -> list[str]:
    return sorted(t.name for t in run.engine._iter_all_tags() if getattr(t, "simulated", False))


def drive(lines, schedule, max_ticks, stop_rule=True, x=0):
    """Run the program; `schedule` = ((tick, request), ...) applied before that tick; In1 becomes 2.0 before tick x.
    Stops AFTER ticks after the first restart completed / AFTER_STOP ticks after System State became Stopped."""
    run = Run("\n".join(lines), observe=())
    by_tick = collections.defaultdict(list)
    for t, req in schedule:
        by_tick[t].append(tuple(req))
    trace = []
    nmarks = 0
    end_at = max_ticks
    prev_state = "Stopped"
    s = None
    c = None
    for t in range(max_ticks):
        if t >= end_at:
            break
        if t == x:
            run.set_input("In1", 2.0)
        recs = [apply_request(run, req) for req in by_tick.get(t, ())]
        ob = run.tick()
        marks = run.marks()
        rec = {"n": t, "state": ob["state"], "rid": run.tag("Run Id"), "marks": marks[nmarks:], "cmd": [list(e) for e in ob["cmd"]],
               "instances": ob["instances"], "registry": ob["registry"], "sim": simulated_tags(run),
               "req": [(r["kind"], r.get("name"), r["accepted"], r["error"]) for r in recs]}
        if "tick_exception" in ob:
            rec["exc"] = ob["tick_exception"]
        # instances without a method line behind them (control commands of a user): the engine keeps them out of the run log
        rec["no_line"] = sorted({st.instance_id for r in run.engine.tracking.runtimeinfo.records if r.node_class_name == "NullNode"
                                 for st in r.states})
        nmarks = len(marks)
        trace.append(rec)
        if stop_rule:
            if s is None and rec["state"] == "Stopped" and prev_state != "Stopped":
                s = t
                end_at = min(max_ticks, t + 1 + AFTER_STOP)
            elif s is not None and c is None and rec["state"] == "Running":
                c = t
                end_at = t + 1 + AFTER
        prev_state = rec["state"]
    on_stop = list(run.on_stop_runlogs)
    run.cleanup()
    return trace, on_stop


def event_seq(trace, first, last):
    """Marks and command starts (init events) of ticks first..last-1 in order; mark names identify the line."""
    out = []
    for rec in trace:
        if first <= rec["n"] < last:
            out += [f"Mark:{m}" for m in rec["marks"]]
            out += [f"init:{e[1]}" for e in rec["cmd"] if e[2] == "init"]
    return out


def is_prefix(a, b):
    return len(a) <= len(b) and b[:len(a)] == a


def ev_class(e):
    return "Mark" if e.startswith("Mark:") else e


def completion(trace, kinds):
    """-> (kind, s, c): s = first tick in which System State became Stopped, c = completion tick (None if not reached).
    kinds = the requests in play (user request name and/or Stop/Restart lines of the method).  With both a Stop and a Restart in play the
    one that took effect is recognised by its outcome: Running again within AFTER_STOP ticks = Restart."""
    prev = "Stopped"
    s = None
    for rec in trace:
        if rec["state"] == "Stopped" and prev != "Stopped":
            s = rec["n"]
            break
        prev = rec["state"]
    if s is None:
        return None, None, None
    again = [rec["n"] for rec in trace if s < rec["n"] <= s + AFTER_STOP and rec["state"] == "Running"]
    kinds = sorted(set(kinds))
    kind = kinds[0] if len(kinds) == 1 else ("Restart" if again else "Stop")
    if kind == "Stop":
        return kind, s, s
    return kind, s, (again[0] if again else None)


def judge(lines, trace, on_stop, origin, fresh, kinds, x=0):
    """-> (problems [(sig, what)], info).  origin = 'user' | 'method'."""
    probs = []
    info = {"kind": None, "nontrivial": False, "completed": False}
    for rec in trace:
        if "exc" in rec:
            probs.append(("C10:tick-raised", f"Engine.tick raised {rec['exc']} at tick {rec['n']}"))
    kind, s, c = completion(trace, kinds)
    info["kind"] = kind
    if s is None:
        return probs, info
    by_n = {rec["n"]: rec for rec in trace}
    if kind == "Restart" and c is None:
        probs.append((f"C10:restart-never-running-again:{origin}",
                      f"Restart reached Stopped at tick {s} but System State is {trace[-1]['state']} {len(trace) - 1 - s} ticks later"))
        return probs, info
    info["completed"] = True
    tag = f"{kind}:{origin}"
    at_c = by_n[c]
    pre = by_n.get(s - 2)
    info["nontrivial"] = bool((pre and (pre["instances"] or pre["sim"])) or by_n[s - 1]["cmd"])

    phases = collections.defaultdict(list)
    names = {}
    no_line = {i for rec in trace for i in rec.get("no_line", ())}
    for rec in trace:
        for (tk, name, phase, iid, it) in rec["cmd"]:
            phases[iid].append((tk, phase))
            names[iid] = name
    # Root-cause diagnosis (one signature instead of its many symptoms): a command whose init falls into the cancelling
    # tick (s-1: first step of Stop/Restart) and that is not finalized by the time System State is Stopped.
    survivors = []
    for iid, ph in phases.items():
        idx = [i for i, (tk, p) in enumerate(ph) if p == "init" and tk == s - 1]
        if idx and not any(p == "finalize" and tk <= s for tk, p in ph[idx[-1]:]):
            survivors.append(iid)
    if survivors:
        iid = survivors[0]
        probs.append((f"C10:command-started-in-cancelling-tick-survives:{tag}",
                      f"{names[iid]} ({iid[-4:]}) was started in tick {s - 1}, the tick in which {kind} cancelled the running commands, and "
                      f"was not cancelled: {phases[iid]}; instances at completion (tick {c}): {at_c['instances']}"))
    surv_names = {names[i] for i in survivors}

    # (1) nothing holds an instance / is registered
    if [n for n in at_c["instances"] if n not in surv_names]:
        probs.append((f"C10:instance-left:{','.join(at_c['instances'])}:{tag}",
                      f"uod.command_instances = {at_c['instances']} at tick {c} when {kind} completed"))
    extra = [x for x in at_c["registry"] if x != kind]
    # same root cause for an internal command: requested in the cancelling tick before the Stop/Restart, started after it
    late_started = [ic for ic in extra if ic in by_n[s - 1]["registry"] and (pre is None or ic not in pre["registry"])]
    for ic in late_started:
        probs.append((f"C10:internal-command-started-in-cancelling-tick-survives:{ic}:{tag}",
                      f"{ic} was started in tick {s - 1}, the tick in which {kind} cancelled the running commands, was not cancelled and is "
                      f"still registered at tick {c} when {kind} completed (System State at {s - 1}: {by_n[s - 1]['state']})"))
    extra = [ic for ic in extra if ic not in late_started]
    if extra:
        probs.append((f"C10:internal-command-left:{','.join(extra)}:{tag}",
                      f"internal command(s) {extra} still registered at tick {c} when {kind} completed"))
    # (2) every started UOD command finalized once and concluded in the final run log
    started = [iid for iid, ph in phases.items() if any(p == "init" and tk <= s for tk, p in ph) and iid not in survivors]
    caps = [(tk, rl) for tk, rl in on_stop if tk <= c]
    final_rl = None
    if not caps:
        probs.append((f"C10:on-stop-not-emitted:{tag}", f"{kind} completed at tick {c} but on_stop was never emitted (no run-stopped message)"))
    else:
        final_rl = caps[0][1]
        if isinstance(final_rl, str):
            probs.append((f"C10:final-runlog-raises:{final_rl.split(':')[1]}:{tag}", f"producing the run log at on_stop (tick {caps[0][0]}) raised {final_rl}"))
            final_rl = None
    for iid in started:
        name = names[iid]
        # one "started command" = one init event and what follows it up to the next init (an instance id that is
        # initialised twice is C11's business; here every start must be finalized exactly once)
        lives = []
        for tk, p in phases[iid]:
            if p == "init":
                lives.append([(tk, p)])
            elif lives:
                lives[-1].append((tk, p))
        for life in lives:
            if life[0][0] > s:
                continue
            fins = [tk for tk, p in life if p == "finalize"]
            if len(fins) == 0 or fins[0] > c:
                probs.append((f"C10:started-command-not-finalized:{name}:{tag}",
                              f"{name} ({iid[-4:]}) had init at tick {life[0][0]} but no finalize by tick {c} when {kind} completed: {phases[iid]}"))
            elif len(fins) > 1:
                probs.append((f"C10:started-command-finalized-{len(fins)}-times:{name}:{tag}", f"{name} ({iid[-4:]}) finalized at ticks {fins}"))
        late = [(tk, p) for tk, p in phases[iid] if tk > c]
        if late:
            probs.append((f"C10:old-command-event-after-completion:{name}:{late[0][1]}:{tag}",
                          f"{name} ({iid[-4:]}) of the ended run has events {late} after {kind} completed at tick {c}"))
        if final_rl is not None:
            items = [it for it in final_rl if it["id"] == iid]
            if not items and iid in no_line:
                pass          # started by a user's control request: no method line, by design not an item of the run log
            elif not items:
                probs.append((f"C10:started-command-missing-in-final-runlog:{name}:{tag}",
                              f"{name} ({iid[-4:]}) started at tick {phases[iid][0][0]} but the run log at on_stop has no item for it: "
                              f"{[(i['name'], i['state']) for i in final_rl]}"))
            else:
                bad = [it["state"] for it in items if it["state"] not in CONCLUSIVE]
                if bad:
                    probs.append((f"C10:started-command-{bad[0]}-in-final-runlog:{name}:{tag}",
                                  f"{name} ({iid[-4:]}) is '{bad[0]}' in the run log captured at on_stop: {[(i['name'], i['state']) for i in final_rl]}"))
    # (3) simulation cleared
    if at_c["sim"]:
        probs.append((f"C10:tag-still-simulated:{','.join(at_c['sim'])}:{tag}", f"tag(s) {at_c['sim']} still simulated at tick {c} when {kind} completed"))
    # (4) run id
    old_rid = by_n[s - 1]["rid"]
    if by_n[s]["rid"] is not None:
        probs.append((f"C10:run-id-not-cleared:{tag}", f"Run Id is {by_n[s]['rid']} in the tick System State became Stopped ({s})"))
    if kind == "Restart":
        if at_c["rid"] is None or at_c["rid"] == old_rid:
            probs.append((f"C10:run-id-not-renewed:{tag}", f"Run Id after Restart is {at_c['rid']} (ended run: {old_rid})"))
    elif not survivors:
        for rec in trace:
            if rec["n"] > c and (rec["cmd"] or rec["instances"]):
                probs.append((f"C10:command-activity-after-stop:{tag}", f"command events {rec['cmd']} / instances {rec['instances']} at tick {rec['n']} after Stop completed at {c}"))
                break
    # (5) the new run equals a fresh run
    later_req = [rec["n"] for rec in trace if rec["n"] > s - 1 and any(a for (_, _, a, _) in rec["req"])]
    info["compared"] = False
    if kind == "Restart" and not later_req and x <= c and not survivors:      # In1 is 2.0 throughout the new run, as in the fresh run
        info["compared"] = True
        n_after = trace[-1]["n"] - c          # ticks observed after the completion tick
        got = event_seq(trace, c + 1, c + 1 + n_after)
        # fresh run: Start executes in tick 0 (as Restart completes in tick c), the method begins in tick 1
        lo = event_seq(fresh, 1, 1 + n_after - SLACK)
        hi = event_seq(fresh, 1, 1 + n_after + SLACK)
        if not (is_prefix(lo, got) and is_prefix(got, hi)):
            k = 0
            while k < len(got) and k < len(hi) and got[k] == hi[k]:
                k += 1
            exp = ev_class(hi[k]) if k < len(hi) else "nothing"
            act = ev_class(got[k]) if k < len(got) else "nothing"
            probs.append((f"C10:restarted-run-differs-from-fresh-run:expected-{exp}:got-{act}:{origin}",
                          f"after Restart completed at tick {c} the method produced {got} in {n_after} ticks; a fresh run of the same "
                          f"method produces {lo} in {n_after - SLACK} and {hi} in {n_after + SLACK} ticks"))
    return probs, info


def fresh_trace(lines):
    tr, _ = drive(lines, (), AFTER + SLACK + 2, stop_rule=False)
    return tr


def quiescent_tick(lines):
    """First tick from which the request-free run is steady (nothing changes but exec of a never-ending command)."""
    tr, _ = drive(lines, (), T_REQ + 6, stop_rule=False)
    fp = [(r["state"], tuple(r["instances"]), tuple(r["registry"]), tuple(r["sim"]), bool(r["marks"]),
           tuple(e[2] for e in r["cmd"] if e[2] != "exec")) for r in tr]
    last_change = 0
    for i in range(1, len(fp)):
        if fp[i] != fp[i - 1] or fp[i][4] or fp[i][5]:
            last_change = i
    return last_change


def method_kinds(lines):
    return sorted({ln.strip() for ln in lines if ln.strip() in ("Stop", "Restart")})


def explore_program(item):
    """item = (lines, user, xs): user = True -> a user Stop and a user Restart before every tick; xs = ticks at which
    In1 becomes 2.0 (one execution each)."""
    lines, with_user, xs = item
    out = []
    cnt = collections.Counter()
    fresh = fresh_trace(lines)
    in_method = method_kinds(lines)

    def one(sched, x=0):
        kinds = [r[1] for _, r in sched if r[1] in ("Stop", "Restart")] + in_method
        origin = "+".join((["user"] if sched else []) + (["method"] if in_method else []))
        trace, on_stop = drive(lines, sched, T_REQ + 12 + AFTER, x=x)
        probs, info = judge(lines, trace, on_stop, origin, fresh, kinds, x)
        cnt["exec"] += 1
        cnt["compared"] += bool(info.get("compared"))
        cnt["ticks"] += len(trace)
        if info["completed"]:
            cnt["completed:" + info["kind"]] += 1
            cnt["completed:" + origin] += 1
            if info["nontrivial"]:
                cnt["nontrivial"] += 1
        elif sched:
            accepted = any(a for rec in trace for (_, _, a, _) in rec["req"])
            cnt["request-accepted-no-completion" if accepted else "request-rejected"] += 1
            if accepted and not probs:
                probs.append((f"C10:accepted-{sched[0][1][1]}-never-completes", f"user {sched[0][1][1]} before tick {sched[0][0]} was accepted "
                              f"but System State never became Stopped; final state {trace[-1]['state']}"))
        else:
            cnt["method-stop-not-reached"] += 1
        seen = set()
        for sig, what in probs:
            if sig not in seen:
                seen.add(sig)
                out.append((sig, what, {"lines": lines, "schedule": [[t, list(r)] for t, r in sched], "x": x}))
        return trace

    last = None
    if in_method:
        alone = one(())
        for x in xs:
            if x:
                one((), x)
        # a request after the method's own Stop/Restart completed is a request in a fresh run (enumerated anyway)
        _, _, c_alone = completion(alone, in_method)
        if c_alone is not None:
            last = min(c_alone, T_REQ)
    if with_user:
        if last is None:
            last = min(quiescent_tick(lines) + 3, T_REQ)
        for t in range(1, last + 1):
            for name in ("Stop", "Restart"):
                one(((t, ("user", name)),))
        if len(lines) <= 1:
            # a UOD command started by the USER as a control command (no method line behind it) is running when Stop/Restart begins
            for t in range(3, 8):
                for name in ("Stop", "Restart"):
                    one(((2, ("user", "Hang")), (t, ("user", name))))
    seen = set()
    uniq = []
    for sig, what, rep in out:
        if sig not in seen:
            seen.add(sig)
            uniq.append((sig, what, rep))
    return uniq, dict(cnt)


def well_formed(forest) -> bool:
    """No opener with an empty body (the parser nests the following line under it, C17: such texts duplicate the nested
    forms) and Stop / Restart only as the last statement of its sequence (anything after it is dead code)."""
    for i, (kind, children) in enumerate(forest):
        if kind in pgen.OPENERS and not children:
            return False
        if kind in ("St", "Rs") and i != len(forest) - 1:
            return False
        if not well_formed(children):
            return False
    return True


X_TICKS = (0, 3, 4, 5, 6)      # In1 becomes 2.0 before this tick: shifts Watch bodies against the main flow tick by tick
KINDS_M = ["L", "A", "P", "M", "W1", "WaI", "St", "Rs"]     # method-issued Stop/Restart racing a Watch body / the main flow


def corpus(ctx):
    ctl = ["St", "Rs"]
    items = []
    seen = set()

    def add(kinds, n, user_rule, need_watch=False):
        for f in filter(well_formed, pgen.forests(kinds, n, 2)):
            flat = pgen.kinds_flat(f)
            has_ctl = any(k in ctl for k in flat)
            if need_watch and not (has_ctl and "WaI" in flat):
                continue
            lines = pgen.render(f)
            if tuple(lines) in seen:
                continue
            seen.add(tuple(lines))
            items.append((lines, user_rule(f, has_ctl), X_TICKS if (has_ctl and "WaI" in flat) else (0,)))

    if ctx.quick:
        sub2 = set(pgen.forests(KINDS3 + ctl, 2, 2)) | set(pgen.forests(KINDS3 + ctl, 3, 2))
        add(KINDS + ctl, 1, lambda f, c: True)
        add(KINDS + ctl, 2, lambda f, c: (not c) or f in sub2)
        add(KINDS3 + ctl, 3, lambda f, c: not c)
        add(KINDS_M, 4, lambda f, c: False, need_watch=True)
        bounds = (f"<=2 statements over {KINDS + ctl}; 3 statements over {KINDS3 + ctl}; user Stop/Restart at every tick for all "
                  f"programs without Stop/Restart line and for 2-statement programs over {KINDS3 + ctl}; 4 statements over "
                  f"{KINDS_M} with a Watch and a Stop/Restart line (no user request)")
    else:
        sub3 = set(pgen.forests(KINDS4 + ctl, 3, 2))
        add(KINDS + ctl, 1, lambda f, c: True)
        add(KINDS + ctl, 2, lambda f, c: True)
        add(KINDS + ctl, 3, lambda f, c: (not c) or f in sub3)
        add(KINDS4 + ctl, 4, lambda f, c: not c)
        add(KINDS_M, 4, lambda f, c: False, need_watch=True)
        add(KINDS_M, 5, lambda f, c: False, need_watch=True)
        bounds = (f"<=3 statements over {KINDS + ctl}; 4 statements over {KINDS4 + ctl}; user Stop/Restart at every tick for all "
                  f"programs without Stop/Restart line, for <=2 statements with one and for 3 statements over {KINDS4 + ctl}; "
                  f"4-5 statements over {KINDS_M} with a Watch and a Stop/Restart line (no user request)")
    return items, bounds + (f"; programs with a Watch and a Stop/Restart line once per In1-rise tick {X_TICKS}; openers with empty "
                            "body excluded; Stop/Restart only as last statement of its sequence")


def run(ctx):
    items, bounds = corpus(ctx)
    ctx.prove_deterministic(explore_program, [items[2], items[len(items) // 2]], k=2)
    results = ctx.pmap(explore_program, items, chunk=1)
    tot = collections.Counter()
    for it, (viol, cnt) in zip(items, results):
        tot.update(cnt)
        for sig, what, rep in viol:
            ctx.violation(sig, what, rep)
    if tot["completed:Stop"] < 100 or tot["completed:Restart"] < 100 or tot["nontrivial"] < 100:
        raise HarnessError(f"vacuous: {dict(tot)}")
    ctx.coverage.update(
        states=tot["ticks"], transitions=tot["ticks"], traces_validated_against_impl=tot["exec"], evaluations=tot["exec"],
        distinct_nontrivial=tot["nontrivial"], programs=len(items), stop_completions_examined=tot["completed:Stop"],
        restart_completions_examined=tot["completed:Restart"], requests_rejected=tot["request-rejected"],
        method_stop_not_reached=tot["method-stop-not-reached"], completions_by_origin={k.split(":")[1]: v for k, v in tot.items()
                                                                                      if k.startswith("completed:") and k[10:] not in ("Stop", "Restart")},
        rule="one execution = one program with one user Stop/Restart before a given tick (every tick until the request-free "
             "run is steady + 3, or until the method's own Stop/Restart completed) and/or with a Stop/Restart line in the method; states = ticks observed; non-trivial = the Stop/Restart "
             "landed while a UOD command instance existed, a tag was simulated or a command had an event in the cancelling tick",
        samples=[items[1][0], items[len(items) // 2][0], items[-1][0]], exhaustive=True, bounds=bounds,
        request_ticks=f"1..min(steady+3, {T_REQ})", ticks_compared_after_restart=AFTER,
        restarted_runs_compared_with_fresh_run=tot["compared"])
    ctx.assumptions += ["In1 = 2.0 from tick 0 (from a tick in X_TICKS for programs with Watch and Stop/Restart line); Watch: In1 > 1 is true "
                        "from then on unless In1 is simulated to 0",
                        "only the first Stop/Restart completion of an execution is examined",
                        f"restarted run vs fresh run: marks and command starts, prefix comparison with {SLACK} ticks tolerance"]


def replay(data):
    lines = data["lines"]
    x = data.get("x", 0)
    sched = tuple((t, tuple(r)) for t, r in data["schedule"])
    trace, on_stop = drive(lines, sched, T_REQ + 12 + AFTER, x=x)
    print("program:", lines, " schedule:", sched, f" In1 = 2.0 from tick {x}")
    for rec in trace:
        print(rec["n"], rec["state"], "rid=" + str(rec["rid"])[-4:], "marks+", rec["marks"],
              "cmd", [(e[1], e[2], e[3][-4:], e[4]) for e in rec["cmd"]], "inst", rec["instances"], "reg", rec["registry"],
              "sim", rec["sim"], "req", rec["req"] if rec["req"] else "")
    for tk, rl in on_stop:
        print(f"run log at on_stop (tick {tk}):", rl if isinstance(rl, str) else [(i["name"], i["state"], i["id"][-4:]) for i in rl])
    fresh = fresh_trace(lines)
    print("fresh run:", event_seq(fresh, 1, len(fresh)))
    in_method = method_kinds(lines)
    origin = "+".join((["user"] if sched else []) + (["method"] if in_method else []))
    kinds = [r[1] for _, r in sched if r[1] in ("Stop", "Restart")] + in_method
    probs, _ = judge(lines, trace, on_stop, origin, fresh, kinds, x)
    seen, out = set(), []
    for sig, what in probs:
        if sig not in seen:
            seen.add(sig)
            out.append((sig, what))
    return out
