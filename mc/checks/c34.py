"""C34 — CSV export is a faithful sample-and-hold of the plot log.

Complete enumeration of small plot logs: N tags, each an *ordered* list of up to K (tick_time, value) entries with
times from {1,2,3,4} (any order, repeated times, late start, empty).  Every value in a log is distinct, so a cell
identifies the entry it came from.  Real Dto.PlotLog / PlotLogEntry / PlotLogEntryValue / RecentRun objects are built
and the real csv_generator.generate_csv_string is called; the text is parsed back with the csv module.

Oracle (from the statement).  The CSV has no time column; row i is taken to belong to the i-th smallest distinct
recorded tick time (what _get_tick_times computes: one row per distinct time; with this the statement's "strictly
increasing time order" is: as many rows as distinct times, each row consistent with its time).  Per cell:
  * no entry of the tag at or before the row time  -> cell must be empty;
  * otherwise the value of an entry with the greatest time <= row time (if the tag has several entries with that
    same time, the one recorded last, i.e. the last in list order).
"""
import csv
import datetime
import io
import itertools

from openpectus.aggregator import csv_generator
from openpectus.aggregator.routers import dto as Dto

from mc.core import HarnessError

ID = "C34"
LEVEL = "exploration"
META = dict(
    technique="complete enumeration of small plot logs against a reference sample-and-hold",
    text="Every plot log within the bounds (every ordered entry list per tag over 4 tick times: unsorted, repeated, "
         "late start, empty) is exported by the real generate_csv_string and every cell is compared with a reference "
         "sample-and-hold written from the statement. Exhaustive within the bounds; columns are computed independently "
         "and the walk only looks at neighbouring entries, so short logs reach every branch.",
    note="The CSV carries no time column: row i is matched with the i-th smallest distinct recorded time. Of tied times of "
         "one tag the value recorded last (list order) is the latest recorded one. Metadata rows are not checked.",
)

TIMES = (1.0, 2.0, 3.0, 4.0)
NAMES = ("A", "B", "C")


def value_of(tag: int, pos: int, time: float) -> float:
    """distinct per (tag, position); readable: tag 0 pos 1 time 2 -> 112.0"""
    return float(100 * (tag + 1) + 10 * pos + int(time))


def tag_lists(max_entries):
    """every ordered list of <= max_entries times, simplest first"""
    out = []
    for k in range(0, max_entries + 1):
        out += list(itertools.product(TIMES, repeat=k))
    return out


_RECENT = None


def recent_run():
    global _RECENT
    if _RECENT is None:
        t = datetime.datetime(2020, 1, 1, tzinfo=datetime.timezone.utc)
        _RECENT = Dto.RecentRun(engine_id="e", run_id="r", started_date=t, completed_date=t, uod_name="u", uod_filename="f",
                                uod_author_name="n", uod_author_email="m", engine_computer_name="c", engine_version="1",
                                engine_hardware_str="h", aggregator_computer_name="a", aggregator_version="1", contributors=[])
    return _RECENT


def build(case):
    """case: tuple of per-tag tuples of times -> (Dto.PlotLog, {name: [(time, value), ...] in recorded order})"""
    entries = {}
    spec = {}
    for ti, times in enumerate(case):
        name = NAMES[ti]
        vals = [(t, value_of(ti, pi, t)) for pi, t in enumerate(times)]
        spec[name] = vals
        entries[name] = Dto.PlotLogEntry(name=name, value_unit=None, value_type=Dto.ProcessValueType.FLOAT,
                                         values=[Dto.PlotLogEntryValue(tick_time=t, value=v) for t, v in vals])
    return Dto.PlotLog(entries=entries), spec


def export(case):
    plot_log, spec = build(case)
    try:
        text = csv_generator.generate_csv_string(plot_log, recent_run()).getvalue()
    except Exception as ex:  # noqa
        return spec, None, f"{type(ex).__name__}: {ex}"
    return spec, text, None


def parse(text, names):
    """-> (header cells, data rows as lists of float|None) ; metadata rows start with '#', then a blank row"""
    rows = list(csv.reader(io.StringIO(text)))
    i = 0
    while i < len(rows) and (not rows[i] or rows[i][0].startswith("#")):
        i += 1
    if i >= len(rows):
        return None, []
    header = rows[i]
    data = []
    for r in rows[i + 1:]:
        # csv writes a row of only empty cells as '' / '""' / ',,' -> pad to the header width
        cells = list(r) + [""] * (len(header) - len(r))
        data.append([None if c == "" else float(c) for c in cells])
    return header, data


def expected_cell(entries, t):
    """entries: [(time, value)] -> set of accepted values (empty set = the cell must be empty)"""
    upto = [e for e in entries if e[0] <= t]
    if not upto:
        return set()
    latest = max(e[0] for e in upto)
    # several values of the tag recorded with that same time: "the latest recorded value" is the one recorded last
    return {[v for (tt, v) in upto if tt == latest][-1]}


def judge(case, spec, text, err):
    if err is not None:
        return [(f"C34:exception:{err.split(':')[0]}", f"generate_csv_string raised {err} for {describe(case)}")]
    names = list(spec)
    header, data = parse(text, names)
    if header != names:
        return [("C34:header", f"header row {header} is not the tag names {names} for {describe(case)}")]
    row_times = sorted({t for vals in spec.values() for (t, _) in vals})
    if len(data) != len(row_times):
        kind = "more-rows-than-distinct-times" if len(data) > len(row_times) else "fewer-rows-than-distinct-times"
        return [(f"C34:rows:{kind}", f"{len(data)} data rows for {len(row_times)} distinct times {row_times} in {describe(case)}: "
                                     f"rows cannot be in strictly increasing time order, one per recorded time")]
    out = []
    for t, row in zip(row_times, data):
        for name, cell in zip(names, row):
            ents = spec[name]
            ok = expected_cell(ents, t)
            if (cell is None and not ok) or cell in ok:
                continue
            src = [tt for (tt, v) in ents if v == cell]
            has_tie = len({tt for tt, _ in ents}) < len(ents)
            if cell is None:
                sig = "C34:empty-cell-although-value-recorded"
            elif not src:
                sig = "C34:cell-from-another-tag-or-unknown"
            elif src[0] > t and not ok:
                sig = "C34:late-start-shows-future-value"
            elif src[0] > t:
                sig = "C34:shows-future-value"
            else:
                sig = "C34:stale-value" + (":after-tied-times" if has_tie else "")
            out.append((sig, f"row for time {t:g}, tag {name}: cell={cell} but accepted={sorted(ok) or 'empty'}; "
                             f"tag entries (time,value)={ents}; log {describe(case)}"))
    # one (the first) per signature
    seen = set()
    res = []
    for sig, what in out:
        if sig not in seen:
            seen.add(sig)
            res.append((sig, what))
    return res


def describe(case) -> str:
    return "; ".join(f"{NAMES[i]}@[{','.join('%g' % t for t in times)}]" for i, times in enumerate(case))


def features(case):
    f = set()
    firsts = [min(ts) for ts in case if ts]
    if len(set(firsts)) > 1:
        f.add("late_start")
    if any(len(ts) == 0 for ts in case):
        f.add("empty_tag")
    if any(list(ts) != sorted(ts) for ts in case):
        f.add("unsorted")
    if any(len(set(ts)) < len(ts) for ts in case):
        f.add("tied_times")
    sets = [set(ts) for ts in case if ts]
    if len(sets) >= 2 and any(a != b for a, b in itertools.combinations(sets, 2)):
        f.add("interleaved")
    return f


def work(item):
    """item: (prefix of per-tag time tuples, n_tags, max_entries): enumerate every completion"""
    prefix, n_tags, max_entries = item
    lists = tag_lists(max_entries)
    viols = []
    seen = set()
    cnt = {"evaluations": 0, "nontrivial": 0, "late_start": 0, "empty_tag": 0, "unsorted": 0, "tied_times": 0, "interleaved": 0,
           "cells": 0}
    for rest in itertools.product(lists, repeat=n_tags - len(prefix)):
        case = tuple(prefix) + rest
        spec, text, err = export(case)
        cnt["evaluations"] += 1
        f = features(case)
        for k in f:
            cnt[k] += 1
        if "interleaved" in f or "late_start" in f:
            cnt["nontrivial"] += 1
        cnt["cells"] += len({t for ts in case for t in ts}) * n_tags
        for sig, what in judge(case, spec, text, err):
            if sig not in seen:
                seen.add(sig)
                viols.append((sig, what, {"case": [list(ts) for ts in case]}))
    return viols, cnt


def run(ctx):
    if ctx.quick:
        spaces = [(2, 3), (2, 4)]
    else:
        spaces = [(2, 3), (2, 4), (2, 5), (3, 3)]
    # simplest first: fewer tags / fewer entries first; overlapping spaces ((2,3) is inside (2,4)) are run once
    spaces = [s for s in spaces if not any(o != s and o[0] == s[0] and o[1] >= s[1] for o in spaces)]
    items = []
    for n_tags, max_entries in sorted(spaces):
        for first in tag_lists(max_entries):
            items.append(((first,), n_tags, max_entries))
    ctx.prove_deterministic(work, [(((1.0, 2.0, 3.0),), 2, 2), (((2.0, 2.0),), 2, 2), (((), ), 2, 3)])
    res = ctx.pmap(work, items, chunk=1)
    tot = {}
    for viols, cnt in res:
        for k, v in cnt.items():
            tot[k] = tot.get(k, 0) + v
    # record violations simplest case first (fewest entries in all)
    allv = [v for viols, _ in res for v in viols]
    allv.sort(key=lambda v: (sum(len(ts) for ts in v[2]["case"]), len(v[2]["case"]), v[2]["case"]))
    for sig, what, rp in allv:
        ctx.violation(sig, what, rp)
    for k in ("late_start", "empty_tag", "unsorted", "tied_times", "interleaved"):
        if not tot.get(k):
            raise HarnessError(f"input class {k} was never generated")
    samples = [describe(c) for c in (((1.0, 2.0, 3.0), (2.0, 3.0)), ((3.0, 1.0), (2.0, 2.0, 4.0)), ((), (4.0,)))]
    ctx.coverage.update(
        evaluations=tot["evaluations"], distinct_nontrivial=tot["nontrivial"], cells_checked=tot["cells"],
        rule="every plot log with the stated number of tags, each tag every ordered list of <= K tick times from "
             "{1,2,3,4} with distinct values; all cases distinct by construction; non-trivial = the tags' sets of "
             "recorded times differ (interleaved or late start)",
        samples=samples, exhaustive=True,
        bounds=[f"{n} tags x <= {k} entries per tag" for n, k in sorted(spaces)],
        with_late_start=tot["late_start"], with_empty_tag=tot["empty_tag"], with_unsorted=tot["unsorted"],
        with_tied_times=tot["tied_times"], with_interleaved=tot["interleaved"],
    )
    ctx.assumptions += [
        "row i of the CSV belongs to the i-th smallest distinct recorded tick time (no time column in the export)",
        "two values of one tag at the same tick time: the one later in the plot log's list is the latest recorded one",
        "columns are matched to tags through the header row (name, no unit)",
    ]


def replay(data):
    case = tuple(tuple(float(t) for t in ts) for ts in data["case"])
    spec, text, err = export(case)
    print("plot log (time,value) per tag:")
    for name, vals in spec.items():
        print(f"  {name}: {vals}")
    if err:
        print("raised:", err)
    else:
        header, rows = parse(text, list(spec))
        times = sorted({t for vals in spec.values() for (t, _) in vals})
        print("exported data rows  (row time | cells | accepted):")
        for i, row in enumerate(rows):
            t = times[i] if i < len(times) else None
            acc = [sorted(expected_cell(spec[n], t)) or "empty" for n in spec] if t is not None else "?"
            print(f"  t={t} | {row} | {acc}")
    return judge(case, spec, text, err)
