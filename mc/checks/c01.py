"""C01 — Live method edits never re-run or lose run progress.

Stateless exhaustive exploration on the real Engine: for every generated program, every tick of the run as edit
point, every edit kind (and, for the smaller programs, every pair of successive edits) the edited run is compared
with (a) a fresh run of the final method (differential oracle on schedule-independent projections), (b) the method
state right before/after the call, (c) for rejected edits, the unedited run tick for tick.
"""
from __future__ import annotations

import collections
import json

from mc import pgen
from mc.core import HarnessError
from mc.engine_harness import Run

ID = "C01"
LEVEL = "model_checking"
META = dict(
    technique="stateless bounded-exhaustive exploration of (program, edit tick, edit kind[, second edit]) on the real Engine with a differential oracle",
    text="Every program of the sub-grammar up to the size bound is run on the real engine; at every tick of the run every "
         "edit kind (append at end / in an open body, insert before / change / delete a not-started line, change a started or "
         "completed line, change a line that was reported executed earlier (macro definition during its call), re-save) is applied through Engine.set_method and the run is compared with a fresh run of the final "
         "method (per-line execution counts, per-scope mark order, command life cycles, final method state), with the method "
         "state before/after the call, and for rejected edits with the unedited run tick for tick.",
    note="Small-scope: programs <= 3 statements (4 thorough), nesting <= 2, 1-2 edits; Alarm bodies and never-ending commands "
         "are excluded because their counts depend on elapsed time; both runs must reach quiescence inside the horizon "
         "(otherwise the pair is counted as unsettled and not compared).",
)

H_QUICK = 46
SETTLE = 7
X_TRUE_FROM = 4

KINDS_FULL = ["M", "T", "W", "I", "L", "K", "Wa", "MA", "CA", "b", "c", "EB"]
CHANGE = {"Mark": "Mark: q{n}", "Wait": "Wait: 0.4s", "Long": "Long: 4", "Block": "Block: q{n}", "Watch": "Watch: X > 3",
          "Inst": "Long: 2", "Call macro": "Call macro: ZZ", "Macro": "Macro: ZZ", "End block": "End blocks"}


VERSION_MODE = None      # how the edits of the current exploration are numbered (see Run.set_method); set by explore_program


def _fingerprint(run: Run):
    return (tuple(run.marks()), json.dumps(run.method_state(), sort_keys=True), len(run.cmd_events),
            tuple(run.uod.command_instances.keys()), run.state())


def drive(lines, schedule, horizon, observe=("mstate",)):
    """schedule: {tick: new_lines}  (edit applied *before* that tick).  Returns (run, request records, quiesced_at)."""
    run = Run(lines, observe=observe, initial_version=3 if VERSION_MODE else 0)      # numbered edits: the method is at version 3 already
    recs = []
    last_fp, stable = None, 0
    quiesced = None
    for t in range(horizon):
        if t in schedule:
            recs.append(run.set_method(schedule[t], version_mode=VERSION_MODE))
            stable = 0
        if t == X_TRUE_FROM:
            run.set_input("In1", 2.0)
        run.tick()
        fp = _fingerprint(run)
        if fp == last_fp:
            stable += 1
            if stable >= SETTLE and quiesced is None and t > max(list(schedule) + [X_TRUE_FROM]) + 1:
                quiesced = t - SETTLE
        else:
            stable = 0
            quiesced = None
        last_fp = fp
    return run, recs, quiesced


def projection(run: Run, lines):
    info = pgen.line_info(lines)
    mark_scope = {}
    for i, li in enumerate(info):
        if li["name"] == "Mark":
            mark_scope[li["arg"]] = pgen.scope_of(info, i)
    marks = run.marks()
    per_scope = collections.defaultdict(list)
    for m in marks:
        sc = mark_scope.get(m, "?")
        if sc == "main" or any(info[j]["id"] == sc and info[j]["name"] == "Watch" for j in range(len(info))):
            per_scope[sc].append(m)
    life = collections.Counter()
    bad_life = []
    for iid, seq in run.cmd_lifecycles().items():
        name, phases = seq[0], seq[1:]
        life[(name, "init")] += phases.count("init")
        life[(name, "finalize")] += phases.count("finalize")
        if phases.count("init") != 1 or phases.count("finalize") != 1 or phases[0] != "init" or phases[-1] != "finalize":
            bad_life.append((name, phases))
    ms = run.method_state()
    return {
        "mark_counts": dict(collections.Counter(marks)),
        "scope_order": {k: v for k, v in per_scope.items()},
        "cmd_counts": {f"{k[0]}.{k[1]}": v for k, v in sorted(life.items())},
        "bad_life": bad_life,
        "executed": ms["executed"], "failed": ms["failed"],
        "instances_left": sorted(run.uod.command_instances.keys()),
        "state": run.state(),
    }


def other_threshold(raw: str) -> str:
    """the same instruction with another threshold (9.0, or none -> 9.0)"""
    body = raw.strip()
    head = body.split(" ", 1)
    try:
        float(head[0])
        body = head[1] if len(head) > 1 else ""
    except ValueError:
        pass
    return "9.0 " + body


def make_edits(lines, ms, n_tag, ever=()):
    """All edit variants applicable to `lines` given the reported method state. -> [(kind, new_lines, expect)]
    `ever`: ids of lines that were reported started or executed at some earlier tick (a macro definition is reported executed
    before the call and not during it)."""
    info = pgen.line_info(lines)
    touched = set(ms["started"]) | set(ms["executed"]) | set(ms["failed"])
    out = []
    once = [li for li in info if li["id"] in ever and li["id"] not in touched and not li["blank"] and li["name"] in CHANGE]
    if once:
        li = once[0]
        new = list(lines)
        new[li["idx"]] = (li["id"], " " * li["indent"] + CHANGE[li["name"]].format(n=n_tag))
        out.append((f"change-once-executed:{li['name']}", new, "reject"))
        for li in once:          # only the threshold of the line changes (every such line: the body lines come after the Macro line)
            if not li["opener"]:
                new = list(lines)
                new[li["idx"]] = (li["id"], " " * li["indent"] + other_threshold(li["raw"]))
                out.append((f"change-once-executed-threshold:{li['name']}", new, "reject"))
    out.append(("resave", list(lines), "accept"))
    out.append(("append-end", list(lines) + [(f"N{n_tag}a", f"Mark: z{n_tag}a")], "accept"))
    # append at the end of every open body
    for li in info:
        if li["opener"] and li["id"] in ms["started"]:
            end = li["idx"] + 1
            while end < len(lines) and info[end]["indent"] > li["indent"]:
                end += 1
            new = list(lines)
            new.insert(end, (f"N{n_tag}b{li['idx']}", " " * (li["indent"] + 4) + f"Mark: z{n_tag}b{li['idx']}"))
            out.append((f"append-body:{li['name']}", new, "accept"))
    untouched_top = [li for li in info if li["id"] not in touched and li["id"] not in ever and li["indent"] == 0]
    if untouched_top:
        li = untouched_top[0]
        new = list(lines)
        new.insert(li["idx"], (f"N{n_tag}c", f"Mark: z{n_tag}c"))
        out.append(("insert-before-unstarted", new, "accept"))
    untouched = [li for li in info if li["id"] not in touched and li["id"] not in ever and not li["blank"]]
    leaf = [li for li in untouched if not (li["opener"] and li["idx"] + 1 < len(lines) and info[li["idx"] + 1]["indent"] > li["indent"])]
    if leaf:
        li = leaf[-1]
        new = list(lines)
        new[li["idx"]] = (li["id"], " " * li["indent"] + f"Mark: y{n_tag}")
        out.append((f"change-unstarted:{li['name']}", new, "accept"))
        new = list(lines)
        del new[li["idx"]]
        out.append((f"delete-unstarted:{li['name']}", new, "accept"))
    for which, ids in (("started", ms["started"]), ("executed", ms["executed"])):
        cands = [li for li in info if li["id"] in ids and not li["blank"] and li["name"] in CHANGE]
        if cands:
            li = cands[0]
            new = list(lines)
            new[li["idx"]] = (li["id"], " " * li["indent"] + CHANGE[li["name"]].format(n=n_tag))
            out.append((f"change-{which}:{li['name']}", new, "reject"))
            leaf_c = [c for c in cands if not c["opener"]]
            if leaf_c:
                li = leaf_c[-1]
                new = list(lines)
                new[li["idx"]] = (li["id"], " " * li["indent"] + other_threshold(li["raw"]))
                out.append((f"change-{which}-threshold:{li['name']}", new, "reject"))
        # a blank or comment line that the interpreter has passed is a passed line too: filling it in changes what has run
        blanks = [li for li in info if li["id"] in ids and li["blank"]]
        if blanks:
            li = blanks[0]
            new = list(lines)
            new[li["idx"]] = (li["id"], " " * li["indent"] + f"Mark: w{n_tag}")
            out.append((f"change-{which}:Blank", new, "reject"))
        # same text, other indentation: the line moves into / out of a body, which also changes a started line
        leafs = [li for li in info if li["id"] in ids and not li["blank"] and not li["opener"] and li["idx"] > 0]
        if leafs:
            li = leafs[-1]
            new = list(lines)
            new[li["idx"]] = (li["id"], " " * (li["indent"] + 4 if li["indent"] == 0 else li["indent"] - 4) + li["raw"].strip())
            out.append((f"change-{which}-indent:{li['name']}", new, "reject"))
    return out


def norm(obj):
    """Rename uuid-like instance ids by first appearance so runs that consumed a different number of ids compare."""
    table = {}
    s = json.dumps(obj, sort_keys=True, default=str)
    import re
    def rep(m):
        return table.setdefault(m.group(0), f"id{len(table)}")
    return re.sub(r"[0-9a-f]{8}-[0-9a-f]{4}-[0-9a-f]{4}-[0-9a-f]{4}-[0-9a-f]{12}", rep, s)


def rest_of_run(run: Run, from_tick: int):
    return norm([{k: ob.get(k) for k in ("n", "state", "flags", "err", "cmd", "hw", "mstate", "instances", "registry")}
                 for ob in run.obs[from_tick:]] + [run.marks()])


def restarted(base_run, t, proj, fproj) -> bool:
    """Diagnosis: the edited run is exactly 'what had run before the edit' + 'a complete fresh run of the final method'
    and that differs from the fresh run alone (i.e. something had already run before the edit)."""
    k = base_run.obs[t - 1]["nmarks"]
    pre_marks = collections.Counter(base_run.marks()[:k])
    pre_cmd = collections.Counter()
    for (tick, name, phase, iid, it) in base_run.cmd_events:
        if tick < t and phase in ("init", "finalize"):
            pre_cmd[f"{name}.{phase}"] += 1
    if not pre_marks and not pre_cmd:
        return False
    want_marks = pre_marks + collections.Counter(fproj["mark_counts"])
    want_cmd = pre_cmd + collections.Counter(fproj["cmd_counts"])
    # a command that was executing when the edit landed keeps its instance and is adopted by the restarted method
    # (no second init), so command counts lie between the fresh run's and prefix + fresh
    got_cmd = collections.Counter(proj["cmd_counts"])
    keys = set(got_cmd) | set(want_cmd)
    cmd_ok = all(fproj["cmd_counts"].get(k, 0) <= got_cmd.get(k, 0) <= want_cmd.get(k, 0) for k in keys)
    return collections.Counter(proj["mark_counts"]) == want_marks and cmd_ok


def final_projection(lines, horizon, finals):
    key = json.dumps(lines)
    if key not in finals:
        frun, _, fq = drive(lines, {}, horizon)
        finals[key] = (projection(frun, lines), fq)
        frun.cleanup()
    return finals[key]


def check_edit(lines0, prefix, t, kind, new_lines, expect, horizon, base_run, finals):
    """One (program, earlier accepted edits `prefix` {tick: lines}, edit at tick t).  base_run = the run with only
    `prefix` applied.  Returns ([(sig, what)], status, quiesced)."""
    out = []
    sched = dict(prefix)
    sched[t] = new_lines
    run, recs, q = drive(lines0, sched, horizon)
    rec = recs[-1]
    before, after = rec["mstate_before"], rec["mstate_after"]
    kclass = ("2nd-" if prefix else "") + kind.split(":")[0]
    if expect == "reject":
        which = "-".join(kind.split(":")[0].split("-")[1:])
        if rec["accepted"]:
            out.append((f"C01:accepted-change-of-{which}-line:{kind.split(':')[1]}" + (":2nd" if prefix else ""),
                        f"edit '{kind}' at tick {t} changed a {which} line and was accepted"))
        else:
            if rec["error"] != "MethodEditError":
                out.append((f"C01:reject-raised-{rec['error']}:{kclass}", f"rejected edit raised {rec['error']}: {rec.get('msg')}"))
            if rest_of_run(run, t) != rest_of_run(base_run, t):
                out.append((f"C01:rejected-edit-affected-run:{kclass}", f"rejected edit '{kind}' at tick {t} changed the rest of the run"))
        run.cleanup()
        return out, "reject", q
    if not rec["accepted"] and rec["error"] == "MethodEditError" and "macro" in str(rec.get("msg", "")).lower() \
            and any(li["name"] == "Macro" for li in pgen.line_info(lines0)):
        run.cleanup()
        return out, "rejected-started-macro", q          # editing a macro that has started must be rejected (C41)
    if not rec["accepted"]:
        out.append((f"C01:rejected-valid-edit:{kclass}:{rec['error']}",
                    f"edit '{kind}' at tick {t} leaves every started line unchanged but was rejected: {rec.get('msg')}"))
        run.cleanup()
        return out, "rejected-valid", q
    merge = rec["mode"] == "merge_method"
    if not merge and (before["executed"] or [x for x in before["started"] if x != "root"]):
        out.append((f"C01:edit-replaced-method:{kclass}",
                    f"edit at tick {t} took the '{rec['mode']}' path although lines had started/executed: {before}"))
    # O2 method state monotone at the call
    lost = {
        "started": sorted(set(before["started"]) - set(after["started"]) - set(after["executed"]) - set(after["failed"])),
        "executed": sorted(set(before["executed"]) - set(after["executed"])),
        "failed": sorted(set(before["failed"]) - set(after["failed"])),
    }
    state_emptied = False
    if any(lost.values()) and merge:
        which = "+".join(k for k, v in lost.items() if v)
        if not (after["started"] or after["executed"] or after["failed"]):
            state_emptied = True
            out.append(("C01:method-state-empty-after-merge",
                        f"after accepted edit '{kind}' at tick {t} the reported method state is empty (was {before})"))
        else:
            out.append((f"C01:method-state-lost:{which}:{kclass}", f"after accepted edit '{kind}' at tick {t} the method state lost {lost}"))
    # O3 differential against a fresh run of the final method
    fproj, fq = final_projection(new_lines, horizon, finals)
    if q is None or fq is None:
        run.cleanup()
        return out, "unsettled", q
    proj = projection(run, new_lines)
    final_ms = run.method_state()
    run.cleanup()
    if merge and rec.get("interrupts_before", 0) > 0 and not restarted(base_run, t, proj, fproj):
        # the merge carries the registered Watch/Alarm interrupts over to the new interpreter *and* the method restarts
        # and registers them again: bodies run twice or against reset nodes (one more consequence of restart-after-merge)
        differs = [f for f in ("mark_counts", "scope_order", "cmd_counts", "instances_left", "state") if proj[f] != fproj[f]]
        if differs or proj["bad_life"]:
            out.append(("C01:merge-with-registered-interrupt",
                        f"edit '{kind}' at tick {t} with {rec['interrupts_before']} Watch/Alarm interrupt(s) registered: "
                        f"{differs or 'command life cycle'} differ from a fresh run of the final method "
                        f"(marks {proj['mark_counts']} vs {fproj['mark_counts']}, commands {proj['cmd_counts']} vs {fproj['cmd_counts']}, "
                        f"state {proj['state']} vs {fproj['state']})"))
            return out, "compared", q
    if restarted(base_run, t, proj, fproj) and not [n for n, ph in proj["bad_life"] if "finalize" not in ph]:
        out.append(("C01:restart-after-merge" if merge else "C01:restart-by-edit-after-merge",
                    f"edit '{kind}' at tick {t}: the method restarted from its first line (marks {proj['mark_counts']}, commands "
                    f"{proj['cmd_counts']}; fresh run of the final method {fproj['mark_counts']}, {fproj['cmd_counts']})"))
        return out, "compared", q
    if proj["bad_life"]:
        # a command that was executing when the edit landed and is never finalized afterwards
        dropped = [n for n, ph in proj["bad_life"] if "finalize" not in ph]
        if dropped:
            out.append(("C01:running-command-dropped-by-merge" if merge else "C01:running-command-dropped-by-edit-after-merge",
                        f"edit '{kind}' at tick {t}: command(s) {dropped} executing at the edit were never finalized {proj['bad_life']}"))
        else:
            out.append((f"C01:command-lifecycle:{kclass}", f"edit '{kind}' at tick {t}: command life cycle broken {proj['bad_life']}"))
        return out, "compared", q
    frozen = merge and not (final_ms["started"] or final_ms["executed"] or final_ms["failed"])
    if restarted(base_run, t, proj, fproj):
        # after one merge the method manager reports no started line, so the next edit takes the replace path
        out.append(("C01:restart-after-merge" if merge else "C01:restart-by-edit-after-merge",
                    f"edit '{kind}' at tick {t}: the method restarted from its first line (marks {proj['mark_counts']}, commands "
                    f"{proj['cmd_counts']}; fresh run of the final method {fproj['mark_counts']}, {fproj['cmd_counts']})"))
        return out, "compared", q
    for field in ("mark_counts", "scope_order", "cmd_counts", "executed", "failed", "instances_left", "state"):
        if proj[field] != fproj[field]:
            if field in ("executed", "failed") and frozen:
                if not state_emptied:
                    out.append(("C01:method-state-empty-after-merge",
                                f"edit '{kind}' at tick {t}: the reported method state stays empty after the merge "
                                f"(fresh run of the final method: executed {fproj['executed']})"))
                continue
            detail = ""
            if field in ("mark_counts", "cmd_counts"):
                more = [m for m, c in proj[field].items() if c > fproj[field].get(m, 0)]
                less = [m for m, c in fproj[field].items() if c > proj[field].get(m, 0)]
                detail = ("rerun" if more else "") + ("+" if more and less else "") + ("lost" if less else "")
            elif field in ("executed", "failed"):
                detail = ("more" if set(proj[field]) - set(fproj[field]) else "") + ("fewer" if set(fproj[field]) - set(proj[field]) else "")
            out.append((f"C01:differs-from-fresh-run:{field}:{detail}:{kclass}",
                        f"edit '{kind}' at tick {t}: {field} of the edited run {proj[field]} != fresh run of the final method {fproj[field]}"))
            break
    return out, "compared", q


SECOND_FIRST = ("append-end", "append-body", "change-unstarted", "resave")
SECOND_KINDS = ("append-end", "append-body", "change-started", "change-executed", "change-started-indent", "change-executed-indent", "resave", "change-unstarted")


def explore_program(item):
    global VERSION_MODE
    # item[3] (optional): the edits of this exploration carry an explicit version number - "same" as / "next" above the engine's
    VERSION_MODE = item[3] if len(item) > 3 else None
    try:
        res = _explore_program(item[:3])
    finally:
        mode, VERSION_MODE = VERSION_MODE, None
    if mode:
        # (same signatures as without a version number: the cause of a deviation does not depend on how the edit is numbered)
        res["viol"] = [(sig, what + f" [edits numbered '{mode}']", dict(rep, version_mode=mode)) for sig, what, rep in res["viol"]]
    return res


def _explore_program(item):
    forest, horizon, two_edits = item
    lines0 = pgen.to_lines(forest)
    res = {"viol": [], "exec": 0, "compared": 0, "unsettled": 0, "reject": 0, "nontrivial": 0, "skipped": None,
           "kinds": collections.Counter(), "ticks": 0}
    base, _, q0 = drive(lines0, {}, horizon)
    res["exec"] += 1
    if q0 is None:
        res["skipped"] = "never-quiescent"
    elif base.state() != "Running" or base.method_state()["failed"]:
        res["skipped"] = "method-error"       # a failing method pauses the run; C13 covers that
    if res["skipped"] == "method-error" and q0 is not None:
        # the run stands in its error state (paused, Method Status = Error): an edit that changes a started line must still be
        # rejected without affecting the run - error state included.  (Accepted edits of a failed method are C13's business.)
        ever = set()
        for t in range(1, min(q0 + 3, horizon - SETTLE - 12) + 1):
            ms = base.obs[t - 1]["mstate"]
            ever |= (set(ms["started"]) | set(ms["executed"]) | set(ms["failed"])) - {"root"}
            for kind, new_lines, expect in make_edits(lines0, ms, 1, frozenset(ever)):
                if expect != "reject":
                    continue
                v, status, q = check_edit(lines0, {}, t, kind, new_lines, expect, horizon, base, {})
                res["exec"] += 1
                res["reject"] += 1
                in_error = base.obs[t - 1]["err"][0]
                res["reject_in_error_state"] = res.get("reject_in_error_state", 0) + int(in_error)
                res["kinds"][kind.split(":")[0]] += 1
                for sig, what in v:
                    res["viol"].append((sig + (":run-in-error-state" if in_error else ""), what,
                                        {"program": [c for _, c in lines0], "edits": [{"tick": t, "kind": kind, "lines": new_lines}]}))
        base.cleanup()
        res["kinds"] = dict(res["kinds"])
        return res
    if res["skipped"]:
        base.cleanup()
        res["kinds"] = {}
        return res
    finals = {}
    last_tick = min(q0 + 2, horizon - SETTLE - 12)
    res["ticks"] = last_tick

    def account(status, kind, nontrivial):
        res["exec"] += 1
        res["kinds"][kind] += 1
        if status == "compared":
            res["compared"] += 1
        elif status == "unsettled":
            res["unsettled"] += 1
        elif status == "reject":
            res["reject"] += 1
        if nontrivial and status in ("compared", "reject"):
            res["nontrivial"] += 1

    # tick 0 executes Start; a run is active from tick 1 on (an edit before that is not a *live* edit)
    ever = set()
    for t in range(1, last_tick + 1):
        ms = base.obs[t - 1]["mstate"]
        ever |= (set(ms["started"]) | set(ms["executed"])) - {"root"}
        for kind, new_lines, expect in make_edits(lines0, ms, 1, frozenset(ever)):
            v, status, q = check_edit(lines0, {}, t, kind, new_lines, expect, horizon, base, finals)
            account(status, kind.split(":")[0], bool(ms["executed"]))
            for sig, what in v:
                res["viol"].append((sig, what, {"program": [c for _, c in lines0], "edits": [{"tick": t, "kind": kind, "lines": new_lines}]}))
            if two_edits and expect == "accept" and status == "compared" and kind.split(":")[0] in SECOND_FIRST:
                r1, _, _ = drive(lines0, {t: new_lines}, horizon)
                for t2 in range(t + 1, min(last_tick + 4, horizon - SETTLE - 8)):
                    ms2 = r1.obs[t2 - 1]["mstate"]
                    for kind2, new2, expect2 in make_edits(new_lines, ms2, 2):
                        if kind2.split(":")[0] not in SECOND_KINDS:
                            continue
                        v2, status2, _ = check_edit(lines0, {t: new_lines}, t2, kind2, new2, expect2, horizon, r1, finals)
                        account(status2, "2nd-" + kind2.split(":")[0], True)
                        for sig, what in v2:
                            res["viol"].append((sig, what, {"program": [c for _, c in lines0],
                                                            "edits": [{"tick": t, "kind": kind, "lines": new_lines},
                                                                      {"tick": t2, "kind": kind2, "lines": new2}]}))
                r1.cleanup()
    base.cleanup()
    res["kinds"] = dict(res["kinds"])
    return res


KINDS_3 = ["M", "W", "L", "K", "Wa", "b"]


def corpus(ctx):
    one = list(pgen.programs(KINDS_FULL, 1, depth=2))
    two = list(pgen.forests(KINDS_FULL, 2, 2))
    if ctx.quick:
        two_small = set(pgen.forests(["M", "L", "K", "W"], 2, 2))
        three = list(pgen.forests(["M", "L", "K", "Wa", "W"], 3, 2))
        macro3 = [f for f in pgen.forests(["MA", "CA", "W", "M"], 3, 2) if {"MA", "CA"} <= set(pgen.kinds_flat(f))]
        # a macro that is called twice (its body lines have run once when the second call resets them)
        M_, T_, W_, CA_ = ("M", ()), ("T", ()), ("W", ()), ("CA", ())
        twice = [(("MA", (M_,)), CA_, CA_), (("MA", (T_,)), CA_, CA_), (("MA", (M_, W_, M_)), CA_, CA_), (("MA", (W_, T_)), CA_, W_, CA_)]
        items = ([(f, H_QUICK, True) for f in one] + [(f, H_QUICK, f in two_small) for f in two]
                 + [(f, H_QUICK, False) for f in three + macro3 + twice])
        bounds = "1 stmt and 2 stmts over {M,L,K,W}: two successive edits; 2 stmts full grammar and 3 stmts over {M,L,K,Wa,W} and 3 stmts over {MA,CA,W,M} with a macro that is called: one edit"
    else:
        three = list(pgen.forests(KINDS_FULL, 3, 2))
        four = list(pgen.forests(KINDS_3, 4, 2))
        items = ([(f, 56, True) for f in one + two] + [(f, 56, False) for f in three] + [(f, 60, False) for f in four])
        bounds = "<=2 stmts full grammar: two successive edits; 3 stmts full grammar and 4 stmts over {M,W,L,K,Wa,b}: one edit"
    # openers with an empty body are silently re-nested by the parser (C17 finding): such texts do not mean what the
    # generator intends, so they are left out here
    items = [it for it in items if pgen.no_empty_openers(it[0])]
    # edits that carry an explicit version number, equal to / one above the engine's current one (1-statement programs and {M,W,L} pairs)
    small = [it for it in items if len(pgen.kinds_flat(it[0])) == 1 or (len(it[0]) == 2 and set(pgen.kinds_flat(it[0])) <= {"M", "W", "L"})]
    items += [(it[0], it[1], False, mode) for it in small for mode in ("same", "next")]
    bounds += "; the 1-statement programs and pairs over {M,W,L} again with edits numbered 'same' / 'next'"
    # methods with an instruction that fails (unknown instruction / UOD command that raises): rejected edits while the run
    # stands in its error state
    failing = [f for f in pgen.programs(["M", "W", "Bogus", "Boom"], 3, depth=0) if {"Bogus", "Boom"} & set(pgen.kinds_flat(f))]
    items += [(f, H_QUICK, False) for f in failing]
    bounds += "; <=3 stmts over {M,W,Bogus,Boom} with a failing instruction: rejected edits only"
    return items, bounds


def run(ctx):
    items, bounds = corpus(ctx)
    ctx.prove_deterministic(explore_program, [items[3], items[len(items) // 2]], k=2)
    results = ctx.pmap(explore_program, items, chunk=1)
    tot = collections.Counter()
    kinds = collections.Counter()
    skipped = collections.Counter()
    for it, r in zip(items, results):
        for k in ("exec", "compared", "unsettled", "reject", "nontrivial", "ticks"):
            tot[k] += r[k]
        tot["reject_in_error_state"] += r.get("reject_in_error_state", 0)
        if r["skipped"]:
            skipped[r["skipped"]] += 1
        kinds.update(r["kinds"])
        for sig, what, rep in r["viol"]:
            ctx.violation(sig, what, rep)
    samples = [{"program": pgen.render(it[0]), "two_edits": it[2]} for it in items[:: max(1, len(items) // 4)][:4]]
    if tot["compared"] == 0:
        raise HarnessError("no edited run was compared with a fresh run (vacuous)")
    ctx.coverage.update(
        states=tot["exec"], transitions=tot["exec"], traces_validated_against_impl=tot["exec"],
        evaluations=tot["exec"], distinct_nontrivial=tot["nontrivial"],
        programs=len(items), programs_skipped=dict(skipped), edit_points=tot["ticks"],
        compared_with_fresh_run=tot["compared"], rejected_edits_compared_tick_for_tick=tot["reject"],
        rejected_edits_while_run_in_error_state=tot["reject_in_error_state"],
        unsettled_pairs_not_compared=tot["unsettled"], per_edit_kind=dict(kinds),
        rule="every (program, edit tick, edit kind[, second edit tick, kind]) is one execution on a fresh engine; "
             "non-trivial = the edit landed after at least one line had executed (or is a second edit)",
        samples=samples, exhaustive=True, bounds=bounds,
    )
    ctx.assumptions += ["X > 1 becomes true at tick 4 in every run", "Alarm and Hang excluded (time-dependent counts)",
                        "for programs whose unedited run ends in a method error only the rejected edits are explored (error state must survive them); accepted edits of a failed method: C13",
                        "edits start at tick 1: tick 0 executes Start, before that no run is active"]


def replay(data):
    global VERSION_MODE
    VERSION_MODE = data.get("version_mode")
    try:
        out = _replay(data)
    finally:
        VERSION_MODE = None
    return out


def _replay(data):
    lines0 = [(f"L{i}", c) for i, c in enumerate(data["program"])]
    horizon = 56
    edits = data["edits"]
    sched = {e["tick"]: [tuple(x) for x in e["lines"]] for e in edits}
    prefix = {e["tick"]: [tuple(x) for x in e["lines"]] for e in edits[:-1]}
    base, _, _ = drive(lines0, prefix, horizon)
    run, recs, q = drive(lines0, sched, horizon)
    print("program:", data["program"])
    for e, rec in zip(edits, recs):
        print(f"edit at tick {e['tick']} kind={e['kind']} -> accepted={rec['accepted']} mode={rec['mode']} error={rec['error']}")
        print("   lines:", [c for _, c in e["lines"]])
        print("   method state before:", rec["mstate_before"], "after:", rec["mstate_after"])
    print("without last edit, marks:", base.marks())
    print("edited run,        marks:", run.marks(), "commands:", sorted(run.cmd_lifecycles().values()))
    last = edits[-1]
    final = [tuple(x) for x in last["lines"]]
    frun, _, _ = drive(final, {}, horizon)
    print("fresh run of final, marks:", frun.marks(), "commands:", sorted(frun.cmd_lifecycles().values()))
    expect = "reject" if last["kind"].startswith(("change-started", "change-executed", "change-once-executed")) else "accept"
    out, _, _ = check_edit(lines0, prefix, last["tick"], last["kind"], final, expect, horizon, base, {})
    return out
