"""C40 — Requests from the aggregator apply atomically between ticks.

Two real threads under a cooperative scheduler (mc/vthreads.py): one ticks the engine, the other issues a request
(method edit, injection, control command, cancel, force).  All interleavings at the instrumented yield points of
openpectus.engine.verif_hooks and at Engine._lock operations up to a preemption bound are explored; every outcome must
equal the outcome of some serial schedule (request entirely between two ticks).
"""
from __future__ import annotations

import collections
import json

from mc import explore
from mc.checks.c01 import norm
from mc.core import HarnessError
from mc.engine_harness import Run
from mc.vthreads import Deadlock, SchedLock, Scheduler

ID = "C40"
LEVEL = "model_checking"
META = dict(
    technique="preemption-bounded exhaustive exploration of thread interleavings at instrumented yield points (cooperative scheduler over two real threads) with a linearizability oracle",
    text="From seven prepared engine states (just started, inside a Wait, in a Block with a pending Watch, with a running UOD "
         "command, paused, about to hand a UOD command to the command manager in the first / second window tick) the ticking thread runs a window of ticks while a second thread issues one request out of {append "
         "edit, inject, Pause/Unpause, Stop, cancel, force}.  Every interleaving at the yield points (phases of Engine.tick, "
         "entry/commit points of the request functions, Engine._lock acquire/release) with at most 1 (quick) / 2 (thorough) "
         "preemptions is executed; the final observation (marks, method state, command life cycles, run state, run log, request "
         "result, tick exceptions) must equal that of a serial schedule in which the request is applied entirely before one of "
         "the window's ticks or after them; deadlocks and exceptions no serial schedule produces are violations.  The same "
         "with two request threads next to the ticking thread (eight request pairs, one tick in the window): the outcome must "
         "equal that of a serial schedule of the two requests and the tick, in which a cancel / force may name the run-log "
         "item offered at an earlier serial position.",
    note="Interleavings inside one statement or between two statements without a yield point in between are not explored "
         "(hooks: openpectus/engine/verif_hooks.py, guarded by OPEN_PECTUS_VERIF=1); the engine lock is replaced on the "
         "instance by a scheduler-visible lock; 34 settle ticks after the window.",
)

SETTLE = 34

SCENARIOS = {
    "just-started": dict(method="Mark: a\nMark: b", warm=0, pre=()),
    "in-wait": dict(method="Mark: a\nWait: 1s\nMark: b", warm=5, pre=()),
    "block-with-watch": dict(method="Block: B\n    Watch: X > 1\n        Mark: w\n    Wait: 1s\n    End block\nMark: z", warm=6, pre=()),
    "running-long": dict(method="Long: 6\nMark: b", warm=4, pre=()),
    "paused": dict(method="Mark: a\nWait: 1s\nMark: b", warm=5, pre=("Pause", 1)),
    # the interpreter hands a UOD command to the command manager inside the window (first / second window tick)
    "command-next": dict(method="Long: 3\nMark: b", warm=3, pre=()),
    "command-after-next": dict(method="Long: 3\nMark: b", warm=2, pre=()),
}
REQUESTS = ["edit", "inject", "pause", "stop", "cancel", "force"]


def prepare(scn):
    sc = SCENARIOS[scn]
    run = Run(sc["method"], observe=("mstate", "runlog"))
    for _ in range(sc["warm"]):
        run.tick()
    if sc["pre"]:
        run.user(sc["pre"][0])
        for _ in range(sc["pre"][1]):
            run.tick()
    return run


def pick_target(run: Run, req):
    """What the user addresses: cancel / force name a run-log item seen at the time the request is issued."""
    if req not in ("cancel", "force"):
        return None
    items = run.runlog_items()
    if req == "cancel":
        cand = [i for i in items if i["cancellable"]]
    else:
        cand = [i for i in items if i["forcible"] and i["state"] not in ("completed", "failed", "cancelled")]
    return cand[-1]["id"] if cand else "nothing-offered"


def do_request(run: Run, scn, req, target=None):
    if req == "edit":
        return run.set_method(list(run.lines) + [("NA", "Mark: app")])
    if req == "inject":
        return run.inject("Mark: I")
    if req == "pause":
        return run.user("Unpause" if scn == "paused" else "Pause")
    if req == "stop":
        return run.user("Stop")
    if target is None:
        target = pick_target(run, req)
    if target == "nothing-offered":
        return {"kind": req, "accepted": False, "error": "nothing-offered"}
    return run.cancel(target) if req == "cancel" else run.force(target)


def observe(run: Run, rec, extra=None):
    rl = run.obs[-1]["runlog"]
    ob = {
        "marks": run.marks(), "mstate": run.method_state(), "state": run.state(), "flags": run.flags(),
        "commands": sorted([v[0], tuple(v[1:])] for v in run.cmd_lifecycles().values()),
        "runlog": rl if isinstance(rl, str) else sorted((i["name"], i["state"]) for i in rl),
        "request": {k: rec.get(k) for k in ("kind", "accepted", "error", "mode")} if rec else None,
        "tick_exceptions": [e[1].split(":")[0] for e in run.tick_exceptions],
        "lines": [c for _, c in run.lines],
        "errors": [e[1] for e in run.error_events],
    }
    if extra:
        ob.update(extra)
    return norm(ob)


def lost_request(scn, req, out_json) -> str | None:
    """'No request is lost': an accepted request must have had its effect by the end of the settle phase."""
    o = json.loads(out_json)
    r = o.get("request") or {}
    if scn == "just-started" and req != "stop" and not o["flags"]["started"]:
        return "Start"                       # the Start accepted before the window never executed
    if not r.get("accepted"):
        return None
    if req == "stop" and o["state"] != "Stopped":
        return "Stop"
    if req == "pause" and scn != "paused" and not o["flags"]["paused"]:
        return "Pause"
    if req == "pause" and scn == "paused" and o["flags"]["paused"] and not o["errors"]:
        return "Unpause"
    if req == "inject" and "I" not in o["marks"] and o["flags"]["started"] and not o["flags"]["paused"]:
        return "inject"
    if req == "edit" and ("Mark: app" not in o["lines"] or ("app" not in o["marks"] and o["flags"]["started"] and not o["flags"]["paused"])):
        return "edit"
    return None


def _reqs(req):
    return (req,) if isinstance(req, str) else tuple(req)


def _rec_of(recs, reqs):
    """what the oracle sees of the request results: the single record, or the list in request order"""
    if len(reqs) == 1:
        return recs.get(0)
    return recs


def serial_outcomes(scn, req, window):
    """Outcomes of all serial schedules: every request applied entirely before one of the window's ticks or after them, two
    requests at the same position in both orders.  With two requests, a cancel / force may name the run-log item the user saw
    at the start of any earlier position (the request was issued then and applied later)."""
    import itertools
    reqs = _reqs(req)
    outs = {}
    pick_opts = []
    for r in reqs:
        pick_opts.append(["late"] + list(range(window + 1)) if (r in ("cancel", "force") and len(reqs) > 1) else ["late"])
    for pos in itertools.product(range(window + 1), repeat=len(reqs)):
        for order in itertools.permutations(range(len(reqs))):
            for picks in itertools.product(*pick_opts):
                if any(pk != "late" and pk > pos[i] for i, pk in enumerate(picks)):
                    continue
                run = prepare(scn)
                recs, targets = {}, {}
                for t in range(window + 1):
                    for i in order:
                        if picks[i] == t:
                            targets[i] = pick_target(run, reqs[i])
                    for i in order:
                        if pos[i] == t:
                            recs[i] = do_request(run, scn, reqs[i], targets.get(i))
                    if t < window:
                        run.tick()
                for _ in range(SETTLE):
                    run.tick()
                outs.setdefault(observe_multi(run, recs, reqs), (pos, order, picks))
                run.cleanup()
    return outs


def observe_multi(run, recs, reqs, extra=None):
    if len(reqs) == 1:
        return observe(run, recs.get(0), extra)
    ex = {"requests": [{k: (recs.get(i) or {}).get(k) for k in ("kind", "accepted", "error", "mode")} for i in range(len(reqs))]}
    if extra:
        ex.update(extra)
    return observe(run, None, ex)


def concurrent(scn, req, window, ch, request_first=False):
    from openpectus.engine import verif_hooks
    run = prepare(scn)
    sched = Scheduler(ch)
    run.engine._lock = SchedLock(sched, "engine._lock")
    box = {}

    def ticker():
        for _ in range(window):
            run.tick()

    reqs = _reqs(req)

    def requester(i):
        def f():
            box[i] = do_request(run, scn, reqs[i])
        return f
    verif_hooks.set_handler(sched.point)
    deadlock = None
    try:
        # thread order decides which interleavings cost a preemption: with the requests first, a request that starts before
        # the first tick and is cut later needs one preemption less
        if request_first:
            sched.run([requester(i) for i in range(len(reqs))] + [ticker])
        else:
            sched.run([ticker] + [requester(i) for i in range(len(reqs))])
    except Deadlock as d:
        deadlock = str(d)
    finally:
        verif_hooks.set_handler(None)
    if deadlock:
        run.cleanup()
        return {"deadlock": deadlock, "trace": sched.trace}, None
    import threading
    run.engine._lock = threading.Lock()
    for _ in range(SETTLE):
        run.tick()
    out = observe_multi(run, box, reqs, {"thread_errors": [e for _, e in sched.errors]} if sched.errors else None)
    run.cleanup()
    return {"trace": sched.trace, "preemptions": sched.preemptions}, out


def explore_pair(item):
    scn, req, window, bound = item[:4]
    request_first = len(item) > 4 and item[4] == "request-first"
    serial = serial_outcomes(scn, req, window)
    single = isinstance(req, str)
    item_req = req
    req = req if single else "+".join(req)
    # the requests themselves must not put the engine into its error state - in any serial order either (none of the prepared
    # states has an error, and every request is a legal one)
    for out_s, where_s in serial.items():
        errs = json.loads(out_s).get("errors")
        if errs:
            viol_serial = (f"C40:request-put-engine-in-error-state:{req}:{scn}:serial-order",
                           f"scenario {scn}, requests {req} applied serially at {where_s}: engine error {errs[:2]}",
                           {"scenario": scn, "request": item_req, "window": window, "choices": [], "request_first": request_first})
            break
    else:
        viol_serial = None
    viol = []
    n = 0
    outcomes = collections.Counter()

    def body(ch):
        return concurrent(scn, item_req, window, ch, request_first)
    for choices, (info, out) in explore.choice_vectors(body, bound):
        n += 1
        if out is None:
            viol.append((f"C40:deadlock:{req}:{scn}", f"deadlock: {info['deadlock']}", {"scenario": scn, "request": item_req, "window": window, "choices": choices, "request_first": request_first}))
            continue
        outcomes[out] += 1
        lost = lost_request(scn, req, out) if single else None
        if lost:
            serial_too = out in serial
            viol.append((f"C40:request-lost:{lost}:by-{req}:{scn}:{'also-in-serial-order' if serial_too else 'only-when-interleaved'}",
                         f"scenario {scn}: the accepted {lost} request had no effect (interleaving {compress(info['trace'])}); outcome {out[:400]}",
                         {"scenario": scn, "request": item_req, "window": window, "choices": choices, "request_first": request_first}))
            continue
        if out not in serial:
            where = (request_first_shape(info["trace"]) if request_first else interleaving_shape(info["trace"])) if single else pair_shape(info["trace"])
            viol.append((f"C40:not-serializable:{req}:{scn}:{where}",
                         f"request {req} in scenario {scn}: outcome of interleaving {compress(info['trace'])} equals no serial schedule; "
                         f"outcome {out[:600]}", {"scenario": scn, "request": item_req, "window": window, "choices": choices, "request_first": request_first}))
    if viol_serial is not None:
        viol.insert(0, viol_serial)
    seen, uniq = set(), []
    for s, w, c in viol:
        if s not in seen:
            seen.add(s)
            uniq.append((s, w, c))
    return uniq, n, len(outcomes), len(serial)


def compress(trace):
    return [f"T{t}:{p}" for t, p in trace]


def request_first_shape(trace):
    """request thread is thread 0: at which of its points it was cut by the first tick step"""
    last = "start"
    for t, p in trace:
        if t == 0:
            last = p
        else:
            return f"request-cut-at-{last}-by-{p}"
    return "request-not-cut"


def interleaving_shape(trace, ticker=0):
    """between which tick phase the first request step ran: '<request point>@<last tick point before it>'"""
    last_tick = "start"
    for t, p in trace:
        if t == ticker:
            last_tick = p
        else:
            return f"{p}@{last_tick}"
    return "?"


def pair_shape(trace):
    """for two requests: which request was cut at which of its points by a step of the other request"""
    last = {}
    for t, p in trace:
        if t == 0:
            continue
        other = 3 - t
        if other in last and not last[other].endswith(".exit") and "release" not in last[other]:
            return f"T{other}-cut-at-{last[other]}-by-T{t}"
        last[t] = p
    return "requests-not-interleaved-with-each-other"


PAIRS = [("pause", "edit"), ("edit", "pause"), ("stop", "edit"), ("inject", "edit"), ("pause", "inject"), ("cancel", "edit"), ("force", "pause"),
         ("stop", "pause")]


def run(ctx):
    window = 2
    bound = 1 if ctx.quick else 2
    items = [(s, r, window, bound) for s in SCENARIOS for r in REQUESTS]
    # two requests and the ticking thread (one tick in the window)
    items += [(s, pr, 1, bound) for s in SCENARIOS for pr in PAIRS]
    # the request thread scheduled first, over a longer window (a request that began before a tick and ends several ticks later)
    items += [(s, r, 4, bound, "request-first") for s in SCENARIOS for r in ("edit", "inject", "pause", "stop")]
    ctx.prove_deterministic(lambda it: explore_pair((it[0], it[1], it[2], 0))[0:1], [items[1], items[8]], k=2)
    results = ctx.pmap(explore_pair, items, chunk=1)
    execs = 0
    distinct = 0
    for it, (viol, n, nout, nser) in zip(items, results):
        execs += n
        distinct += nout
        for s, w, c in viol:
            ctx.violation(s, w, c)
    if execs < 200:
        raise HarnessError("vacuous: too few interleavings")
    ctx.coverage.update(
        states=execs, transitions=execs, traces_validated_against_impl=execs, evaluations=execs,
        distinct_nontrivial=distinct, scenario_request_pairs=len(items), two_request_items=len(SCENARIOS) * len(PAIRS), preemption_bound=bound, window_ticks=window,
        rule="one execution per interleaving with at most `preemption_bound` preemptions, per (prepared state, request); "
             "distinct_nontrivial = distinct final observations over all interleavings",
        samples=[{"scenario": items[1][0], "request": items[1][1]}, {"scenario": items[-1][0], "request": items[-1][1]}],
        exhaustive=True)
    ctx.assumptions += ["yield points: openpectus/engine/verif_hooks.py points + Engine._lock operations",
                        "OPEN_PECTUS_VERIF=1 must be set (python -m mc sets it)"]


def replay(data):
    scn, req, window = data["scenario"], data["request"], data["window"]
    if not isinstance(req, str):
        req = tuple(req)
    serial = serial_outcomes(scn, req, window)
    ch = explore.Chooser(data["choices"])
    info, out = concurrent(scn, req, window, ch, data.get("request_first", False))
    print("scenario:", scn, SCENARIOS[scn]["method"].split("\n"), "request:", req)
    print("interleaving:", compress(info["trace"]))
    for o, j in serial.items():
        print(f"serial (request before window tick {j}):", o[:500])
    print("concurrent outcome:", (out or info)[:700] if isinstance(out, str) else info)
    label = req if isinstance(req, str) else "+".join(req)
    for out_s, where_s in serial.items():
        errs = json.loads(out_s).get("errors")
        if errs:
            print(f"serial order {where_s}: engine error {errs[:2]}")
            return [(f"C40:request-put-engine-in-error-state:{label}:{scn}:serial-order", f"engine error {errs[:2]}")]
    if out is None:
        return [(f"C40:deadlock:{label}:{scn}", info["deadlock"])]
    if out not in serial:
        shape = ((request_first_shape(info['trace']) if data.get("request_first") else interleaving_shape(info['trace']))
                 if isinstance(req, str) else pair_shape(info['trace']))
        return [(f"C40:not-serializable:{label}:{scn}:{shape}", "outcome equals no serial schedule")]
    return []
