"""C38 — Distinct engines never share an engine id.

Part (a): the real `Aggregator.create_engine_id` is evaluated on EVERY (computer_name, uod_name) pair with names of
length 1..L over the alphabet; ids are grouped in a dict, so all pairs of distinct pairs are compared.  Any group with
two different name pairs is a violation; the cause is derived from the colliding pairs themselves.

Part (b): explicit-state BFS over the real AggregatorDispatcher + Aggregator + AggregatorMessageHandlers (in-memory
SQLite, stub publisher and channels) for four clients: an engine, a second process of the same engine, an engine whose
id collides with the first (if part (a) found one) and an unrelated engine; events register / connect / disconnect.
Oracle: a registration never succeeds for an id under which a channel is currently connected, and the channel of a
connected engine stays mapped to its id until that engine itself disconnects.
"""
from __future__ import annotations

import asyncio
import itertools
import logging
from unittest.mock import Mock

logging.disable(logging.CRITICAL)

import openpectus.aggregator.data.models as DMdl                                        # noqa: E402
import openpectus.protocol.engine_messages as EM                                        # noqa: E402
from fastapi_websocket_rpc.schemas import RpcResponse                                   # noqa: E402
from openpectus import __version__                                                      # noqa: E402
from openpectus.aggregator.aggregator import Aggregator                                 # noqa: E402
from openpectus.aggregator.aggregator_message_handlers import AggregatorMessageHandlers  # noqa: E402
from openpectus.aggregator.data import database                                         # noqa: E402
from openpectus.protocol.aggregator_dispatcher import AggregatorDispatcher              # noqa: E402
from mc import explore                                                                  # noqa: E402
from mc.core import HarnessError                                                        # noqa: E402

ID = "C38"
LEVEL = "exploration"
META = dict(
    technique="exhaustive injectivity check of the real engine-id function + BFS over register/connect/disconnect",
    text="The real create_engine_id is evaluated on every (computer, UOD) name pair up to the length bound over an alphabet "
         "with the separator and URL-special characters and ids are grouped, which compares all pairs of pairs; a BFS over "
         "the real registration, connect and disconnect handlers checks that a connected engine's id is never taken over. "
         "Both spaces are finite and completed, so within the bounds the claim is decided by enumeration.",
    note="Names are bounded in length and alphabet; websocket channels and the frontend publisher are stubs; "
         "in-memory SQLite; collisions are classified by analysing the colliding name pairs.",
)

ALPHABET_QUICK = ["a", "b", "_", "/", "%", " ", "A"]
ALPHABET_THOROUGH = ["a", "b", "_", "/", "%", " ", "A"]
SPECIALS = set("_/% ")


# ---------------------------------------------------------------------------
# part (a)

async def _noop(*a, **k):
    return None


class _Stub:
    """Frontend publisher / web-push publisher stand-in: publish_* are no-op coroutines, anything else a Mock."""

    def __getattr__(self, name):
        if name.startswith("publish_"):
            return _noop
        m = Mock()
        object.__setattr__(self, name, m)
        return m


def _msg(computer: str, uod: str, other_version: bool = False, ignore: bool = False) -> EM.RegisterEngineMsg:
    return EM.RegisterEngineMsg(computer_name=computer, uod_name=uod, uod_author_name="n", uod_author_email="e",
                                uod_filename="f", location="l", engine_version=(__version__ + ".x") if other_version else __version__,
                                ignore_version_error=ignore)


_AGG = None


def engine_id(pair) -> str:
    global _AGG
    if _AGG is None:
        _AGG = Aggregator(_Stub(), _Stub(), _Stub())            # type: ignore
    return _AGG.create_engine_id(_msg(pair[0], pair[1]))


def all_names(alphabet, max_len):
    return ["".join(p) for n in range(1, max_len + 1) for p in itertools.product(alphabet, repeat=n)]


def ids_for_computer(arg):
    computer, names = arg
    return [engine_id((computer, u)) for u in names]


def separator_chars(alphabet) -> list[str]:
    """Characters x for which moving x across the name boundary does not change the real id."""
    return [x for x in alphabet if engine_id(("a" + x, "b")) == engine_id(("a", x + "b"))]


def cause(p, q, seps, alphabet) -> str:
    """Why do the distinct pairs p and q get the same id?  Decided from the names only."""
    (c1, u1), (c2, u2) = p, q
    if (c1.casefold(), u1.casefold()) == (c2.casefold(), u2.casefold()):
        return "case-folding"
    if (c1.strip(), u1.strip()) == (c2.strip(), u2.strip()):
        return "whitespace-stripping"
    strip_special = lambda s: "".join(ch for ch in s if ch not in "/% ")      # noqa: E731
    if (strip_special(c1), strip_special(u1)) == (strip_special(c2), strip_special(u2)):
        return "url-special-dropped"
    if len(seps) < len(alphabet) and any(c1 + x + u1 == c2 + x + u2 for x in seps):
        return "separator-in-name"        # joined with the separator both read the same: a separator character inside
                                          # a name is mistaken for the boundary
    if c1 + u1 == c2 + u2:
        return "boundary-not-marked"      # same characters, nothing marks where the computer name ends
    from urllib.parse import unquote
    if (unquote(c1), unquote(u1)) == (unquote(c2), unquote(u2)):
        return "percent-escape-decoded"   # '%41' read as 'A'
    return "other"


# ---------------------------------------------------------------------------
# part (b): BFS over the real handlers

class _Other:
    def __init__(self, engine_id):
        self._id = engine_id

    async def get_engine_id_async(self):
        return RpcResponse[str | None](result=self._id, result_type=None)


class Channel:
    _n = 0

    def __init__(self, client: int, engine_id):
        Channel._n += 1
        self.id = f"channel-{Channel._n}"          # RpcChannel.id (a fresh uuid per websocket)
        self.client = client
        self.other = _Other(engine_id)
        self.closed = False
        self.default_response_timeout = None

    async def close(self):
        self.closed = True


_DB_READY = False


def _fresh_db():
    global _DB_READY
    if not _DB_READY:
        database.configure_db("sqlite:///:memory:")
        DMdl.DBModel.metadata.create_all(database._engine)        # type: ignore
        _DB_READY = True
    else:
        with database._engine.begin() as conn:                    # type: ignore
            for t in reversed(DMdl.DBModel.metadata.sorted_tables):
                conn.execute(t.delete())


class World:
    """One execution: real dispatcher/aggregator/handlers + the harness' book-keeping of the clients."""

    def __init__(self, pairs):
        self.pairs = pairs
        self.held: list = [None] * len(pairs)             # id from the client's last successful registration
        self.channel: list = [None] * len(pairs)          # accepted, not yet disconnected channel
        self.obs: list[dict] = []
        self.dispatcher = AggregatorDispatcher()
        self.aggregator = Aggregator(self.dispatcher, _Stub(), _Stub())       # type: ignore
        self.handlers = AggregatorMessageHandlers(self.aggregator)

    def connected_ids(self):
        return sorted(self.dispatcher._engine_id_channel_map.keys())

    async def apply(self, ev):
        kind, c = ev
        rec = {"ev": ev, "pair": self.pairs[c], "problems": []}
        before = dict(self.dispatcher._engine_id_channel_map)
        if kind in ("reg", "regv", "regx"):
            # regv: an engine of another version that asks to ignore the version check; regx: another version without that flag
            assert self.dispatcher._register_handler is not None
            reply = await self.dispatcher._register_handler(_msg(*self.pairs[c], other_version=kind != "reg", ignore=kind == "regv"))
            if kind == "regx" and reply.success:
                rec["problems"].append(("C38:registration-of-other-version-accepted", f"{ev!r}: engine of another version registered without the ignore flag"))
            rec["success"], rec["engine_id"] = reply.success, reply.engine_id
            if reply.success:
                if reply.engine_id in before:
                    owner = before[reply.engine_id].client
                    rel = "same-engine" if self.pairs[owner] == self.pairs[c] else "other-engine"
                    rec["problems"].append((f"C38:takeover:register-succeeds-while-connected:{rel}",
                                            f"registration of {self.pairs[c]!r} succeeded with id {reply.engine_id!r} while client "
                                            f"{owner} {self.pairs[owner]!r} is connected under that id"))
                self.held[c] = reply.engine_id
            elif reply.engine_id in before:
                rec["refused_connected"] = True
        elif kind == "con":
            ch = Channel(c, self.held[c])
            await self.dispatcher._on_delayed_client_connect(ch)
            accepted = (not ch.closed) and self.dispatcher._engine_id_channel_map.get(self.held[c]) is ch
            rec["accepted"] = accepted
            if accepted:
                self.channel[c] = ch
            else:
                # the refused websocket is closed: the endpoint runs its disconnect handlers for that channel too
                await self.dispatcher.on_client_disconnect(ch)
        elif kind == "dis":
            await self.dispatcher.on_client_disconnect(self.channel[c])
            self.channel[c] = None
        await asyncio.sleep(0)                           # let the publisher tasks created by the handlers finish
        # a connected engine's channel stays mapped to its id
        for i, ch in enumerate(self.channel):
            if ch is not None:
                cur = self.dispatcher._engine_id_channel_map.get(self.held_at_connect(ch))
                if cur is not ch:
                    who = getattr(cur, "client", None)
                    rec["problems"].append((f"C38:takeover:channel-replaced:by-{kind}",
                                            f"after {ev!r}: the channel of connected client {i} {self.pairs[i]!r} is no longer "
                                            f"mapped to its id (now client {who})"))
        rec["connected"] = self.connected_ids()
        rec["registered"] = sorted((k, v.computer_name, v.uod_name) for k, v in self.aggregator._engine_data_map.items())
        rec["foreign_data"] = [i for i, ch in enumerate(self.channel) if ch is not None and
                               (lambda d: d is not None and (d.computer_name, d.uod_name) != self.pairs[i])(
                                   self.aggregator._engine_data_map.get(ch.other._id))]
        self.obs.append(rec)

    @staticmethod
    def held_at_connect(ch):
        return ch.other._id

    def canon(self):
        return (tuple(self.held), tuple(ch is not None for ch in self.channel),
                tuple(self.connected_ids()),
                tuple(sorted((k, v.computer_name, v.uod_name) for k, v in self.aggregator._engine_data_map.items())))


async def _replay(pairs, hist):
    w = World(pairs)
    for ev in hist:
        await w.apply(tuple(ev))
    await asyncio.sleep(0)
    return w


def build(pairs, hist) -> World:
    _fresh_db()
    return asyncio.run(_replay(pairs, hist))


def enabled(w: World, hist):
    evs = []
    for c in range(len(w.pairs)):
        evs.append(("reg", c))
        if w.held[c] is not None and w.channel[c] is None:
            evs.append(("con", c))
        if w.channel[c] is not None:
            evs.append(("dis", c))
    return evs


def enabled_versions(w: World, hist):
    evs = list(enabled(w, hist))
    for c in range(len(w.pairs)):
        evs += [("regv", c), ("regx", c)]
    return evs


def _obs_of(arg):
    pairs, hist = arg
    w = build(pairs, hist)
    return [{k: v for k, v in r.items()} for r in w.obs], w.canon()


def client_pairs(collision):
    """engine, second process of the same engine, colliding engine (if any), unrelated engine"""
    if collision is not None:
        p, q = collision
        return [p, p, q, ("b", "b")]
    return [("a", "b"), ("a", "b"), ("b", "b")]


# ---------------------------------------------------------------------------

def run(ctx):
    alphabet = ALPHABET_QUICK if ctx.quick else ALPHABET_THOROUGH
    max_len = 2 if ctx.quick else 3
    names = all_names(alphabet, max_len)
    seps = separator_chars(alphabet)
    ctx.prove_deterministic(engine_id, [("a_", "b"), ("a", "_b"), ("a/", "% ")])
    rows = ctx.pmap(ids_for_computer, [(c, names) for c in names])
    groups: dict[str, list] = {}
    n_pairs = 0
    nontrivial = 0
    for c, ids in zip(names, rows):
        for u, i in zip(names, ids):
            n_pairs += 1
            if (set(c) | set(u)) & SPECIALS:
                nontrivial += 1
            groups.setdefault(i, []).append((c, u))
    colliding_groups = 0
    colliding_pairpairs = 0
    first_collision = None
    per_cause: dict[str, int] = {}
    # simplest first: groups ordered by total length of their two shortest members, then lexicographically
    def _rank(p):
        return (len(p[0]) + len(p[1]), [alphabet.index(ch) for ch in p[0]], [alphabet.index(ch) for ch in p[1]])

    def _key(g):
        g2 = sorted(g, key=_rank)
        return (_rank(g2[0])[0] + _rank(g2[1])[0], _rank(g2[0]), _rank(g2[1]))
    multi = sorted((g for g in groups.values() if len(g) > 1), key=_key)
    for g in multi:
        colliding_groups += 1
        g = sorted(g, key=_rank)
        colliding_pairpairs += len(g) * (len(g) - 1) // 2
        for p, q in itertools.combinations(g, 2):
            cz = cause(p, q, seps, alphabet)
            per_cause[cz] = per_cause.get(cz, 0) + 1
            if first_collision is None:
                first_collision = (p, q)
            ctx.violation(f"C38:collision:{cz}", f"engines {p!r} and {q!r} both get engine id {engine_id(p)!r}",
                          {"part": "a", "pairs": [list(p), list(q)]})
    ctx.note(f"[C38] (a) {len(names)} names, {n_pairs} pairs, {len(groups)} distinct ids, {colliding_groups} colliding ids, "
             f"{colliding_pairpairs} colliding pair-pairs by cause {per_cause}; separator characters found: {seps}")

    # part (a2): names built from tokens that include percent escapes (a name may well contain '%41' or '%2F' literally)
    tokens = ["A", "/", "%", "%41", "%2F", "%2f", "%25"]
    names2 = sorted({"".join(p) for n in (1, 2) for p in itertools.product(tokens, repeat=n)}, key=lambda x: (len(x), x))
    groups2: dict[str, list] = {}
    for c in names2:
        for u in names2:
            groups2.setdefault(engine_id((c, u)), []).append((c, u))
    n_pairs2 = len(names2) ** 2
    collisions2 = 0
    for i, g in sorted(groups2.items()):
        for p, q in itertools.combinations(sorted(g, key=lambda x: (len(x[0]) + len(x[1]), x)), 2):
            collisions2 += 1
            cz = cause(p, q, seps, alphabet)
            ctx.violation(f"C38:collision:{cz}", f"engines {p!r} and {q!r} both get engine id {i!r}", {"part": "a", "pairs": [list(p), list(q)]})
    ctx.note(f"[C38] (a2) {len(names2)} names from tokens {tokens}, {n_pairs2} pairs, {len(groups2)} distinct ids, {collisions2} colliding pair-pairs")

    # part (b)
    pairs = client_pairs(first_collision)
    depth = 12          # the state space closes at depth 10 on the unchanged tree; `bfs_state_space_closed` reports it
    ctx.prove_deterministic(_obs_of, [(pairs, (("reg", 0), ("con", 0), ("reg", 1), ("dis", 0), ("reg", 1))),
                                      (pairs, (("reg", 0), ("reg", 2), ("con", 2), ("con", 0)))])
    stats = {"refused": 0, "con_refused": 0, "foreign": set(), "outcomes": set()}

    def on_tr(hist, ev, nxt):
        rec = nxt.obs[-1]
        for sig, what in rec["problems"]:
            ctx.violation(sig, what, {"part": "b", "pairs": [list(p) for p in pairs], "history": [list(e) for e in hist] + [list(ev)]})
        if rec.get("refused_connected"):
            stats["refused"] += 1
        if ev[0] == "con" and not rec["accepted"]:
            stats["con_refused"] += 1
        if rec["foreign_data"]:
            stats["foreign"].add(nxt.canon())
        stats["outcomes"].add((ev[0], rec.get("success"), rec.get("accepted"), bool(rec.get("refused_connected")), len(rec["connected"])))

    res = explore.bfs(lambda h: build(pairs, h), enabled, lambda w: w.canon(), on_tr, depth)
    # second BFS: names with characters the id function escapes (two processes of that engine and an unrelated engine)
    pairs2 = [("a b", "c/d"), ("a b", "c/d"), ("b", "b")]

    def on_tr2(hist, ev, nxt):
        rec = nxt.obs[-1]
        for sig, what in rec["problems"]:
            ctx.violation(sig + ":escaped-names", what,
                          {"part": "b", "pairs": [list(p) for p in pairs2], "history": [list(e) for e in hist] + [list(ev)]})
    res2 = explore.bfs(lambda h: build(pairs2, h), enabled, lambda w: w.canon(), on_tr2, depth)
    # third BFS: registrations from an engine of another version (with / without the ignore-version flag)
    pairs3 = [("a", "b"), ("a", "b")]

    def on_tr3(hist, ev, nxt):
        rec = nxt.obs[-1]
        for sig, what in rec["problems"]:
            ctx.violation(sig + (":other-version" if ev[0] != "reg" else ":after-other-version"), what,
                          {"part": "b", "pairs": [list(p) for p in pairs3], "history": [list(e) for e in hist] + [list(ev)]})
    res3 = explore.bfs(lambda h: build(pairs3, h), enabled_versions, lambda w: w.canon(), on_tr3, 6)
    ctx.note(f"[C38] (b3) clients={pairs3} with regv/regx: states={res3.states} transitions={res3.transitions}")
    ctx.note(f"[C38] (b2) clients={pairs2}: states={res2.states} transitions={res2.transitions}")
    ctx.note(f"[C38] (b) clients={pairs} depth={depth}: states={res.states} transitions={res.transitions} max_depth={res.max_depth} "
             f"cut_at_bound={res.frontier_at_bound} register-refused-while-connected={stats['refused']} "
             f"connect-refused={stats['con_refused']} states-connected-under-other-engines-data={len(stats['foreign'])}")
    if stats["refused"] == 0 or stats["con_refused"] == 0:
        raise HarnessError("BFS never reached a registration or a connect for an id that is currently connected")
    ctx.coverage.update(
        evaluations=n_pairs + n_pairs2 + res.transitions, pairs_evaluated=n_pairs, pairs_with_percent_escape_tokens_evaluated=n_pairs2,
        percent_escape_tokens=tokens, names=len(names), distinct_ids=len(groups),
        pair_pairs_compared=n_pairs * (n_pairs - 1) // 2, colliding_ids=colliding_groups,
        colliding_pair_pairs=colliding_pairpairs, collisions_by_cause=per_cause, separator_chars=seps,
        distinct_nontrivial=nontrivial,
        rule="(a) one evaluation = the real create_engine_id on one (computer, uod) pair; all pairs of pairs compared by grouping "
             "equal ids; non-trivial = a pair in which a name contains '_', '/', '%' or space.  (b) BFS over register/connect/"
             "disconnect of the clients on the real handlers, canonical states deduplicated",
        samples=[["a_", "b"], ["a", "_b"], ["a/", "% "], [list(e) for e in (res.histories[-1] if res.histories else ())]],
        states=res.states + res2.states + res3.states, transitions=res.transitions + res2.transitions + res3.transitions, bfs_depth=depth, third_bfs="two processes of one engine, events reg/con/dis plus regv (other version, ignore flag) and regx (other version), depth 6",
        second_bfs_clients=[list(p) for p in pairs2], bfs_max_depth_reached=res.max_depth,
        bfs_state_space_closed=res.complete, bfs_clients=[list(p) for p in pairs],
        register_refused_while_connected=stats["refused"], connect_refused=stats["con_refused"],
        states_connected_under_other_engines_data=len(stats["foreign"]), distinct_outcomes=len(stats["outcomes"]),
        alphabet=alphabet, max_name_len=max_len, exhaustive=True,
        explanation="(a) every pair of names up to the length bound; (b) every event in every canonical state of depth < bound"
                    + ("; no new state at the bound (state space closed)" if res.complete else ""),
    )
    ctx.assumptions += [
        "engine names are bounded to the stated alphabet and length; longer names and other characters are not covered",
        "a client that failed to register keeps the id of its previous successful registration (superset of real engine behaviour)",
        "websocket channels are stubs answering get_engine_id_async; frontend publisher is a stub; in-memory SQLite",
    ]


def replay(data):
    if data.get("part") == "a":
        p, q = (tuple(x) for x in data["pairs"])
        ip, iq = engine_id(p), engine_id(q)
        seps = separator_chars(ALPHABET_THOROUGH)
        print(f"create_engine_id{p!r} = {ip!r}")
        print(f"create_engine_id{q!r} = {iq!r}")
        print(f"separator characters (moving them across the boundary keeps the id): {seps}")
        if p != q and ip == iq:
            return [(f"C38:collision:{cause(p, q, seps, ALPHABET_THOROUGH)}", f"engines {p!r} and {q!r} both get engine id {ip!r}")]
        return []
    pairs = [tuple(p) for p in data["pairs"]]
    w = build(pairs, [tuple(e) for e in data["history"]])
    out = []
    for rec in w.obs:
        print({k: rec[k] for k in rec if k != "problems"})
        out += rec["problems"]
    return out
