"""C29 — Plot-log persistence is monotone, throttled and faithful.

Explicit-state BFS over streams of TagsUpdatedMsg for an active run on the real Aggregator + message handlers +
repositories (fresh in-memory SQLite per history, mc/agg_harness.py).  The fixed prefix registers and connects the
engine, sends uod_info (readings A and B, data-log interval 5 s) and run_started(r1).  Alphabet: tag A exactly one
interval later than the newest time reported so far (tA+5), more than one interval later (tA+6), the previous A
message again (tA=, duplicated t), A with an older time (tA-3, out of order), tag B seen for the first time late
(tB+6), and `bounce` = the engine loses the connection and comes back (disconnect, register, connect, uod_info) in
the middle of the run (quick: at most once per stream).  Thorough explores that alphabet one level deeper and, at depth 6,
a wider one with both tags in one message, B out of order and the next run (run_stopped(r1), run_started(r2)).

A reported value encodes (tag, report time), so the report a persisted row stems from is known.  For every row that a
transition adds to an entry of a plot log (rows of one entry in insertion order):
  * its tick time is greater than the previous row's                       -> C29:time-not-increasing
  * it is more than the data-log interval after the previous row           -> C29:throttle
  * its value is not from an older report than the previous row's value    -> C29:older-value
  * the value was reported for that tag, at a time <= the row's tick time  -> C29:value-not-reported / C29:recorded-before-reported
The discriminator says whether the previous row of the entry was written on the same connection or before a reconnect.
"Recorded at most once per data-log interval" is read as: two rows of an entry are more than the interval apart (the
code's own `>`); rows exactly one interval apart count as two in one (closed) interval.
"""
from mc import agg_harness as H
from mc.core import HarnessError

ID = "C29"
LEVEL = "model_checking"
META = dict(
    technique="explicit-state BFS over tag-update streams (out of order, duplicated, late tags, reconnect) on the real aggregator with an in-memory database",
    text="Every stream of the alphabet up to the depth bound is delivered to the real Aggregator and persisted by the real "
         "PlotLogRepository; after every transition each new PlotLogEntryValue row is compared with the previous row of its entry and "
         "with the set of reports the engine made. Exhaustive within the bound over the stated alphabet.",
    note="Interval 5 s, tick times are whole seconds; values encode their report; one engine, tags A and B, both in the uod readings. "
         "'Once per interval' is read as strictly more than the interval apart.",
)

PREFIX = ("reg", "conn", "uod", "rs1")
ALPHABET_QUICK = ("tA+6", "tA+5", "tA=", "tA-3", "tA-9", "tB+6", "bounce1")           # at most one reconnect per stream
ALPHABET_DEEP = ("tA+6", "tA+5", "tA=", "tA-3", "tA-9", "tB+6", "bounce")               # any number of reconnects
ALPHABET_WIDE = ("tA+6", "tA+5", "tA=", "tA-3", "tB+6", "bounce", "tAB+6", "tB-3", "next")
# (alphabet, depth) explored per tier; thorough contains the quick space
# a run_started for the active run delivered again in the middle of the stream (buffered / re-sent after a reconnect)
ALPHABET_RESENT = ("tA+6", "tA+3", "rs1", "tB+6", "tA=")
# a Mark (system tag, text value) reported between two samples of the readings
ALPHABET_MARK = ("tA+6", "tA+2", "tM+1", "tB+2", "tM+6")
PLAN = {"quick": [(ALPHABET_QUICK, 6), (ALPHABET_RESENT, 4), (ALPHABET_MARK, 5)],
        "thorough": [(ALPHABET_DEEP, 7), (ALPHABET_WIDE, 6), (ALPHABET_RESENT, 6), (ALPHABET_MARK, 7)]}


def _row_step(obs):
    m = {}
    for rec in obs:
        for row in rec["new_rows"]:
            m[row[0]] = rec["i"]
    return m


def _reports_upto(obs, i):
    rep = set()
    for rec in obs[:i + 1]:
        if rec["sent"]:
            rep.update((tag, t) for tag, t in rec["sent"]["tags"])
    return rep


def check_step(obs, i, stats=None):
    rec = obs[i]
    if rec.get("raised"):
        return [(f"C29:aggregator-raised:{rec['ev']}:{rec['raised'].split(':')[0]}", f"handling {rec['ev']} (step {i}) raised {rec['raised']}")]
    if not rec["new_rows"]:
        return []
    out = []
    reports = _reports_upto(obs, i)
    step_of = _row_step(obs[:i])
    by_entry: dict = {}
    for row in rec["pre_db"]["values"]:
        by_entry.setdefault((row[1], row[3]), []).append(row)
    for row in rec["new_rows"]:
        rid, plid, run, tag, tick, val = row
        if stats is not None:
            stats["rows"] += 1
        src = H.source_of(tag, val) if tag in H.TAG_OFFSET else None
        if src is None or (tag, src) not in reports:
            out.append((f"C29:value-not-reported:{tag}", f"{rec['ev']} (step {i}) recorded {tag}={val!r} at {tick} in run {run}; the engine never reported that value for {tag}"))
        elif src > tick:
            out.append((f"C29:recorded-before-reported:{tag}", f"{rec['ev']} (step {i}) recorded {tag}={val!r} at {tick} but it was reported at {src}"))
        prev_rows = by_entry.setdefault((plid, tag), [])
        if prev_rows:
            prev = prev_rows[-1]
            if stats is not None:
                stats["pairs"] += 1
            since = step_of.get(prev[0], i)
            interrupted = any(o["ev"] in ("disc", "restart", "bounce", "bounce1") for o in obs[since + 1:i + 1])
            where = "after-reconnect" if interrupted else "same-connection"
            if stats is not None and interrupted:
                stats["pairs_across_reconnect"] += 1
            if tick <= prev[4]:
                out.append((f"C29:time-not-increasing:{where}", f"{rec['ev']} (step {i}) recorded {tag} at {tick} after a row at {prev[4]} (run {run})"))
            elif tick - prev[4] <= H.INTERVAL:
                out.append((f"C29:throttle:{where}", f"{rec['ev']} (step {i}) recorded {tag} at {tick}, only {tick - prev[4]} s after the row at {prev[4]} (interval {H.INTERVAL}, run {run})"))
            psrc = H.source_of(tag, prev[5])
            if src is not None and psrc is not None and src < psrc:
                out.append((f"C29:older-value:{where}", f"{rec['ev']} (step {i}) recorded {tag} value reported at {src} (row time {tick}) after the value reported at {psrc} (run {run})"))
        prev_rows.append(row)
    return out


def _worker(item):
    prefix, hist, ev, alphabet = item
    s = H.build(hist + (ev,), prefix)
    stats = dict(rows=0, pairs=0, pairs_across_reconnect=0)
    viol = check_step(s.obs, len(s.obs) - 1, stats)
    shape = tuple(sorted(set(hist + (ev,))))
    return H.canon_digest(s), H.enabled(s.model, alphabet), (viol, stats, shape)


def _observe(h):
    return [(r["ev"], r["reply"], r["agg"], r["db"]) for r in H.build(h, PREFIX).obs]


def run(ctx):
    plan = PLAN["quick" if ctx.quick else "thorough"]
    ctx.prove_deterministic(_observe, [("tA+6", "tA+5", "tA-3", "tB+6", "tA+6", "tA="), ("tA+6", "bounce", "tA=", "tA+5", "tB+6"),
                                       ("tA+6", "tB+6", "next", "tA+6")])
    tot = dict(rows=0, pairs=0, pairs_across_reconnect=0)
    info = dict(nontrivial=0, shapes=set(), samples=[])

    def on_result(h, ev, payload):
        viol, stats, shape = payload
        for sig, what in viol:
            ctx.violation(sig, what, {"prefix": list(PREFIX), "history": list(h) + [ev]})
        for k in tot:
            tot[k] += stats[k]
        if stats["pairs"]:
            info["nontrivial"] += 1
            if shape not in info["shapes"] and len(shape) >= 4 and len(info["samples"]) < 5:
                info["samples"].append(list(h) + [ev])
            info["shapes"].add(shape)

    states = transitions = cut = 0
    samples, explorations = [], []
    for alphabet, depth in plan:
        ex = H.Explorer(ctx, _worker, PREFIX, alphabet, depth).run(on_result)
        ctx.note(f"[C29] alphabet={list(alphabet)} depth={depth} states={ex.states} transitions={ex.transitions} "
                 f"per_level(transitions,new states)={ex.per_level}")
        states += ex.states
        transitions += ex.transitions
        cut += ex.cut_at_bound
        samples += ex.samples[-2:]
        explorations.append(dict(alphabet=list(alphabet), depth=depth, states=ex.states, transitions=ex.transitions,
                                 per_level=[list(x) for x in ex.per_level]))
    ctx.note(f"[C29] checked={tot}")
    if not tot["pairs"] or tot["pairs"] == tot["pairs_across_reconnect"]:
        raise HarnessError(f"vacuous: no row was ever compared with an earlier row of its entry on one connection {tot}")
    ctx.coverage.update(
        states=states, transitions=transitions, traces_validated_against_impl=transitions,
        evaluations=tot["rows"], distinct_nontrivial=info["nontrivial"],
        rows_checked=tot["rows"], consecutive_row_pairs_checked=tot["pairs"], pairs_across_a_reconnect=tot["pairs_across_reconnect"],
        distinct_event_sets_of_nontrivial_streams=len(info["shapes"]),
        rule="level-synchronous BFS over tag-update streams after the fixed prefix, once per (alphabet, depth) of the plan (states and "
             "transitions are summed over the explorations); one history per canonical state (database rows + engine data + set of "
             "reports, times relative to the newest report) is expanded by every enabled event, every transition is executed on the real "
             "aggregator; evaluations = persisted rows checked; non-trivial = explored transitions that added a row to an entry that "
             "already had one (so order, throttle and freshness were compared)",
        samples=info["samples"] or samples, depth=max(d for _, d in plan), explorations=explorations, prefix=list(PREFIX),
        states_cut_at_bound=cut, exhaustive=True)
    ctx.assumptions += ["'at most once per data-log interval' is read as: consecutive rows of an entry are more than the interval apart",
                        "a value counts as reported if a TagsUpdatedMsg carrying it was delivered to the aggregator earlier in the history (any run)",
                        "the aggregator code compares only differences of tick times (canonical states use times relative to the newest report)",
                        "depth 6 was kept for the quick tier by giving C29 the sub-alphabet that reaches persist_tag_values "
                        "(no run_started/run_stopped duplicates, no separate register/connect events; reconnect as one macro event)"]


def replay(data):
    s = H.build(tuple(data["history"]), tuple(data.get("prefix", PREFIX)))
    out = []
    for i, rec in enumerate(s.obs):
        print(H.fmt_step(rec))
        for v in check_step(s.obs, i):
            print("     !!", v)
            out.append(v)
    return out
