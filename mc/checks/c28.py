"""C28 — A run survives engine reconnects and aggregator restarts.

Explicit-state BFS over histories of {run_started(r1) (also resent), tag update, run_stopped(r1), disconnect,
re-register, websocket connect, uod_info, graceful aggregator restart} on the real Aggregator + message
handlers + dispatcher + repositories (fresh in-memory SQLite per history, mc/agg_harness.py).  A restart creates
a NEW Aggregator/dispatcher/handlers on the same database, so everything the new instance knows comes from its
database.  This code base has no ReconnectedMsg: the run is given back to a re-registering engine by
FromEngine._try_restore_reconnected_engine_data from the RecentEngine row.

Oracles (asserted only for a run r1 during which a disconnect or restart happened, i.e. the statement's scope):
 (a) whenever the engine is registered again while it is in run r1, the aggregator's engine data has run id r1;
 (b) a tag update for r1 delivered after the reconnect creates no row outside a PlotLog of run r1, and — if its time is
     more than the data-log interval after the newest row of r1's plot log (or that log is empty), r1's plot log has an
     entry for the tag, and the engine has resent its uod_info (so the aggregator knows the interval) — a row with the
     reported value appears in a PlotLog of run r1;
 (c) after run_stopped(r1) there is exactly one RecentRun row for r1;
 (a') once r1 was stopped and the engine is idle, a later re-registration must not make the aggregator hold r1 as the
     active run again (it would be stored a second time).
"""
from mc import agg_harness as H
from mc.core import HarnessError

ID = "C28"
LEVEL = "model_checking"
META = dict(
    technique="explicit-state BFS over disconnect/re-register/restart/run-message histories on the real aggregator with an in-memory database",
    text="Every history of the alphabet up to the depth bound is executed on the real Aggregator, message handlers, dispatcher and "
         "repositories; an aggregator restart builds a new Aggregator on the same SQLite database. After every transition the run id "
         "held for the re-registered engine, the destination of newly persisted tag rows and the RecentRun rows are compared with what "
         "the engine did. A second, shallower exploration adds a second run id (run_started/run_stopped of r2); runs during which a "
         "run_stopped of another run id was delivered are left to C30. Exhaustive within the bound, at every point of the run where a disconnect or restart can be inserted.",
    note="Restart is graceful (Aggregator.shutdown and dispatcher.shutdown run).  A third exploration adds 'kill' (the process dies, nothing "
         "is written, a new Aggregator starts on the same database): a run whose interruption the database never heard of is then out of scope, "
         "a run that had been interrupted and given back before must be given back again. One engine, one run id, one tag, tag times increasing by more than the interval. "
         "Tag recording is only demanded once uod_info was resent after the re-registration.",
)

PREFIX = ("reg", "conn", "uod")
ALPHABET = ("rs1", "tA+6", "stop1", "disc", "reg", "conn", "uod", "restart", "bounce")
# second exploration (shallower): a second run id, e.g. a new run started while the aggregator still holds the restored first one
ALPHABET2 = ALPHABET + ("rs2", "stop2")   # bounce = disc+reg+conn+uod in one step
# third exploration: the aggregator process is killed (no shutdown handling) and restarted on the same database
ALPHABET3 = ("rs1", "tA+6", "stop1", "bounce", "kill", "reg", "conn", "uod")
RUN = "r1"


def _kinds(pre, r):
    return "+".join(pre["interrupts"].get(r, [])) or "none"


def check_step(obs, i, stats=None):
    rec = obs[i]
    ev, pre, post, agg = rec["ev"], rec["pre"], rec["post"], rec["agg"]
    out = []
    if rec.get("raised"):
        out.append((f"C28:aggregator-raised:{ev}:{rec['raised'].split(':')[0]}",
                    f"handling {ev} (step {i}) raised {rec['raised']}"))
    if rec["desync"]:
        out.append((f"C28:connection-state:{ev}", f"after {ev} (step {i}) aggregator registered/connected = {agg['registered']}/{agg['connected']}, "
                    f"engine expects {post['registered']}/{post['connected']}"))
    # (a) same run, same run id, whenever the engine is registered again during its run
    r = post["eng_run"]
    # (a run during which a run_stopped of ANOTHER run id was delivered is stored and reset early by the aggregator: that is
    # the known C30 finding 'foreign run_stopped', not a reconnect problem; such runs are left to C30)
    if r is not None and post["registered"] and post["interrupts"].get(r) and r not in post["misclosed"]:
        if stats is not None:
            stats["a"] += 1
        if agg["run"] != r:
            kind = "lost" if agg["run"] is None else "changed"
            out.append((f"C28:run-{kind}:after-{_kinds(post, r)}",
                        f"engine is in run {r} and registered again after {_kinds(post, r)}; after {ev} (step {i}) the aggregator holds run {agg['run']}"))
    # (a') a run that was stopped (and stored) is over: a later re-registration of the idle engine must not bring it back
    # (not after a kill: the row that says 'in run r1' could not be rewritten when the aggregator died after the stop)
    if post["eng_run"] is None and post["registered"] and ev in ("reg", "bounce") and not post.get("kills"):
        for r0 in post["stopped"]:
            if r0 in post["reopened"]:
                continue
            if stats is not None:
                stats["a"] += 1
            if agg["run"] == r0:
                out.append((f"C28:stopped-run-resumed:after-{_kinds(post, r0)}",
                            f"run {r0} was stopped and the engine is idle; after {ev} (step {i}) the aggregator holds run {r0} as the "
                            f"engine's active run again (it would be stored a second time when the next run starts)"))
    # (b) tag data of the run arriving after the reconnect
    sent = rec["sent"]
    if sent and sent["run"] is not None and pre["interrupts"].get(sent["run"]) and sent["run"] not in pre["misclosed"]:
        r = sent["run"]
        for row in rec["new_rows"]:
            if row[2] != r:
                out.append((f"C28:tag-row-in-other-run:after-{_kinds(pre, r)}",
                            f"{ev} (step {i}) for run {r} created row {row[3:]} in a PlotLog of run {row[2]}"))
        run_rows = [v for v in rec["pre_db"]["values"] if v[2] == r]
        newest = max((v[4] for v in run_rows), default=None)
        pl_ids = {p[0] for p in rec["pre_db"]["plot_logs"] if p[2] == r}
        for tag, t in sent["tags"]:
            has_entry = any(e[1] in pl_ids and e[2] == tag for e in rec["pre_db"]["entries"])
            due = newest is None or t - newest > H.INTERVAL
            if not (has_entry and due and pre["uod_since_reg"] and t >= pre["clock"]):
                if stats is not None:
                    stats["b_silent"] += 1
                continue
            if stats is not None:
                stats["b"] += 1
            if not any(row[2] == r and row[3] == tag and row[5] == H.value_of(tag, t) for row in rec["new_rows"]):
                out.append((f"C28:tag-not-recorded:after-{_kinds(pre, r)}",
                            f"{ev} (step {i}): {tag}@{t} for run {r} (newest row of that run: {newest}, interval {H.INTERVAL}) was {rec['reply']} "
                            f"but no row was added to run {r}'s plot log; new rows {[x[2:] for x in rec['new_rows']]}"))
    # (c) stored once when it stops
    if ev.startswith("stop") and rec["reply"] == "SuccessMessage":
        r = "r" + ev[-1]
        if pre["eng_run"] == r and pre["interrupts"].get(r) and r not in pre["reopened"] and r not in pre["misclosed"]:   # a run_started resent after the stop is C30
            if stats is not None:
                stats["c"] += 1
            n = H.count_by_run(rec["db"]["recent_runs"]).get(r, 0)
            if n != 1:
                out.append((f"C28:recent-runs-after-stop={n}:after-{_kinds(pre, r)}",
                            f"{ev} (step {i}) for run {r} interrupted by {_kinds(pre, r)} left {n} RecentRun rows for it"))
    return out


def _worker(item):
    prefix, hist, ev, alphabet = item
    s = H.build(hist + (ev,), prefix)
    stats = dict(a=0, b=0, b_silent=0, c=0)
    viol = check_step(s.obs, len(s.obs) - 1, stats)
    post = s.obs[-1]["post"]
    interrupted_and_back = bool(post["interrupts"].get(RUN)) and post["registered"] and (post["eng_run"] == RUN or RUN in post["stopped"])
    kinds = tuple(post["interrupts"].get(RUN, []))
    return H.canon_digest(s), H.enabled(s.model, alphabet), (viol, stats, interrupted_and_back, kinds)


def _observe(h):
    return [(r["ev"], r["reply"], r["agg"], r["db"]) for r in H.build(h, PREFIX).obs]


def run(ctx):
    depth = 7 if ctx.quick else 11
    ctx.prove_deterministic(_observe, [("rs1", "tA+6", "disc", "reg", "conn", "uod", "tA+6", "stop1"),
                                       ("rs1", "restart", "reg", "conn", "tA+6", "stop1"), ("rs1", "disc", "restart", "reg")])
    tot = dict(a=0, b=0, b_silent=0, c=0)
    info = dict(nontrivial=0, kinds=set(), samples=[])

    def on_result(h, ev, payload):
        viol, stats, back, kinds = payload
        for sig, what in viol:
            ctx.violation(sig, what, {"prefix": list(PREFIX), "history": list(h) + [ev]})
        for k in tot:
            tot[k] += stats[k]
        if back:
            info["nontrivial"] += 1
            info["kinds"].add(kinds)
        if (stats["b"] or stats["c"]) and len(info["samples"]) < 6 and (stats["c"] or len(info["samples"]) < 3):
            info["samples"].append(list(h) + [ev])

    ex = H.Explorer(ctx, _worker, PREFIX, ALPHABET, depth).run(on_result)
    ctx.note(f"[C28] depth={depth} states={ex.states} transitions={ex.transitions} per_level(transitions,new states)={ex.per_level} checks={tot}")
    depth2 = 5 if ctx.quick else 8
    ex2 = H.Explorer(ctx, _worker, PREFIX, ALPHABET2, depth2).run(on_result)
    ctx.note(f"[C28] two run ids: depth={depth2} states={ex2.states} transitions={ex2.transitions} checks={tot}")
    depth3 = 6 if ctx.quick else 7
    ex3 = H.Explorer(ctx, _worker, PREFIX, ALPHABET3, depth3).run(on_result)
    ctx.note(f"[C28] with kill: depth={depth3} states={ex3.states} transitions={ex3.transitions} checks={tot}")
    if not (tot["a"] and tot["b"] and tot["c"]):
        raise HarnessError(f"vacuous: an oracle was never evaluated {tot}")
    ctx.coverage.update(
        states=ex.states + ex2.states + ex3.states, transitions=ex.transitions + ex2.transitions + ex3.transitions,
        traces_validated_against_impl=ex.transitions + ex2.transitions + ex3.transitions,
        third_exploration=dict(alphabet=list(ALPHABET3), depth=depth3, states=ex3.states, transitions=ex3.transitions),
        second_exploration=dict(alphabet=list(ALPHABET2), depth=depth2, states=ex2.states, transitions=ex2.transitions),
        evaluations=tot["a"] + tot["b"] + tot["c"], distinct_nontrivial=info["nontrivial"],
        run_id_checks=tot["a"], tag_recording_checks=tot["b"], tag_updates_where_the_text_is_silent=tot["b_silent"], stored_once_checks=tot["c"],
        interruption_kinds_seen=sorted("+".join(k) for k in info["kinds"]),
        rule="level-synchronous BFS over event histories after the fixed prefix; one history per canonical state (database rows + engine "
             "data + harness facts) is expanded by every enabled event, every transition is executed on the real aggregator; "
             "non-trivial = explored transitions ending in a state where a disconnect or restart happened while run r1 was active and the "
             "engine is registered again; evaluations = number of oracle (a)/(b)/(c) assertions evaluated on such histories",
        samples=info["samples"] or ex.samples, depth=depth, alphabet=list(ALPHABET), prefix=list(PREFIX), per_level=[list(x) for x in ex.per_level],
        states_cut_at_bound=ex.cut_at_bound, exhaustive=True)
    ctx.assumptions += ["graceful restart: Aggregator.shutdown() and dispatcher.shutdown() run before the new Aggregator is created on the same database",
                        "messages reach the aggregator only while the engine is connected; after a disconnect the engine registers again before it connects",
                        "tag recording after the reconnect is only demanded after the engine resent uod_info and when the update is more than the "
                        "data-log interval newer than the newest recorded row of the run (recording is throttled, C29)"]


def replay(data):
    s = H.build(tuple(data["history"]), tuple(data.get("prefix", PREFIX)))
    out = []
    for i, rec in enumerate(s.obs):
        print(H.fmt_step(rec))
        for v in check_step(s.obs, i):
            print("     !!", v)
            out.append(v)
    return out
