"""C14 — Injected code runs once in the current scope, even across edits.

Stateless exhaustive exploration on the real Engine: every snippet injected at every tick of every program of a small
corpus, optionally while paused / on hold, optionally followed by a live edit at every later tick.
"""
from __future__ import annotations

import collections

from mc import pgen
from mc.core import HarnessError
from mc.engine_harness import Run, apply_request

ID = "C14"
LEVEL = "model_checking"
META = dict(
    technique="stateless exhaustive exploration of (program, snippet, injection tick[, pause/hold][, edit tick]) on the real Engine",
    text="Every snippet of {Mark, Inst, Long: 3, Wait+Mark, Block{Mark; End block}} is injected at every tick of every program of "
         "the corpus, also while the run is paused or on hold, and optionally followed by an accepted append edit at every later "
         "tick.  The snippet's Mark must appear exactly once, its UOD command must be initialised, completed and finalized exactly "
         "once, nothing of it may happen in a tick that begins and ends Paused/Holding, its first effect must come within five "
         "ticks in which the interpreter ran, the started/executed line sets must be unchanged by the call and the final executed "
         "set must equal that of the injection-free run.",
    note="Programs <= 2 statements; one injection per execution; horizon 36 ticks; X true from tick 5.",
)

HORIZON = 36
X_FROM = 5
SNIPPETS = {
    "mark": "Mark: inj",
    "inst": "Inst",
    "long": "Long: 3",
    "wait-mark": "Wait: 0.2s\nMark: inj",
    "block": "Block: ib\n    Mark: inj\n    End block",
}
KINDS = ["M", "W", "L6", "K", "Wa", "EB", "b"]


def drive(lines, schedule):
    """schedule: list of (tick, request) applied before that tick."""
    run = Run(lines, observe=("mstate", "tags"))
    by = collections.defaultdict(list)
    for t, req in schedule:
        by[t].append(req)
    recs = []
    for t in range(HORIZON):
        if t == X_FROM:
            run.set_input("X", 2.0)
        for req in by.get(t, ()):
            recs.append(apply_request(run, req))
        run.tick()
    return run, recs


def snippet_effects(run: Run, t_inj, snip):
    """ticks at which something of the snippet happened: its mark appeared / its command produced an event"""
    ticks = []
    seen = 0
    for ob in run.obs:
        new = run.marks()[seen:ob["nmarks"]]
        seen = ob["nmarks"]
        if "inj" in new:
            ticks.append(ob["n"])
    return ticks


def check_case(lines, snip, t, pre, edit_t, base_exec):
    """pre in (None, 'Pause', 'Hold'): requested 2 ticks before the injection and released 4 ticks after it."""
    code = SNIPPETS[snip]
    sched = []
    if pre:
        sched.append((max(1, t - 2), ("user", pre)))
        sched.append((t + 4, ("user", "Un" + pre.lower())))
    sched.append((t, ("inject", code)))
    new_lines = None
    if edit_t is not None:
        new_lines = list(lines) + [("NE", "Mark: appended")]
        sched.append((edit_t, ("edit", new_lines)))
    sched.sort(key=lambda x: x[0])
    run, recs = drive(lines, sched)
    probs = []
    inj = next(r for r in recs if r.get("kind") == "inject")
    tag = f"{snip}{':while-' + pre if pre else ''}{':then-edit' if edit_t is not None else ''}"
    for ob in run.obs:
        if "tick_exception" in ob:
            probs.append(("C14:tick-raised", ob["tick_exception"]))
    if not inj["accepted"]:
        probs.append((f"C14:injection-rejected:{snip}", f"inject at tick {t} raised {inj['error']}"))
        run.cleanup()
        return probs
    b, a = inj["mstate_before"], inj["mstate_after"]
    if (b["started"], b["executed"], b["failed"]) != (a["started"], a["executed"], a["failed"]):
        probs.append((f"C14:injection-changed-method-state:{snip}", f"method state {b} -> {a} at the inject call"))
    if run.error_events:
        probs.append((f"C14:method-error-after-injection:{tag}", f"{run.error_events[0]}"))
        run.cleanup()
        return probs
    has_mark = "inj" in code
    n = run.marks().count("inj")
    edited_ok = edit_t is None or any(r.get("kind") == "edit" and r["accepted"] for r in recs)
    # a method block holds the block lock when the snippet wants it (now, or it got there first and never ends)
    in_block = any(ob["tags"]["Block"] not in (None, "", "ib") for ob in run.obs[max(0, t - 1):])
    stalled_block = snip == "block" and n == 0 and in_block
    if stalled_block:
        probs.append(("C14:injected-block-stalls:inside-active-block",
                      f"snippet {code!r} injected at tick {t} while a method block holds the block lock: the injected "
                      f"block never gets the block lock and nothing of the snippet runs (marks {run.marks()})"))
    elif has_mark and n != 1:
        probs.append((f"C14:injected-mark-{'lost' if n == 0 else 'repeated'}:{tag}", f"snippet {code!r} injected at tick {t}: its Mark appeared {n} times (marks {run.marks()})"))
    cmdname = {"inst": "Inst", "long": "Long"}.get(snip)
    if cmdname:
        # the program's own commands are L6 (Long: 6); the injected Long runs 3 iterations, Inst 1
        own = [e for e in run.cmd_events if e[1] == cmdname]
        by_iid = collections.defaultdict(list)
        for e in own:
            by_iid[e[3]].append(e[2])
        inj_iids = [i for i, ph in by_iid.items() if any(e[0] >= t for e in own if e[3] == i and e[2] == "init")]
        want_execs = 3 if snip == "long" else 1
        ok = [i for i in inj_iids if by_iid[i].count("init") == 1 and by_iid[i].count("finalize") == 1 and by_iid[i].count("exec") == want_execs]
        if cmdname == "Long" and any(c.strip().startswith("Long") for _, c in lines):
            pass      # the same-name program command may legitimately be cancelled by / cancel the injected one (C11)
        elif not ok:
            probs.append((f"C14:injected-command-not-completed:{tag}", f"injected {cmdname} at tick {t}: life cycles {dict(by_iid)}"))
    # nothing of the snippet in a tick that begins and ends paused / holding; first effect within 5 interpreter ticks
    eff = snippet_effects(run, t, snip)
    for k in eff:
        ob = run.obs[k]
        if ob["pre_state"] in ("Paused", "Holding") and ob["state"] in ("Paused", "Holding"):
            probs.append((f"C14:snippet-ran-while-{ob['state']}:{snip}", f"injected Mark appeared in tick {k} which was {ob['pre_state']}->{ob['state']}"))
    if has_mark and snip in ("mark", "block") and edited_ok and edit_t is None and not stalled_block:
        running = [ob["n"] for ob in run.obs[t:] if ob["pre_state"] == "Running" and ob["state"] == "Running"
                   # an injected Block waits while a method block holds the block lock (blocks exclude each other, C05)
                   and (snip != "block" or ob["tags"]["Block"] in (None, "", "ib"))]
        if len(running) > 6 and (not eff or eff[0] > running[6]):
            probs.append((f"C14:snippet-late:{tag}", f"injected at tick {t}; first effect {eff[:1]} later than the 6th running tick {running[6]}"))
    # the method itself is unaffected
    final_exec = [x for x in run.method_state()["executed"] if x != "NE"]
    same_name = cmdname is not None and any(c.strip().startswith(cmdname) for _, c in lines)
    if edit_t is None and pre is None and not same_name and not stalled_block and final_exec != base_exec:
        by_id = dict(lines)
        extra = [x for x in final_exec if x not in base_exec]
        missing = [x for x in base_exec if x not in final_exec]
        # the injected 'End block' ended a block of the method (which has no End block of its own / not yet reached)
        ctx_ = (":method-block-ended-by-injected-End-block"
                if snip == "block" and extra and not missing and all(by_id.get(x, "").strip().startswith("Block") for x in extra) else "")
        probs.append((f"C14:executed-lines-differ:{tag}{ctx_}", f"executed {final_exec} vs injection-free run {base_exec}"))
    run.cleanup()
    return probs


def check_double(lines, first, t1, dt, pause):
    """Two injections whose lives overlap: `first` (multi-tick) at t1, then 'Mark: inj2' at t1+dt; optionally a user Pause one
    tick after the first injection, released 7 ticks later.  Each snippet must run exactly once."""
    sched = [(t1, ("inject", SNIPPETS[first])), (t1 + dt, ("inject", "Mark: inj2"))]
    if pause:
        sched += [(t1 + 1, ("user", "Pause")), (t1 + 8, ("user", "Unpause"))]
    sched.sort(key=lambda x: x[0])
    run, recs = drive(lines, sched)
    probs = []
    tag = f"{first}+mark:dt={'same-tick' if dt == 0 else 'later'}{':across-Pause' if pause else ''}"
    for ob in run.obs:
        if "tick_exception" in ob:
            probs.append(("C14:tick-raised", ob["tick_exception"]))
    if any(r.get("kind") == "inject" and not r["accepted"] for r in recs):
        probs.append((f"C14:injection-rejected:{tag}", f"{[r.get('error') for r in recs]}"))
    elif run.error_events:
        probs.append((f"C14:method-error-after-injection:{tag}", f"{run.error_events[0]}"))
    else:
        n2 = run.marks().count("inj2")
        if n2 != 1:
            probs.append((f"C14:second-injection-{'lost' if n2 == 0 else 'repeated'}:{tag}",
                          f"'{SNIPPETS[first]}' injected at tick {t1}, 'Mark: inj2' at tick {t1 + dt}{' with a Pause in between' if pause else ''}: "
                          f"inj2 appeared {n2} times (marks {run.marks()})"))
        if "inj" in SNIPPETS[first] and run.marks().count("inj") != 1:
            probs.append((f"C14:first-injection-mark-count:{tag}", f"marks {run.marks()}"))
        if first == "long" and not any(c.strip().startswith("Long") for _, c in lines):
            by_iid = collections.defaultdict(list)
            for e in run.cmd_events:
                if e[1] == "Long":
                    by_iid[e[3]].append(e[2])
            if [ph for ph in by_iid.values()] != [["init", "exec", "exec", "exec", "finalize"]]:
                probs.append((f"C14:injected-command-not-completed:{tag}", f"life cycles {dict(by_iid)}"))
    run.cleanup()
    return probs


def check_same_twice(lines, snip, t1, dt):
    """The same snippet text injected twice (t1 and t1+dt): each injection runs once, so its Mark appears twice."""
    sched = [(t1, ("inject", SNIPPETS[snip])), (t1 + dt, ("inject", SNIPPETS[snip]))]
    run, recs = drive(lines, sched)
    probs = []
    tag = f"{snip}-twice"
    for ob in run.obs:
        if "tick_exception" in ob:
            probs.append(("C14:tick-raised", ob["tick_exception"]))
    if any(r.get("kind") == "inject" and not r["accepted"] for r in recs):
        probs.append((f"C14:injection-rejected:{tag}", f"{[r.get('error') for r in recs]}"))
    elif run.error_events:
        probs.append((f"C14:method-error-after-injection:{tag}", f"{run.error_events[0]}"))
    else:
        n = run.marks().count("inj")
        if n != 2:
            probs.append((f"C14:same-snippet-injected-twice-ran-{n}-times:{snip}",
                          f"'{SNIPPETS[snip]}' injected at ticks {t1} and {t1 + dt}: its Mark appeared {n} times (marks {run.marks()})"))
    run.cleanup()
    return probs


def explore_program(item):
    forest, with_edit = item
    lines = pgen.to_lines(forest)
    base, _ = drive(lines, ())
    out = []
    stats = collections.Counter()
    if base.error_events:
        base.cleanup()
        return out, dict(stats)
    base_exec = base.method_state()["executed"]
    quiet = next((ob["n"] for ob in base.obs if ob["nmarks"] == base.obs[-1]["nmarks"] and ob["mstate"] == base.obs[-1]["mstate"]), HORIZON)
    last = min(quiet + 2, HORIZON - 14)
    base.cleanup()
    for t in range(1, last + 1):
        for snip in SNIPPETS:
            for pre in (None, "Pause", "Hold"):
                if pre and t < 3:
                    continue
                cases = [None]
                if with_edit and pre is None and snip in ("mark", "long", "wait-mark"):
                    cases += list(range(t + 1, t + 5))
                for edit_t in cases:
                    stats["exec"] += 1
                    if pre or edit_t is not None:
                        stats["nontrivial"] += 1
                    for sig, what in check_case(lines, snip, t, pre, edit_t, base_exec):
                        out.append((sig, what, {"lines": [c for _, c in lines], "snippet": snip, "tick": t, "pre": pre, "edit_tick": edit_t}))
    if len(lines) <= 2:
        for first in ("long", "wait-mark"):
            for t1 in range(1, min(last, 6) + 1):
                for dt in range(0, 6):
                    for pause in (False, True):
                        stats["exec"] += 1
                        stats["double"] += 1
                        stats["nontrivial"] += 1
                        for sig, what in check_double(lines, first, t1, dt, pause):
                            out.append((sig, what, {"lines": [c for _, c in lines], "double": [first, t1, dt, pause]}))
    if len(lines) <= 2:
        for snip in ("mark", "wait-mark"):
            for t1 in range(1, min(last, 5) + 1):
                for dt in (1, 3, 6):
                    stats["exec"] += 1
                    stats["double"] += 1
                    stats["nontrivial"] += 1
                    for sig, what in check_same_twice(lines, snip, t1, dt):
                        out.append((sig, what, {"lines": [c for _, c in lines], "same_twice": [snip, t1, dt]}))
    seen, uniq = set(), []
    for s, w, c in out:
        if s not in seen:
            seen.add(s)
            uniq.append((s, w, c))
    return uniq, dict(stats)


def corpus(ctx):
    items = []
    n = 2 if ctx.quick else 3
    for f in pgen.programs(KINDS, n, depth=1):
        if not pgen.no_empty_openers(f):
            continue
        if any(k == "EB" for k, ch in f):
            continue
        size = len(pgen.kinds_flat(f))
        items.append((f, size == 1 or not ctx.quick))
    return items


def run(ctx):
    items = corpus(ctx)
    ctx.prove_deterministic(lambda it: explore_program(it)[0], [items[0], items[len(items) // 2]], k=2)
    results = ctx.pmap(explore_program, items, chunk=1)
    tot = collections.Counter()
    for it, (viol, st) in zip(items, results):
        tot.update(st)
        for sig, what, rep in viol:
            ctx.violation(sig, what, rep)
    if tot["exec"] < 500:
        raise HarnessError("vacuous")
    ctx.coverage.update(
        states=tot["exec"], transitions=tot["exec"] * HORIZON, traces_validated_against_impl=tot["exec"],
        evaluations=tot["exec"], distinct_nontrivial=tot["nontrivial"], programs=len(items), double_injections=tot["double"], snippets=list(SNIPPETS.values()),
        rule="one execution per (program, snippet, injection tick, none|Pause|Hold around the injection, none|edit tick); "
             "non-trivial = injected while paused/on hold or followed by a live edit; plus, for programs of <= 2 lines, two "
             "overlapping injections (multi-tick snippet, then a Mark 0..5 ticks later, with and without a Pause in between) and the "
             "same snippet text injected twice",
        samples=[pgen.render(items[0][0]), pgen.render(items[len(items) // 2][0]), pgen.render(items[-1][0])],
        exhaustive=True, horizon=HORIZON)


def replay(data):
    lines = [(f"L{i}", c) for i, c in enumerate(data["lines"])]
    if "same_twice" in data:
        snip, t1, dt = data["same_twice"]
        print("program:", data["lines"], "snippet:", SNIPPETS[snip], "injected at", t1, "and", t1 + dt)
        return check_same_twice(lines, snip, t1, dt)
    if "double" in data:
        first, t1, dt, pause = data["double"]
        print("program:", data["lines"], "first injection:", SNIPPETS[first], "at", t1, "second 'Mark: inj2' at", t1 + dt, "pause:", pause)
        return check_double(lines, first, t1, dt, pause)
    base, _ = drive(lines, ())
    probs = check_case(lines, data["snippet"], data["tick"], data["pre"], data["edit_tick"], base.method_state()["executed"])
    print("program:", data["lines"], "snippet:", SNIPPETS[data["snippet"]], "tick:", data["tick"], "pre:", data["pre"], "edit:", data["edit_tick"])
    sched = [(data["tick"], ("inject", SNIPPETS[data["snippet"]]))]
    if data["pre"]:
        sched += [(max(1, data["tick"] - 2), ("user", data["pre"])), (data["tick"] + 4, ("user", "Un" + data["pre"].lower()))]
    if data["edit_tick"] is not None:
        sched.append((data["edit_tick"], ("edit", list(lines) + [("NE", "Mark: appended")])))
    run, recs = drive(lines, sorted(sched, key=lambda x: x[0]))
    for ob in run.obs:
        print(" ", ob["n"], ob["pre_state"], "->", ob["state"], "marks", run.marks()[:ob["nmarks"]], ob["cmd"], ob["mstate"]["injected"])
    return probs
