"""C11 — Command exclusivity and init/finalize pairing.

Bounded-exhaustive enumeration of programs issuing same-name and overlapping UOD commands from the main flow, Watch
bodies (condition becoming true at every tick of a range) and injected snippets, with one (thorough: two) cancel
request / user Stop at every tick, on the real Engine with the instrumented UOD.  The oracle is a life-cycle automaton
per command instance over the recorded init/exec/finalize events, a per-tick exclusivity check and an
"older one is cancelled when a newer one is requested" rule over the observed requests.
"""
from __future__ import annotations

import collections

from mc import pgen
from mc.core import HarnessError
from mc.engine_harness import Run, apply_request

ID = "C11"
LEVEL = "model_checking"
META = dict(
    technique="bounded-exhaustive enumeration of programs x condition tick x (inject | cancel | Stop at every tick) on the real "
              "Engine with a per-instance life-cycle automaton and a per-tick exclusivity monitor over the instrumented UOD events",
    text="Every program of the grammar up to the size bound is run with the Watch condition becoming true at every tick of a "
         "range (so that main-flow and Watch-body requests for the same / overlapping commands arrive in the same tick, in "
         "adjacent ticks and far apart), alone and with one deviation at every tick: an injected 'Long: 3' / 'OvB', a cancel of "
         "every run-log item offered as cancellable, or a user Stop.  Over the recorded events: no tick has exec events of two "
         "instances of one command name or of one overlap list; when a request arrives every older live instance of its group is "
         "finalized by the next tick and never executes later; every instance has exactly one init before its first exec, "
         "exactly one finalize after its last exec and nothing afterwards (complete, Boom failure, user cancel, replacement, "
         "Stop); uod.command_instances is empty when System State becomes Stopped and at the end of the run.",
    note="Small scope: <= 3 statements (4 thorough over a sub-grammar), nesting <= 2, deviations <= 1 (thorough 2 over a "
         "reduced corpus); requests are observed at Engine.schedule_execution (wrapped on the instance, observation only); "
         "cancel requests are only sent for items the run log offers as cancellable (others are rejected, C12).",
)

KINDS = ["L", "L2", "A", "B", "Boom", "I", "W1", "M", "WaI"]
KINDS3 = ["L", "L2", "A", "B", "Boom", "WaI"]
KINDS4 = ["L", "A", "B", "WaI"]
HORIZON = 28
T_DEV = 17                     # deviations before ticks 1..T_DEV
SETTLE = 6                     # an instance started in the last SETTLE ticks may still be running at the horizon
X_ALL = tuple(range(0, 10))    # ticks before which In1 becomes 2.0
X_DEV = (0, 5)
GROUPS = {"Long": "Long", "OvA": "OvA,OvB", "OvB": "OvA,OvB", "Boom": "Boom", "Inst": "Inst"}
SNIPPETS = ("Long: 3", "OvB")


# OvB is declared in two overlap lists ([OvA, OvB] and [OvB, OvC]).  The oracle works with groups (a partition), so programs
# use either OvA or OvC next to OvB, never both; in programs with OvC the group of OvB is {OvB, OvC}.
GROUPS_WITH_OVC = {"Long": "Long", "OvB": "OvB,OvC", "OvC": "OvB,OvC", "OvA": "OvA", "Boom": "Boom", "Inst": "Inst"}
_active_groups = GROUPS


def use_groups_for(lines):
    global _active_groups
    _active_groups = GROUPS_WITH_OVC if any(str(l).strip().startswith("OvC") for l in lines) else GROUPS


def group_of(name):
    return _active_groups.get(name, name)


def run_one(lines, x, schedule, keep_trace=False):
    """-> (problems, info, trace)."""
    use_groups_for(lines)
    run = Run("\n".join(lines), observe=())
    reqlog = []          # (tick, name, instance id, number of command events so far)
    orig_schedule = run.engine.schedule_execution

    def schedule_execution(name, arguments="", instance_id=None):
        if run.uod.has_command_name(name):
            reqlog.append((run.tickno, name, instance_id, len(run.cmd_events)))
        return orig_schedule(name, arguments, instance_id)
    run.engine.schedule_execution = schedule_execution

    by_tick = collections.defaultdict(list)
    for t, req in schedule:
        by_tick[t].append(tuple(req))
    trace = []
    devs = []            # (tick, kind, accepted, target item, instances alive before)
    prev_state = "Stopped"
    probs = []
    left_after_stop = []
    cancellable = {}     # tick -> indexes of run-log items offered as cancellable before that tick
    for t in range(HORIZON):
        if t == x:
            run.set_input("In1", 2.0)
        alive_before = sorted(run.uod.command_instances.keys())
        for req in by_tick.get(t, ()):
            rec = apply_request(run, req)
            devs.append({"tick": t, "req": list(req), "accepted": rec.get("accepted"), "error": rec.get("error"),
                         "item": (rec.get("item") or {}).get("name"), "item_id": (rec.get("item") or {}).get("id"),
                         "alive": alive_before})
        if not schedule and 1 <= t <= T_DEV:
            try:
                cancellable[t] = [i for i, it in enumerate(run.runlog_items()) if it["cancellable"]]
            except Exception:
                cancellable[t] = []
        ob = run.tick()
        if "tick_exception" in ob:
            probs.append(("C11:tick-raised", f"Engine.tick raised {ob['tick_exception']} at tick {t}"))
        if ob["state"] == "Stopped" and prev_state != "Stopped" and ob["instances"]:
            left_after_stop.append((t, ob["instances"]))
        prev_state = ob["state"]
        if keep_trace:
            try:
                rl = [(i["name"], i["state"], i["id"][-4:], "C" if i["cancellable"] else "") for i in run.runlog_items()]
            except Exception as ex:
                rl = f"ERR:{type(ex).__name__}"
            trace.append({"n": t, "state": ob["state"], "cmd": [(e[1], e[2], e[3][-4:], e[4]) for e in ob["cmd"]],
                          "instances": ob["instances"], "marks": run.marks(), "runlog": rl,
                          "req": [d for d in devs if d["tick"] == t]})
    events = list(run.cmd_events)
    final_instances = sorted(run.uod.command_instances.keys())
    errors = list(run.error_events)
    run.cleanup()
    p2, info = judge(events, reqlog, devs, final_instances, errors, left_after_stop)
    info["cancellable"] = cancellable
    return probs + p2, info, trace


def judge(events, reqlog, devs, final_instances, errors, left_after_stop=()):
    probs = []
    sym = []             # symptoms: (signature, what, instance ids involved, group)
    info = collections.Counter()
    by_iid = collections.defaultdict(list)       # iid -> [(event index, tick, phase)]
    name_of = {}
    for idx, (tk, name, phase, iid, it) in enumerate(events):
        by_iid[iid].append((idx, tk, phase))
        name_of[iid] = name
    stop_ticks = [d["tick"] for d in devs if d["req"][0] == "user" and d["accepted"]]
    cancel_ids = {d["item_id"]: d["tick"] for d in devs if d["req"][0] == "cancel" and d["accepted"]}

    def first(iid, phase):
        return next(((i, tk) for i, tk, p in by_iid[iid] if p == phase), None)

    def last(iid, phase):
        r = [(i, tk) for i, tk, p in by_iid[iid] if p == phase]
        return r[-1] if r else None

    # how an instance's life was disturbed (discriminator for signatures, measured classes for coverage)
    disturbed = collections.defaultdict(set)
    for (q, name, rid, nev) in reqlog:
        g = group_of(name)
        same_tick = [r for r in reqlog if r[0] == q and r[2] != rid and group_of(r[1]) == g]
        if same_tick:
            info["class:requests-in-same-tick"] += 1
            disturbed[rid].add("same-tick-request")
        if rid in cancel_ids and cancel_ids[rid] <= q:
            info["void-requests"] += 1      # the user cancelled this instruction before its command was requested: no claim
            continue
        for iid, evs in by_iid.items():
            if iid == rid or group_of(name_of[iid]) != g:
                continue
            ini = first(iid, "init")
            fin = first(iid, "finalize")
            if ini is not None and ini[0] < nev and (fin is None or fin[0] >= nev):
                # iid was alive when the request for rid arrived
                dist = q - ini[1]
                info["class:request-while-older-alive:" + ("adjacent-tick" if dist <= 1 else "far-apart")] += 1
                disturbed[iid].add("replaced")
                info["alive-overlap"] += 1
                if fin is None or fin[1] > q + 1:
                    sym.append((f"C11:older-not-cancelled:{g}:{name_of[iid]}-then-{name}",
                                f"{name} ({(rid or '?')[-4:]}) was requested in tick {q} while {name_of[iid]} ({iid[-4:]}) was running, but the "
                                f"older one was not finalized by tick {q + 1}: {[(tk, p) for _, tk, p in evs]}", {iid, rid}, g))
                late = [(tk, p) for i, tk, p in evs if p == "exec" and tk > q]
                if late:
                    sym.append((f"C11:older-executes-after-newer-requested:{g}:{name_of[iid]}-then-{name}",
                                f"{name_of[iid]} ({iid[-4:]}) still executes {late} after {name} ({(rid or '?')[-4:]}) was requested in tick {q}",
                                {iid, rid}, g))
    for iid in by_iid:
        if iid in cancel_ids:
            disturbed[iid].add("user-cancel")
        ini, fin = first(iid, "init"), first(iid, "finalize")
        for st in stop_ticks:
            if ini is not None and ini[1] <= st + 1 and (fin is None or fin[1] >= st):
                disturbed[iid].add("stop")
    if errors:
        info["class:command-failed"] += 1
    for d in devs:
        if d["accepted"] and d["alive"] and d["req"][0] == "user":
            info["class:stop-hit-live-instance"] += 1
        if d["accepted"] and d["req"][0] == "cancel" and d["item_id"] in by_iid:
            ini, fin = first(d["item_id"], "init"), first(d["item_id"], "finalize")
            # a request before tick t is made after tick t-1: events it causes carry tick t-1
            if ini is not None and ini[1] < d["tick"] and (fin is None or fin[1] >= d["tick"] - 1):
                info["class:cancel-hit-live-instance"] += 1

    # per-tick exclusivity
    per_tick = collections.defaultdict(lambda: collections.defaultdict(list))
    for (tk, name, phase, iid, it) in events:
        if phase == "exec" and iid not in per_tick[tk][group_of(name)]:
            per_tick[tk][group_of(name)].append(iid)
    for tk in sorted(per_tick):
        for g, iids in per_tick[tk].items():
            if len(iids) > 1:
                arrivals = {r[2]: r[0] for r in reqlog}
                how = "requested-in-same-tick" if len({arrivals.get(i) for i in iids}) == 1 else "requested-in-different-ticks"
                names = "+".join(sorted({name_of[i] for i in iids}))
                sym.append((f"C11:two-instances-execute-in-one-tick:{g}:{names}:{how}",
                            f"tick {tk}: exec events of {[(name_of[i], i[-4:]) for i in iids]} (requests arrived in ticks "
                            f"{[arrivals.get(i) for i in iids]})", set(iids), g))

    # life-cycle automaton per instance
    last_tick = HORIZON - 1
    for iid, evs in by_iid.items():
        name = name_of[iid]
        why = "+".join(sorted(disturbed[iid])) or ("failed" if name == "Boom" else "undisturbed")
        st = "new"
        flagged = set()

        def flag(kind, text):
            if kind not in flagged:
                flagged.add(kind)
                sym.append((f"C11:{kind}:{name}:{why}", f"{name} ({iid[-4:]}) {text}: {[(tk, p) for _, tk, p in evs]}", {iid}, group_of(name)))
        for _, tk, p in evs:
            if st == "finalized":
                flag(f"{p}-after-finalize", f"has a {p} event in tick {tk} after it was finalized")
                if p == "init":
                    st = "inited"
                continue
            if p == "init":
                if st != "new":
                    flag("init-twice", f"is initialized again in tick {tk}")
                st = "inited"
            elif p == "exec":
                if st == "new":
                    flag("exec-before-init", f"executes in tick {tk} before init")
                st = "executing" if st != "new" else "new"
            elif p == "finalize":
                if st == "new":
                    flag("finalize-without-init", f"is finalized in tick {tk} without init")
                st = "finalized"
        if st != "finalized":
            ini = first(iid, "init")
            if ini is None or ini[1] <= last_tick - SETTLE:
                flag("never-finalized", f"is never finalized (observed until tick {last_tick})")
            else:
                info["still-running-at-horizon"] += 1
    late_init = [tk for (tk, name, phase, iid, it) in events if phase == "init" and tk > last_tick - SETTLE]
    if not late_init:
        for n in final_instances:
            sym.append((f"C11:instance-left-at-end:{n}",
                        f"uod.command_instances = {final_instances} at tick {last_tick}, no command was started in the last {SETTLE} ticks",
                        {i for i in by_iid if name_of[i] == n}, group_of(n)))
    for t, names in left_after_stop:
        for n in names:
            sym.append((f"C11:instance-left-after-stop:{n}", f"uod.command_instances = {names} in tick {t} in which System State became Stopped",
                        {i for i in by_iid if name_of[i] == n}, group_of(n)))
    # Root-cause diagnosis: collapse the symptoms of one cause into one signature built from the facts of the execution.
    # (a) an accepted cancel of a UOD item whose command had not started yet did not prevent the start (known, C15/C12):
    #     the node is cancelled, the command runs anyway and a later cancellation of it fails half-way.
    pre_cancelled = set()
    for d in devs:
        if d["req"][0] == "cancel" and d["accepted"] and d["item_id"] in by_iid:
            ini = first(d["item_id"], "init")
            if ini is not None and ini[1] >= d["tick"]:
                pre_cancelled.add(d["item_id"])
    # (b) two requests of one group arrive in the same tick and more than one command of the group is started in that tick
    both_started = {}
    arrivals = collections.defaultdict(list)
    for (q, name, rid, nev) in reqlog:
        arrivals[(q, group_of(name))].append((name, rid, nev))
    for (q, g), reqs in sorted(arrivals.items()):
        if len(reqs) < 2 or g in both_started:
            continue
        inits = [iid for (tk, name, phase, iid, it) in events if phase == "init" and tk == q and group_of(name) == g]
        if len(inits) < 2:
            continue
        rids = {r[1] for r in reqs}
        nev = min(r[2] for r in reqs)
        older = any(i not in rids and group_of(name_of[i]) == g and first(i, "init")[0] < nev
                    and (first(i, "finalize") is None or first(i, "finalize")[0] >= nev) for i in by_iid if first(i, "init"))
        kind = "same-name" if len({r[0] for r in reqs}) == 1 else "overlap"
        both_started[g] = (kind, "older-running" if older else "no-older", q, sorted((r[0], r[1][-4:]) for r in reqs))
    # of several requests of one group that arrive in the same tick the one requested last wins: it runs, the others do not
    # execute after that tick
    for (q, g), reqs in sorted(arrivals.items()):
        rids = [r[1] for r in reqs]
        if len(reqs) < 2 or len(set(rids)) < 2 or g in both_started or any(r in pre_cancelled or r in cancel_ids for r in rids) \
                or stop_ticks or errors:
            continue
        winner = rids[-1]
        w_exec = [tk for i, tk, p in by_iid.get(winner, []) if p == "exec"]
        losers_late = [(name_of.get(r, "?"), tk) for r in rids[:-1] if r != winner for i, tk, p in by_iid.get(r, []) if p == "exec" and tk > q]
        if not w_exec and q < HORIZON - SETTLE:
            kind = "same-name" if len({r[0] for r in reqs}) == 1 else "overlap"
            probs.append((f"C11:same-tick-requests:last-request-did-not-run:{kind}",
                          f"requests {[(r[0], r[1][-4:]) for r in reqs]} arrived in tick {q} in this order; the last one never executed "
                          f"(events of the others: {[(name_of.get(r, '?'), [(tk, p) for _, tk, p in by_iid.get(r, [])]) for r in rids[:-1]]})"))
        elif losers_late:
            probs.append(("C11:same-tick-requests:earlier-request-kept-running",
                          f"requests {[(r[0], r[1][-4:]) for r in reqs]} arrived in tick {q}; an earlier one still executes later: {losers_late}"))
    for g, (kind, older, q, pair) in sorted(both_started.items()):
        if not any(s_[2] & pre_cancelled for s_ in sym if s_[3] == g):
            probs.append((f"C11:requests-in-same-tick-both-started:{kind}:{older}",
                          f"requests {pair} arrived in tick {q} and more than one command of the group was started in that tick (the request "
                          f"queued last starts first and is then cancelled by a request queued before it); symptoms: {sorted({s_[0] for s_ in sym if s_[3] == g})}"))
    for sig, what, involved, g in sym:
        hit = sorted(involved & pre_cancelled)
        if hit:
            probs.append((f"C11:cancel-before-start-ignored:{name_of[hit[0]]}",
                          f"{name_of[hit[0]]} ({hit[0][-4:]}) was cancelled by the user before it had started, started anyway, and then: {what} [{sig}]"))
        elif g in both_started:
            continue
        else:
            probs.append((sig, what))
    info["instances"] = len(by_iid)
    info["nontrivial"] = int(bool(info["alive-overlap"] or info["class:requests-in-same-tick"] or info["class:stop-hit-live-instance"]
                                  or info["class:cancel-hit-live-instance"]))
    return probs, info


def explore_program(item):
    lines, xs_base, xs_dev, xs_dev2 = item
    out = []
    cnt = collections.Counter()

    def one(x, sched):
        probs, info, _ = run_one(lines, x, sched)
        cnt["exec"] += 1
        cnt["nontrivial"] += info["nontrivial"]
        cnt["instances"] += info["instances"]
        for k, v in info.items():
            if isinstance(k, str) and k.startswith("class:"):
                cnt[k] += 1 if v else 0
        for sig, what in probs:
            out.append((sig, what, {"lines": lines, "x": x, "schedule": [[t, list(r)] for t, r in sched]}))
        return info

    for x in xs_base:
        base = one(x, ())
        if x not in xs_dev:
            continue
        devs = []
        for t in range(1, T_DEV + 1):
            for code in SNIPPETS:
                devs.append((t, ("inject", code)))
            devs.append((t, ("user", "Stop")))
            for k in base["cancellable"].get(t, ()):
                devs.append((t, ("cancel", k)))
        for d in devs:
            one(x, (d,))
        if x in xs_dev2:
            n_items = max([max(v) + 1 for v in base["cancellable"].values() if v] + [0])
            for i, d1 in enumerate(devs):
                if d1[1][0] == "user":
                    continue                       # nothing happens after a Stop
                for t2 in range(d1[0], T_DEV + 1):
                    seconds = [(t2, ("inject", c)) for c in SNIPPETS] + [(t2, ("user", "Stop"))]
                    seconds += [(t2, ("cancel", k)) for k in range(n_items + 1)]
                    for d2 in seconds:
                        if t2 == d1[0] and d2 == d1:
                            continue
                        one(x, (d1, d2))
    seen = set()
    uniq = []
    for sig, what, rep in out:
        if sig not in seen:
            seen.add(sig)
            uniq.append((sig, what, rep))
    return uniq, dict(cnt)


UOD_KINDS = ("L", "L2", "A", "B", "C", "Boom", "I", "FB")
KINDS_FB = ["FB", "L", "A", "M", "W1"]      # a command whose finalizer raises
KINDS_OVC = ["B", "C", "WaI", "M"]      # OvB sits in a second overlap list with OvC


def corpus(ctx):
    """Items (lines, In1 ticks without deviation, In1 ticks with one deviation, In1 ticks with two deviations)."""
    items = []

    def add(kinds, n, xs_dev, xs_dev2=(), only=None, dev_if=None):
        for f in filter(pgen.no_empty_openers, pgen.forests(kinds, n, 2)):
            flat = pgen.kinds_flat(f)
            if kinds is KINDS_OVC and not ("B" in flat and "C" in flat):
                continue
            if not any(k in UOD_KINDS for k in flat) or (only is not None and f not in only):
                continue
            watch = "WaI" in flat
            pick = lambda xs: tuple(x for x in xs if watch or x == 0)      # noqa: E731
            dev = dev_if is None or f in dev_if
            items.append((pgen.render(f), pick(X_ALL), pick(xs_dev) if dev else (), pick(xs_dev2) if dev else ()))

    if ctx.quick:
        add(KINDS, 1, X_DEV)
        add(KINDS, 2, X_DEV)
        add(KINDS, 3, X_DEV, dev_if=set(pgen.forests(KINDS3, 3, 2)))
        add(KINDS_OVC, 2, X_DEV)
        add(KINDS_OVC, 3, X_DEV)
        for n in (1, 2, 3):
            add(KINDS_FB, n, X_DEV if n < 3 else (), only={f for f in pgen.forests(KINDS_FB, n, 0) if "FB" in pgen.kinds_flat(f)})
        bounds = (f"<=3 statements over {KINDS}, In1 rising before every tick of {X_ALL} for programs with a Watch; one deviation at "
                  f"every tick 1..{T_DEV} for <=2 statements and for 3 statements over {KINDS3}, with In1 rising before tick {X_DEV}")
    else:
        small = set(pgen.forests(KINDS4, 1, 2)) | set(pgen.forests(KINDS4, 2, 2))
        for n in (1, 2):
            add(KINDS, n, X_ALL, X_DEV, only=small)
            add(KINDS, n, X_ALL, only=set(pgen.forests(KINDS, n, 2)) - small)
        add(KINDS, 3, (0, 3, 5, 7))
        add(KINDS4, 4, X_DEV)
        for n in (2, 3, 4):
            add(KINDS_OVC, n, X_ALL if n < 4 else X_DEV)
        for n in (1, 2, 3):
            add(KINDS_FB, n, X_DEV, only={f for f in pgen.forests(KINDS_FB, n, 0) if "FB" in pgen.kinds_flat(f)})
        bounds = (f"<=3 statements over {KINDS} and 4 statements over {KINDS4}, In1 rising before every tick of {X_ALL} for programs "
                  f"with a Watch; one deviation at every tick 1..{T_DEV} (<=2 statements: every In1 tick; 3: ticks 0,3,5,7; 4: {X_DEV}); "
                  f"two deviations for <=2 statements over {KINDS4} (In1 rising before tick {X_DEV})")
    return items, bounds + f"; programs with FinBoom (finalizer raises) over {KINDS_FB} up to 3 statements; programs with OvB and OvC (second overlap list) over {KINDS_OVC} up to 3 (thorough 4) statements; openers with empty body excluded; programs without any UOD command excluded"


CLASSES = ["class:requests-in-same-tick", "class:request-while-older-alive:adjacent-tick", "class:request-while-older-alive:far-apart",
           "class:command-failed", "class:stop-hit-live-instance", "class:cancel-hit-live-instance"]


def run(ctx):
    items, bounds = corpus(ctx)
    ctx.prove_deterministic(explore_program, [items[2], items[len(items) // 3]], k=2)
    results = ctx.pmap(explore_program, items, chunk=1)
    tot = collections.Counter()
    for it, (viol, cnt) in zip(items, results):
        tot.update(cnt)
        for sig, what, rep in viol:
            ctx.violation(sig, what, rep)
    missing = [c for c in CLASSES if tot[c] == 0]
    if missing:
        raise HarnessError(f"vacuous: classes never reached: {missing}")
    ctx.coverage.update(
        states=tot["exec"] * HORIZON, transitions=tot["exec"] * HORIZON, traces_validated_against_impl=tot["exec"],
        evaluations=tot["exec"], distinct_nontrivial=tot["nontrivial"], programs=len(items), command_instances_checked=tot["instances"],
        executions_per_class={c.split(":", 1)[1]: tot[c] for c in CLASSES},
        rule="one execution = program x In1-rise tick x (no deviation | inject 'Long: 3'/'OvB' | cancel of a cancellable run-log item | "
             "user Stop before a given tick); states = ticks observed; non-trivial = two same-name/overlapping requests alive in "
             "overlapping tick ranges (or arriving in the same tick), or an accepted cancel / Stop hit a live instance",
        samples=[items[1][0], items[len(items) // 2][0], items[-1][0]], exhaustive=True, bounds=bounds, horizon=HORIZON)
    ctx.assumptions += ["requests observed at Engine.schedule_execution (instance attribute wrapper, observation only)",
                        f"an instance started in the last {SETTLE} ticks of the horizon may still be running and is not judged for finalize",
                        "cancel requests only for items offered as cancellable in the request-free run at that tick (others are rejected: C12)"]


def replay(data):
    sched = tuple((t, tuple(r)) for t, r in data["schedule"])
    probs, info, trace = run_one(data["lines"], data["x"], sched, keep_trace=True)
    print("program:", data["lines"], f" In1 = 2.0 from tick {data['x']}  schedule:", sched)
    for rec in trace:
        print(rec["n"], rec["state"], "cmd", rec["cmd"], "inst", rec["instances"], "marks", rec["marks"], "runlog", rec["runlog"],
              ("req " + str([(d["req"], d["accepted"], d["error"], d["item"]) for d in rec["req"]])) if rec["req"] else "")
    seen, out = set(), []
    for sig, what in probs:
        if sig not in seen:
            seen.add(sig)
            out.append((sig, what))
    return out
