"""C21 — Unit-aware comparisons are exact, consistent and symmetric.

Bounded exhaustive enumeration over the real ``openpectus.lang.exec.units``:

* every ordered pair of supported units (``get_supported_units()``, incl. ``None``): ``are_comparable`` in both orders and
  whether ``compare_values`` accepts the pair in both orders (symmetry law);
* for every ordered pair the implementation accepts: value pairs from D x D, from {(a, exact image of a' in the other
  unit)} and {(exact image of b' in the first unit, b)} for all a, a', b, b' in D (the diagonal a = a' gives physically
  equal operands, the off-diagonal pairs give operands that differ by as little as 4e-17 relative), all seven operators.

Values are passed as decimal strings, exactly as ``pinterpreter._evaluate_condition`` does (``str(tag.get_value())`` and
the literal from the method text).

Oracle: ``fractions.Fraction`` arithmetic with the hand-written factor/offset table ``REF`` below (physical definitions,
not read from pint).  Laws checked on the implementation's own answers, independent of the table: trichotomy,
``!=`` == not ``=``, ``<=`` == ``<`` or ``=``, ``>=`` == ``>`` or ``=``.  Agreement of each operator with the exact
answer is asserted only for unit pairs the table places in one quantity; pairs whose relation is not physically
unambiguous (``%`` against ``vol%``/``wt%``/``mol%``) get the law checks only.
"""
from __future__ import annotations

import logging
from fractions import Fraction as F

from mc.core import HarnessError

ID = "C21"
LEVEL = "exploration"
META = dict(
    technique="exhaustive enumeration of unit pairs x decimal value pairs against an exact Fraction reference",
    text="Every ordered pair of supported units is combined with every value pair from a fixed decimal set, with the exact "
         "images of those values in the other unit, and with all seven operators; each answer of the real compare_values is "
         "compared with exact rational arithmetic and with the operator-consistency laws. The space is finite and is "
         "completed, which is what the property's quantifier asks for within the value set.",
    note="Reference factor/offset table written by hand from physical definitions; '%' against 'vol%'/'wt%'/'mol%' has no "
         "unambiguous physical relation and gets the law checks only. Values are decimal strings as passed by pinterpreter.",
)

OPS = ("<", "<=", ">", ">=", "=", "==", "!=")
# D of DESIGN.md plus one value that differs from 0.3 only beyond float precision (float("0.3") == float(D_EXTRA))
D_EXTRA = "0.300000000000000000001"
# ... plus other spellings of the same numbers (a float tag value prints as '1.0', a method literal may read '+1', '1e0', '-0')
SPELLINGS = ("1.0", "+1", "1e0", "-0")
# differs from 1 only beyond the 28 significant digits of the default decimal context
D_BEYOND_CONTEXT = "1.000000000000000000000000000001"
D_THOROUGH = ("0", "1", "-1", "0.1", "0.3", "0.30000000000000004", D_EXTRA, "100", "12345.678", "1e-9", "1e12", "1E2", "100.0") + SPELLINGS
D_QUICK = ("0", "1", "0.3", "0.30000000000000004", D_EXTRA) + SPELLINGS

# ---------------------------------------------------------------------------------------------------------------------
# exact reference: quantity -> unit -> (factor, offset); value in the quantity's reference unit = v * factor + offset
_T0 = F(27315, 100)
REF: dict[str, dict[str, tuple[F, F]]] = {
    "time [s]": {"s": (F(1), F(0)), "min": (F(60), F(0)), "h": (F(3600), F(0)), "ms": (F(1, 1000), F(0))},
    "length [m]": {"m": (F(1), F(0)), "cm": (F(1, 100), F(0))},
    "area [m2]": {"m**2": (F(1), F(0)), "m2": (F(1), F(0)), "dm2": (F(1, 100), F(0)), "cm2": (F(1, 10000), F(0))},
    "mass [g]": {"kg": (F(1000), F(0)), "g": (F(1), F(0))},
    "density [g/L]": {"kg/L": (F(1000), F(0)), "g/L": (F(1), F(0))},
    # kelvin; degC = K - 273.15; degF = degC * 9/5 + 32
    "temperature [K]": {"K": (F(1), F(0)), "degC": (F(1), _T0), "°C": (F(1), _T0),
                        "degF": (F(5, 9), _T0 - F(32) * F(5, 9)), "°F": (F(5, 9), _T0 - F(32) * F(5, 9))},
    "amount [mol]": {"mol": (F(1), F(0))},
    "volume [mL]": {"L": (F(1000), F(0)), "mL": (F(1), F(0))},
    # 1 h = 60 min, 1 d = 24 h
    "flow [L/d]": {"L/h": (F(24), F(0)), "L/min": (F(24 * 60), F(0)), "L/d": (F(1), F(0))},
    "frequency [Hz]": {"Hz": (F(1), F(0)), "kHz": (F(1000), F(0))},
    "pressure [Pa]": {"Pa": (F(1), F(0)), "pascal": (F(1), F(0)), "bar": (F(100000), F(0))},
    "mass flow [g/h]": {"kg/h": (F(1000), F(0)), "g/s": (F(3600), F(0)), "g/min": (F(60), F(0)), "g/h": (F(1), F(0))},
    "conductivity [uS/cm]": {"mS/cm": (F(1000), F(0)), "µS/cm": (F(1), F(0))},
    "percentage [%]": {"%": (F(1), F(0))},
    "volume percentage [vol%]": {"vol%": (F(1), F(0))},
    "weight percentage [wt%]": {"wt%": (F(1), F(0))},
    "mole percentage [mol%]": {"mol%": (F(1), F(0))},
    "column volume [CV]": {"CV": (F(1), F(0))},
    "absorbance [mAU]": {"AU": (F(1000), F(0)), "mAU": (F(1), F(0)), "milliAU": (F(1), F(0))},
    # LMH = litre per square metre per hour
    "permeability [LMH/bar]": {"LMH/bar": (F(1), F(0)), "L/m2/h/bar": (F(1), F(0)), "L/h/m2/bar": (F(1), F(0))},
    "flux [LMH]": {"LMH": (F(1), F(0)), "L/m2/h": (F(1), F(0)), "L/h/m2": (F(1), F(0))},
    "plain number": {None: (F(1), F(0))},
}
_UNIT_REF = {u: (q, fo[0], fo[1]) for q, us in REF.items() for u, fo in us.items()}
_PERCENTAGES = ("%", "vol%", "wt%", "mol%")


def ref_of(unit):
    """(quantity, factor, offset) or None when the unit is not in the hand-written table."""
    return _UNIT_REF.get(unit)


def same_quantity(ua, ub) -> bool:
    ra, rb = ref_of(ua), ref_of(ub)
    return ra is not None and rb is not None and ra[0] == rb[0]


def _terminating(x: F) -> bool:
    d = x.denominator
    for p in (2, 5):
        while d % p == 0:
            d //= p
    return d == 1


def group_of(ua, ub) -> str:
    """Signature discriminator for two different units of one quantity: '<quantity>/<kind of conversion>'.
    The kind is a fact of the hand-written table: same-scale (factor 1), decimal-scale (factor and its inverse are finite
    decimals), nonterminating-scale (factor or inverse is not a finite decimal, e.g. 1/60), '+offset' if the zero points
    differ.  Unit pairs sharing quantity and kind share the conversion arithmetic, so they share a signature."""
    (q, fa, oa), (_, fb, ob) = ref_of(ua), ref_of(ub)
    name = q.split(" [")[0].replace(" ", "-")
    if ua == ub:
        return f"{name}/same-unit"
    r = fa / fb
    kind = "same-scale" if r == 1 else "decimal-scale" if _terminating(r) and _terminating(1 / r) else "nonterminating-scale"
    if oa != ob:
        kind += "+offset"
    return f"{name}/{kind}"


def exact_base(value: str, unit) -> F:
    _, f, o = ref_of(unit)
    return F(value) * f + o


def frac_to_decimal_str(x: F) -> str | None:
    """Exact finite decimal string of x, or None when x has no finite decimal expansion."""
    n, d = x.numerator, x.denominator
    k2 = k5 = 0
    while d % 2 == 0:
        d //= 2
        k2 += 1
    while d % 5 == 0:
        d //= 5
        k5 += 1
    if d != 1:
        return None
    k = max(k2, k5)
    scaled = n * 10 ** k // x.denominator          # exact: denominator divides 10**k
    sign = "-" if scaled < 0 else ""
    digits = str(abs(scaled)).rjust(k + 1, "0")
    ip, fp = (digits[:-k], digits[-k:]) if k else (digits, "")
    fp = fp.rstrip("0")
    return sign + ip + ("." + fp if fp else "")


def image(value: str, src, dst) -> str | None:
    """Exact decimal string of `value src` expressed in `dst` (same quantity), None if not a finite decimal."""
    _, f, o = ref_of(dst)
    return frac_to_decimal_str((exact_base(value, src) - o) / f)


def exact_answers(a: str, ua, b: str, ub) -> dict[str, bool]:
    xa, xb = exact_base(a, ua), exact_base(b, ub)
    return {"<": xa < xb, "<=": xa <= xb, ">": xa > xb, ">=": xa >= xb, "=": xa == xb, "==": xa == xb, "!=": xa != xb}


def value_pairs(ua, ub, dom) -> list[tuple[str, str, str]]:
    """(a, b, origin) simplest first, deduplicated. Images only where the table relates the two units."""
    out, seen = [], set()

    def add(a, b, origin):
        if a is not None and b is not None and (a, b) not in seen:
            seen.add((a, b))
            out.append((a, b, origin))
    related = same_quantity(ua, ub) and ua != ub
    if related:
        for a in dom:                                    # physically equal operands first
            add(a, image(a, ua, ub), "a,image(a)")
        for b in dom:
            add(image(b, ub, ua), b, "image(b),b")
    for a in dom:
        for b in dom:
            add(a, b, "DxD")
    if ua == ub:
        # same unit (or none): no conversion is involved, so the comparison is exact whatever the number of digits
        for a in ("1", "0.3", D_BEYOND_CONTEXT):
            add(a, D_BEYOND_CONTEXT, "beyond-context-precision")
            add(D_BEYOND_CONTEXT, a, "beyond-context-precision")
    if related:
        for a in dom:
            for a2 in dom:
                add(a, image(a2, ua, ub), "a,image(a')")
        for b in dom:
            for b2 in dom:
                add(image(b2, ub, ua), b, "image(b'),b")
    return out


# ---------------------------------------------------------------------------------------------------------------------
# driving the real code

def _units():
    logging.disable(logging.CRITICAL)
    from openpectus.lang.exec import units
    return units


def ustr(u) -> str:
    return "None" if u is None else str(u)


def pair_str(ua, ub) -> str:
    return f"{ustr(ua)},{ustr(ub)}"


def upair_str(ua, ub) -> str:
    return ",".join(sorted((ustr(ua), ustr(ub))))


def call_all(a, ua, b, ub) -> dict[str, object]:
    U = _units()
    res = {}
    for op in OPS:
        try:
            r = U.compare_values(op, a, ua, b, ub)
            res[op] = r if isinstance(r, bool) else f"non-bool {r!r}"
        except Exception as e:                           # noqa: BLE001 - the exception type is the observation
            res[op] = f"raises {type(e).__name__}"
    return res


def may_compare(ua, ub) -> tuple[object, object]:
    """(are_comparable, does compare_values accept the pair) as observed on the real functions."""
    U = _units()
    try:
        ac = bool(U.are_comparable(ua, ub))
    except Exception as e:                               # noqa: BLE001
        ac = f"raises {type(e).__name__}"
    try:
        U.compare_values("=", "1", ua, "1", ub)
        cv = True
    except Exception as e:                               # noqa: BLE001
        cv = False if isinstance(e, ValueError) else f"raises {type(e).__name__}"
    return ac, cv


def check_symmetry(ua, ub) -> list[tuple[str, str]]:
    fwd, rev = may_compare(ua, ub), may_compare(ub, ua)
    if fwd != rev:
        return [(f"C21:symmetry:{upair_str(ua, ub)}",
                 f"are_comparable({ua!r},{ub!r})={fwd[0]} compare_values accepts={fwd[1]}, but reversed "
                 f"are_comparable({ub!r},{ua!r})={rev[0]} compare_values accepts={rev[1]}")]
    return []


def check_case(a, ua, b, ub) -> list[tuple[str, str]]:
    """All laws on one (value, unit) x (value, unit) case.  Signature discriminator: group_of() for two units of one
    quantity (dozens of unit pairs fail per law, see known_findings.d/C21.json), else the ordered unit pair."""
    got = call_all(a, ua, b, ub)
    related = same_quantity(ua, ub)
    disc = group_of(ua, ub) if related else pair_str(ua, ub)
    here = f"compare_values(op, {a!r}, {ua!r}, {b!r}, {ub!r})"
    out = []
    raised = sorted({str(v).split()[1] for v in got.values() if isinstance(v, str)})
    if raised and related:
        out.append((f"C21:raises:{'+'.join(raised)}:{disc}", f"{here} -> {got} although both units measure one quantity"))
    bools = {op: v for op, v in got.items() if isinstance(v, bool)}
    if all(op in bools for op in ("<", "=", ">")):
        n = sum((bools["<"], bools["="], bools[">"]))
        if n != 1:
            out.append((f"C21:trichotomy:{disc}", f"{here}: {n} of '<','=','>' hold ({ {op: bools[op] for op in ('<', '=', '>')} })"))
    if "=" in bools and "!=" in bools and bools["!="] != (not bools["="]):
        out.append((f"C21:neq-not-negation:{disc}", f"{here}: '='={bools['=']} and '!='={bools['!=']}"))
    if all(op in bools for op in ("<", "=", "<=")) and bools["<="] != (bools["<"] or bools["="]):
        out.append((f"C21:le-inconsistent:{disc}", f"{here}: '<='={bools['<=']} but '<'={bools['<']} '='={bools['=']}"))
    if all(op in bools for op in (">", "=", ">=")) and bools[">="] != (bools[">"] or bools["="]):
        out.append((f"C21:ge-inconsistent:{disc}", f"{here}: '>='={bools['>=']} but '>'={bools['>']} '='={bools['=']}"))
    if related:
        want = exact_answers(a, ua, b, ub)
        for op in OPS:
            if op == "==" and got["=="] == got["="]:
                continue                                 # alias answered like '=': reported once, under '='
            if op in bools and bools[op] != want[op]:
                out.append((f"C21:disagrees-with-exact:{op}:{disc}",
                            f"{here} with op {op!r} -> {bools[op]}, exact rational comparison gives {want[op]} "
                            f"({exact_base(a, ua)} vs {exact_base(b, ub)} in {ref_of(ua)[0]})"))
    return out


def _beyond_float(a, ua, b, ub) -> bool:
    xa, xb = exact_base(a, ua), exact_base(b, ub)
    return xa != xb and float(xa) == float(xb)


def work_pair(item):
    """One ordered unit pair: symmetry + every value pair x operator. Returns small plain data."""
    ua, ub, dom = item
    viol = {}            # signature -> [what, replay, count]
    stats = dict(calls=0, cases=0, nontrivial=0, beyond_float=0, equal_images=0, accepted=False, related=same_quantity(ua, ub),
                 group=group_of(ua, ub) if same_quantity(ua, ub) else "unrelated:" + pair_str(ua, ub))

    def rec(sig, what, replay):
        if sig in viol:
            viol[sig][2] += 1
        else:
            viol[sig] = [what, replay, 1]
    for sig, what in check_symmetry(ua, ub):
        rec(sig, what, {"kind": "symmetry", "ua": ua, "ub": ub})
    fwd = may_compare(ua, ub)
    stats["calls"] += 6                                  # are_comparable + compare_values, three observations
    if fwd[1] is not True and not stats["related"]:
        return ua, ub, viol, stats
    stats["accepted"] = fwd[1] is True
    for a, b, origin in value_pairs(ua, ub, dom):
        stats["cases"] += 1
        stats["calls"] += len(OPS)
        if stats["related"] and ua != ub:
            stats["nontrivial"] += 1
            if _beyond_float(a, ua, b, ub):
                stats["beyond_float"] += 1
            if exact_base(a, ua) == exact_base(b, ub):
                stats["equal_images"] += 1
        for sig, what in check_case(a, ua, b, ub):
            rec(sig, what, {"kind": "values", "ua": ua, "ub": ub, "a": a, "b": b, "origin": origin})
    return ua, ub, viol, stats


def _det_probe(item):
    ua, ub, a, b = item
    return may_compare(ua, ub), call_all(a, ua, b, ub)


def run(ctx):
    U = _units()
    dom = D_QUICK if ctx.quick else D_THOROUGH
    supported = list(U.get_supported_units())
    if len(set(supported)) != len(supported):
        raise HarnessError("get_supported_units() returns duplicates")
    unknown = [u for u in supported if ref_of(u) is None]
    missing = [u for u in _UNIT_REF if u not in supported]
    if missing:
        raise HarnessError(f"reference table names units the implementation does not support: {missing}")
    ctx.prove_deterministic(_det_probe, [("degF", "degC", "32", "0"), ("L/h", "L/d", "1", "24"), ("%", "vol%", "1", "1")])
    items = [(ua, ub, dom) for ua in supported for ub in supported]
    results = ctx.pmap(work_pair, items, chunk=16)
    tot = dict(calls=0, cases=0, nontrivial=0, beyond_float=0, equal_images=0)
    accepted_pairs = related_pairs = 0
    counts = {}
    per_group = {}
    samples = []
    for ua, ub, viol, stats in results:
        for k in tot:
            tot[k] += stats[k]
        accepted_pairs += bool(stats["accepted"])
        related_pairs += bool(stats["related"])
        if stats["cases"]:
            per_group[stats["group"]] = per_group.get(stats["group"], 0) + stats["cases"]
        for sig, (what, replay, n) in viol.items():
            counts[sig] = counts.get(sig, 0) + n
            ctx.violation(sig, what, replay)
    for ua, ub in (("min", "s"), ("degC", "degF"), ("L/h", "L/d")):
        samples += [{"unit_a": ua, "unit_b": ub, "a": a, "b": b, "origin": o} for a, b, o in value_pairs(ua, ub, dom)[:2]]
    if tot["nontrivial"] < 2 or tot["equal_images"] < 2 or tot["beyond_float"] < 1:
        raise HarnessError(f"vacuous exploration: {tot}")
    for kind in ("/same-unit", "/same-scale", "/decimal-scale", "/nonterminating-scale", "/same-scale+offset", "/nonterminating-scale+offset"):
        if not any(g.endswith(kind) for g in per_group):
            raise HarnessError(f"conversion class {kind} was never exercised")
    ctx.coverage.update(
        evaluations=tot["calls"], cases=tot["cases"], distinct_nontrivial=tot["nontrivial"],
        cases_differing_only_beyond_float_precision=tot["beyond_float"], cases_physically_equal=tot["equal_images"],
        supported_units=len(supported), ordered_unit_pairs=len(items), unit_pairs_accepted_by_compare_values=accepted_pairs,
        unit_pairs_related_by_reference_table=related_pairs, units_without_reference=[ustr(u) for u in unknown],
        values=list(dom), operators=list(OPS), violations_per_signature=dict(sorted(counts.items())),
        cases_per_group=dict(sorted(per_group.items())),
        rule="every ordered pair of get_supported_units() (symmetry of are_comparable / compare_values acceptance); for every "
             "accepted pair every value pair from D x D plus (a, image(a')) and (image(b'), b) for all a, a', b, b' in D whose "
             "image is a finite decimal, x 7 operators; non-trivial = distinct (unit pair, value pair) cases whose two units "
             "differ and measure one quantity, so that a conversion decides the answer",
        samples=samples, exhaustive=True,
        explanation="the stated unit-pair x value-pair x operator space was enumerated completely",
    )
    ctx.assumptions += [
        "reference factors/offsets in mc/checks/c21.py:REF are the physical definitions (1 min = 60 s, degF = degC*9/5+32, 1 d = 24 h, "
        "1 bar = 1e5 Pa, LMH = L/m2/h, ...)",
        "'%' against 'vol%'/'wt%'/'mol%' is treated as physically ambiguous: law checks only, no value agreement",
        "values are finite decimal strings; non-numeric strings are out of scope",
    ]


def replay(data):
    ua, ub = data["ua"], data["ub"]
    print(f"units: {ua!r} vs {ub!r}; reference quantity: {ref_of(ua) and ref_of(ua)[0]} / {ref_of(ub) and ref_of(ub)[0]}")
    print(f"  may_compare({ua!r},{ub!r}) = (are_comparable, compare_values accepts) = {may_compare(ua, ub)}")
    print(f"  may_compare({ub!r},{ua!r}) = {may_compare(ub, ua)}")
    if data.get("kind") == "symmetry":
        return check_symmetry(ua, ub)
    a, b = data["a"], data["b"]
    got = call_all(a, ua, b, ub)
    want = exact_answers(a, ua, b, ub) if same_quantity(ua, ub) else None
    if want:
        print(f"  exact: {a} {ustr(ua)} = {exact_base(a, ua)}, {b} {ustr(ub)} = {exact_base(b, ub)}  [{ref_of(ua)[0]}]")
    for op in OPS:
        print(f"  compare_values({op!r:5}, {a!r}, {ua!r}, {b!r}, {ub!r}) -> {got[op]!s:6}" + (f" exact: {want[op]}" if want else ""))
    return check_case(a, ua, b, ub)
