"""C35 — Error-log aggregation loses nothing and counts repeats.

Complete enumeration of error-log streams: every sequence of batches (ErrorLog objects) with every sequence of
entries over messages {a,b} x severities {logging.WARNING, logging.ERROR} x created_time {T, T+0.5 s, T+1 s} (T = 1.7e9, epoch scale), fed batch by batch
to one real AggregatedErrorLog.aggregate_with.  The aggregated entries are compared with a reference fold written
from the statement.

Classes
  main   created_time non-decreasing over the whole stream (increasing = new occurrence, equal = redelivery).
         Oracle: exact equality with the reference fold (message, severity, latest time, occurrence count), and
         sum(occurrences) == entries - redelivered duplicates.
  older  some entry is older than an earlier one.  The statement is silent on what such an entry does to the count
         and time, so only: no exception, the (message, severity) sequence is the run-collapse of the input (nothing
         lost, order kept), 1 <= occurrences <= run length, time is one of the run's times.
"""
import itertools
import logging

import openpectus.protocol.models as Mdl
from openpectus.aggregator.models import AggregatedErrorLog

from mc.core import HarnessError

ID = "C35"
LEVEL = "exploration"
META = dict(
    technique="complete enumeration of batch streams against a reference fold",
    text="Every stream of error-log batches within the bounds (all batch splits, all entry sequences over a 12-symbol "
         "alphabet) is aggregated by the real AggregatedErrorLog.aggregate_with and compared entry by entry with a "
         "fold written from the statement. Exhaustive within the bounds; the law is local (it only looks at the latest "
         "aggregated entry), so short streams with every split exercise every branch in every context.",
    note="Entries are real Mdl.ErrorLogEntry / Mdl.ErrorLog objects; severities are logging.WARNING/ERROR as sent by the "
         "engine; streams with an out-of-order (older) entry are a separately labelled class with a weaker oracle.",
)

MESSAGES = ("a", "b")
SEVERITIES = (logging.WARNING, logging.ERROR)
TIMES = (1_700_000_000.0, 1_700_000_000.5, 1_700_000_001.0)      # epoch-scale times half a second apart (what time.time() gives)
# symbol = (message, severity, time); ordered simplest first
SYMBOLS = tuple((m, s, t) for t in TIMES for s in SEVERITIES for m in MESSAGES)
NSYM = len(SYMBOLS)


def _make_entries():
    return [Mdl.ErrorLogEntry(message=m, severity=s, created_time=t) for (m, s, t) in SYMBOLS]


_ENTRIES = None


def entries():
    global _ENTRIES
    if _ENTRIES is None:
        _ENTRIES = _make_entries()
    return _ENTRIES


# ---------------------------------------------------------------------------------------------------------------
# reference (from the statement)

def is_main(stream) -> bool:
    return all(stream[i][2] <= stream[i + 1][2] for i in range(len(stream) - 1))


def reference_fold(stream):
    """-> (aggregated [[message, severity, time, occurrences]], redelivered duplicates, older entries)"""
    out = []
    dups = older = 0
    for (m, s, t) in stream:
        if out and out[-1][0] == m and out[-1][1] == s:
            if t > out[-1][2]:
                out[-1][2] = t
                out[-1][3] += 1
            elif t == out[-1][2]:
                dups += 1
            else:
                older += 1
        else:
            out.append([m, s, t, 1])
    return out, dups, older


def runs(stream):
    """run-collapse: [(message, severity, [times])] of maximal consecutive runs with equal message and severity"""
    out = []
    for (m, s, t) in stream:
        if out and out[-1][0] == m and out[-1][1] == s:
            out[-1][2].append(t)
        else:
            out.append((m, s, [t]))
    return out


# ---------------------------------------------------------------------------------------------------------------
# execution on the real class

def execute(batches):
    """batches: list of lists of symbol indices -> observation"""
    ents = entries()
    agg = AggregatedErrorLog.empty()
    try:
        for b in batches:
            agg.aggregate_with(Mdl.ErrorLog(entries=[ents[i] for i in b]))
    except Exception as ex:  # noqa
        return {"exception": f"{type(ex).__name__}: {ex}"}
    return {"entries": [[e.message, e.severity, e.created_time, e.occurrences] for e in agg.entries]}


def judge(batches, obs, stream=None, main=None, folded=None) -> list[tuple[str, str]]:
    if stream is None:
        stream = [SYMBOLS[i] for b in batches for i in b]
        main = is_main(stream)
        folded = reference_fold(stream)
    cls = "main" if main else "older"
    if "exception" in obs:
        return [(f"C35:exception:{cls}:{obs['exception'].split(':')[0]}", f"aggregate_with raised {obs['exception']} on {describe(batches)}")]
    got = obs["entries"]
    if main and got == folded[0]:
        return []          # equal to the fold of the statement (which implies every weaker condition below)
    rr = runs(stream)
    out = []
    if [(g[0], g[1]) for g in got] != [(m, s) for (m, s, _) in rr]:
        return [(f"C35:lost-or-reordered:{cls}",
                 f"aggregated (message, severity) sequence {[(g[0], g[1]) for g in got]} is not the input's "
                 f"{[(m, s) for (m, s, _) in rr]} for {describe(batches)}")]
    # does the offending run span a batch boundary?  (fact of the counterexample used in the signature)
    bounds = set(itertools.accumulate(len(b) for b in batches))
    pos = 0
    spans = []
    for (_, _, ts) in rr:
        spans.append("across-batches" if any(pos < x < pos + len(ts) for x in bounds) else "within-batch")
        pos += len(ts)
    if main:
        ref, dups, _ = folded
        for g, r, span in zip(got, ref, spans):
            if g[3] != r[3]:
                out.append((f"C35:count:{span}", f"entry {g[:2]} has occurrences={g[3]}, statement gives {r[3]} for {describe(batches)}"))
                break
        for g, r, span in zip(got, ref, spans):
            if g[2] != r[2]:
                out.append((f"C35:time:{span}", f"entry {g[:2]} has created_time={g[2]}, latest merged time is {r[2]} for {describe(batches)}"))
                break
        total = sum(g[3] for g in got)
        if total != len(stream) - dups and not out:
            out.append(("C35:sum", f"sum of occurrences {total} != entries {len(stream)} - redelivered {dups} for {describe(batches)}"))
    else:
        for g, (m, s, ts), span in zip(got, rr, spans):
            if not (1 <= g[3] <= len(ts)):
                out.append((f"C35:count-out-of-range:older:{span}", f"entry {g[:2]} occurrences={g[3]} outside 1..{len(ts)} for {describe(batches)}"))
                break
            if g[2] not in ts:
                out.append((f"C35:time-not-from-run:older:{span}", f"entry {g[:2]} created_time={g[2]} is none of {ts} for {describe(batches)}"))
                break
    return out


def describe(batches) -> str:
    return " | ".join("[" + ", ".join("%s/%d@%g" % SYMBOLS[i] for i in b) + "]" for b in batches)


# ---------------------------------------------------------------------------------------------------------------
# enumeration: an item is (sizes, prefix, mode); the worker enumerates every completion of the prefix

def _completions(n_rest, last_time, mode):
    """all symbol-index sequences of length n_rest; mode 'main' keeps times non-decreasing from last_time"""
    if n_rest == 0:
        yield ()
        return
    for i in range(NSYM):
        t = SYMBOLS[i][2]
        if mode == "main" and t < last_time:
            continue
        for rest in _completions(n_rest - 1, t if mode == "main" else last_time, mode):
            yield (i,) + rest


def _split(flat, sizes):
    out = []
    pos = 0
    for s in sizes:
        out.append(list(flat[pos:pos + s]))
        pos += s
    return out


def work(item):
    sizes, prefix, mode = item
    n = sum(sizes)
    viols = []
    seen = set()
    cnt = {"evaluations": 0, "main": 0, "older": 0, "merging": 0, "redelivered": 0, "cross_batch_merge": 0}
    outcomes = set()
    if mode == "main":
        if any(SYMBOLS[prefix[i]][2] > SYMBOLS[prefix[i + 1]][2] for i in range(len(prefix) - 1)):
            return viols, cnt, []
        last = SYMBOLS[prefix[-1]][2] if prefix else 0.0
    else:
        last = 0.0
    snapshot = [(e.message, e.severity, e.created_time) for e in entries()]
    for rest in _completions(n - len(prefix), last, mode):
        flat = tuple(prefix) + rest
        batches = _split(flat, sizes)
        obs = execute(batches)
        cnt["evaluations"] += 1
        stream = [SYMBOLS[i] for i in flat]
        main = is_main(stream)
        cnt["main" if main else "older"] += 1
        ref, dups, older = reference_fold(stream)
        if any(r[3] > 1 for r in ref):
            cnt["merging"] += 1
        if dups:
            cnt["redelivered"] += 1
        bounds = set(itertools.accumulate(sizes))
        if any(0 < x < n and stream[x - 1][:2] == stream[x][:2] for x in bounds):
            cnt["cross_batch_merge"] += 1
        outcomes.add((len(ref), dups > 0, older > 0, max((r[3] for r in ref), default=0)))
        for sig, what in judge(batches, obs, stream, main, (ref, dups, older)):
            if sig not in seen:
                seen.add(sig)
                viols.append((sig, what, {"batches": batches}))
    if [(e.message, e.severity, e.created_time) for e in entries()] != snapshot:
        raise HarnessError("aggregate_with mutated the input entries; the shared symbol objects are no longer valid")
    return viols, cnt, sorted(outcomes)


def items_for(max_batches, max_entries, max_total, mode):
    """all batch-size tuples (each batch 0..max_entries entries, at most max_total entries in all) of 0..max_batches
    batches, each cut into work items by the first prefix_len symbols"""
    out = []
    for nb in range(0, max_batches + 1):
        for sizes in itertools.product(range(0, max_entries + 1), repeat=nb):
            n = sum(sizes)
            if n > max_total:
                continue
            k = 0 if n <= 3 else 1 if n <= 5 else 2      # prefix length: keeps work items of comparable size
            for prefix in itertools.product(range(NSYM), repeat=k):
                out.append((sizes, prefix, mode))
    return out


def run(ctx):
    if ctx.quick:
        spaces = [("main", 2, 3, 6), ("all", 2, 3, 5)]
        bounds = {"main class": "<= 2 batches x <= 3 entries, times non-decreasing",
                  "all streams": "<= 2 batches x <= 3 entries, <= 5 entries in all (both classes, every symbol sequence)"}
    else:
        spaces = [("main", 3, 3, 9), ("all", 2, 3, 6), ("all", 3, 2, 6)]
        bounds = {"main class": "<= 3 batches x <= 3 entries, times non-decreasing",
                  "all streams": "<= 2 batches x <= 3 entries and <= 3 batches x <= 2 entries (both classes, every symbol sequence)"}
    # the same (sizes, prefix) may occur in several spaces: run it once; 'all' contains 'main'
    chosen = {}
    for mode, nb, ne, nt in spaces:
        for (sizes, prefix, m) in items_for(nb, ne, nt, mode):
            if chosen.get((sizes, prefix)) != "all":
                chosen[(sizes, prefix)] = m
    items = sorted(((s, p, m) for (s, p), m in chosen.items()), key=lambda it: (sum(it[0]), len(it[0]), it[0], it[1]))
    ctx.prove_deterministic(work, [((2, 1), (0, 4), "all"), ((1, 1), (8, 0), "all"), ((3,), (1, 1), "main")])
    res = ctx.pmap(work, items, chunk=1)
    tot = {}
    outcomes = set()
    for viols, cnt, oc in res:
        for k, v in cnt.items():
            tot[k] = tot.get(k, 0) + v
        outcomes.update(tuple(o) for o in oc)
        for sig, what, rp in viols:
            ctx.violation(sig, what, rp)
    if not tot.get("merging") or not tot.get("redelivered") or not tot.get("cross_batch_merge") or not tot.get("older"):
        raise HarnessError(f"a class was never reached: {tot}")
    samples = [describe(b) for b in ([[0, 4], [8]], [[0, 0], [1, 4, 4]], [[9], [1], [5]])]
    ctx.coverage.update(
        evaluations=tot["evaluations"], distinct_nontrivial=tot["merging"],
        rule="every sequence of batches within the bounds, every entry sequence over the 12 symbols "
             "(message a/b x severity WARNING/ERROR x time T, T+0.5, T+1 with T = 1.7e9); all cases are distinct by construction; "
             "non-trivial = at least one merge (an aggregated entry with occurrences > 1 in the reference fold)",
        samples=samples, exhaustive=True, bounds=bounds,
        main_class=tot["main"], older_class=tot["older"], with_redelivered_duplicate=tot["redelivered"],
        with_merge_across_batch_boundary=tot["cross_batch_merge"], distinct_outcomes=len(outcomes),
        alphabet=["%s/%d@%g" % s for s in SYMBOLS],
    )
    ctx.assumptions += [
        "an entry 'merges' with the latest aggregated entry (the statement's 'consecutive'), also across batch boundaries",
        "for streams containing an entry older than the latest one only: no exception, nothing lost, order kept, "
        "1 <= occurrences <= run length",
        "message and severity are only compared for equality, so two of each suffice",
    ]


def replay(data):
    batches = [list(b) for b in data["batches"]]
    stream = [SYMBOLS[i] for b in batches for i in b]
    print("stream :", describe(batches), "(class: %s)" % ("main" if is_main(stream) else "older"))
    obs = execute(batches)
    print("real   :", obs)
    ref, dups, older = reference_fold(stream)
    print("fold   :", ref, "redelivered=%d older=%d" % (dups, older))
    return judge(batches, obs)
