"""C20 — A method the analyzer accepts does not fail on names, args or units.

Bounded exhaustive enumeration of method texts x UOD variants, differential between the editor's semantic
analysis and the real engine:

* for each UOD variant {with totalizer (volume base units registered), without} the real `Engine` is built with
  the harness UOD and the analysis input is built from *the definitions the engine publishes*
  (`uod.create_lsp_definition()` + `engine.get_command_definitions()`, exactly what `EngineMessageBuilder.
  create_uod_info` sends in `UodInfoMsg`), passed through the JSON wire form, then
  `lsp_analysis.build_tags` / `build_commands` / `analyze` as the LSP does;
* every method of <= n lines over an alphabet of instructions x argument variants (valid; no unit; other unit of
  the same quantity; unit of another quantity; out-of-language option; missing argument; undefined name) with
  well-formed nesting is analysed;
* every method for which the analysis reports no ERROR-severity item is executed on the real engine for HORIZON
  ticks (In1 crosses the condition threshold, Tot increases so that volume thresholds pass).

Oracle (one-directional, as the statement): an accepted method never enters the engine error state and never gets
a failed line.  The alphabet has no failure source other than names, arguments and units, so every error is
attributed to the failing line's (instruction, argument class), both known to the generator by construction.
The converse (analyzer rejects, engine runs clean) is counted, not asserted.
"""
from __future__ import annotations

import collections
import logging
import re

logging.disable(logging.CRITICAL)

from mc.core import HarnessError                                                    # noqa: E402
from mc.engine_harness import Run                                                   # noqa: E402

from pylsp.lsp import DiagnosticSeverity                                            # noqa: E402
from pylsp.workspace import Document, Workspace                                     # noqa: E402

import openpectus.lang.model.ast as past                                            # noqa: E402
from openpectus.lsp import lsp_analysis                                             # noqa: E402
from openpectus.lsp.model import get_item_range, get_item_severity                  # noqa: E402
from openpectus.protocol.models import UodDefinition                                # noqa: E402

ID = "C20"
LEVEL = "model_checking"
META = dict(
    technique="bounded exhaustive enumeration of method texts x UOD variants; differential run of the LSP semantic analysis "
              "(on the engine's published definitions) against execution on the real engine",
    text="Every method of at most n lines over an alphabet of instructions x argument classes (valid, no unit, other unit of the "
         "same quantity, other quantity, out-of-language option, missing argument, undefined name) is analysed with the "
         "definitions the engine itself publishes, for a UOD with and without a totalizer; every accepted method is executed "
         "tick by tick on the real engine and must not enter the error state. The property quantifies over programs and "
         "configurations; the disagreements depend on a single line's (instruction, argument class) under a configuration, which "
         "the alphabet enumerates completely, and on short interactions (Base then threshold, Macro then Call macro, Simulate then "
         "condition) covered by the 2- and 3-line products.",
    note="Trusted: the harness UOD (mc.engine_harness.make_uod) whose command callbacks never raise for in-language arguments; "
         "argument classes are fixed by construction of the alphabet. Methods longer than the bound, other UODs (CV/DV/mass base "
         "units registered) and tag units other than none/degC/L are not explored.",
)

HORIZON = 25
X_TICK = 8                    # In1 becomes 2.0 before this tick
INDENT = "    "

VARIANTS = [("totalizer", True), ("no-totalizer", False)]


# ---------------------------------------------------------------------------------------------------
# alphabet

class L:
    """One line template with what the generator knows about it."""
    __slots__ = ("text", "instr", "cls", "opener", "arg", "volume")

    def __init__(self, text, instr, cls, opener=False, arg=True, volume=False):
        self.text = text          # line without indentation
        self.instr = instr        # instruction name
        self.cls = cls            # argument class (by construction)
        self.opener = opener      # may have an indented body
        self.arg = arg            # carries an argument or unit (non-trivial)
        self.volume = volume      # meaning depends on whether the UOD registers volume base units


def _alphabet() -> list[L]:
    out: list[L] = []
    cond = [
        ("In1 > 1", "unitless-tag:no-unit"),
        ("In1 > 1 degC", "unitless-tag:unit"),
        ("In1 > abc", "unitless-tag:non-numeric"),
        ("Temp > 1 degC", "degC-tag:degC"),
        ("Temp > 1", "degC-tag:no-unit"),
        ("Temp > 1 degF", "degC-tag:degF"),
        ("Temp > 1 K", "degC-tag:K"),
        ("Temp > 1 kg", "degC-tag:kg"),
        ("Temp > 1 L", "degC-tag:L"),
        ("Temp > 1 xyz", "degC-tag:unknown-unit"),
        ("Tot > 0.05 L", "L-tag:L"),
        ("Tot > 50 mL", "L-tag:mL"),
        ("Tot > 1 s", "L-tag:s"),
        ("Out2 = Open", "select-tag:text"),
        ("Run Time > 1 s", "s-tag:s"),
        ("Run Time > 0.01 min", "s-tag:min"),
        ("Run Time > 500 ms", "s-tag:ms"),
        ("Run Counter > 0", "system-unitless-tag:no-unit"),
        ("Conc > 5 vol%", "vol%-tag:vol%"),
        ("Conc > 5 %", "vol%-tag:%"),
        ("Conc > 5 wt%", "vol%-tag:wt%"),
        ("Pct > 5 %", "%-tag:%"),
        ("Pct > 5 vol%", "%-tag:vol%"),
        ("Nope > 1", "undefined-tag"),
        ("Tamp > 1 degC", "near-miss-tag"),
    ]
    alarm_subset = {"unitless-tag:no-unit", "unitless-tag:non-numeric", "degC-tag:no-unit", "degC-tag:degF", "degC-tag:kg",
                    "s-tag:min", "undefined-tag"}
    for k in ("Watch", "Alarm"):
        for c, cls in cond:
            if k == "Watch" or cls in alarm_subset:
                out.append(L(f"{k}: {c}", k, cls, True))
        out.append(L(f"{k}", k, "missing", True, arg=False))
    # this tag exists only when the UOD has a totalizer; the published tag list must say so
    out.append(L("Watch: Accumulated Volume > 0.05 L", "Watch", "totalizer-tag:L", True, volume=True))
    for u in ("s", "min", "h"):
        out.append(L(f"Base: {u}", "Base", u))
    for u in ("L", "mL"):
        out.append(L(f"Base: {u}", "Base", u, volume=True))
    for u in ("CV", "DV", "g", "kg"):
        out.append(L(f"Base: {u}", "Base", u))
    out += [
        L("Base: xyz", "Base", "unknown-unit"),
        L("Base: mins", "Base", "unknown-unit"),          # not a unit, but ends with one / begins with one
        L("Base: 2 min", "Base", "unknown-unit"),
        L("Base: sx", "Base", "unknown-unit"),
        L("Base", "Base", "missing", arg=False),
        L("0.0005 Mark: t", "Mark", "threshold"),
        L("Wait: 0.2s", "Wait", "duration"),
        L("Wait: 0.2 s", "Wait", "duration-spaced"),
        L("Wait: 300 ms", "Wait", "other-time-unit"),
        L("Wait: 0.0001 h", "Wait", "duration-h"),
        L("Wait: 1", "Wait", "no-unit"),
        L("Wait: 1 L", "Wait", "other-quantity"),
        L("Wait: abc", "Wait", "non-numeric"),
        L("Wait", "Wait", "missing", arg=False),
        L("Long: 2", "Long", "int"),
        L("Long: x", "Long", "non-numeric"),
        L("Long: 1.5", "Long", "decimal"),
        L("Long: -1", "Long", "negative"),
        L("Long", "Long", "missing", arg=False),
        L("SetOut: 1", "SetOut", "number"),
        L("SetOut: -1.5", "SetOut", "negative-decimal"),
        L("SetOut: abc", "SetOut", "non-numeric"),
        L("SetOut: 1 L", "SetOut", "unit-on-unitless"),
        L("Valve: Open", "Valve", "option"),
        L("Valve: Ajar", "Valve", "out-of-language"),
        L("Valve: Open+Closed", "Valve", "two-exclusive"),
        L("Valve", "Valve", "missing", arg=False),
        L("Dose: 1 L", "Dose", "L"),
        L("Dose: 1 mL", "Dose", "mL"),
        L("Dose: 1", "Dose", "no-unit"),
        L("Dose: 1 kg", "Dose", "other-quantity"),
        L("Area: 2 m2", "Area", "m2"),
        L("Area: ~2 m2", "Area", "match-not-at-start"),
        L("Area: 2", "Area", "no-unit"),
        L("Inst", "Inst", "none", arg=False),
        L("Inst: 1", "Inst", "unexpected-argument"),
        L("Pause: 0.2s", "Pause", "duration"),
        L("Pause: 300 ms", "Pause", "other-time-unit"),
        L("Pause: x", "Pause", "non-numeric"),
        L("Pause: 1", "Pause", "no-unit"),
        L("Hold: 0.2s", "Hold", "duration"),
        L("Hold: 300 ms", "Hold", "other-time-unit"),
        L("Hold: 1 L", "Hold", "other-quantity"),
        L("Simulate: In1 = 1", "Simulate", "unitless-tag:no-unit"),
        L("Simulate: In1 = 1 degC", "Simulate", "unitless-tag:unit"),
        L("Simulate: Temp = 5 degC", "Simulate", "degC-tag:degC"),
        L("Simulate: Temp = 5 degF", "Simulate", "degC-tag:degF"),
        L("Simulate: Temp = 5 kg", "Simulate", "degC-tag:kg"),
        L("Simulate: Tot = 50 mL", "Simulate", "L-tag:mL"),
        L("Simulate: Temp = 5", "Simulate", "degC-tag:no-unit"),
        L("Simulate: Nope = 1", "Simulate", "undefined-tag"),
        L("Simulate", "Simulate", "missing", arg=False),
        L("Simulate off: In1", "Simulate off", "tag"),
        L("Simulate off: Nope", "Simulate off", "undefined-tag"),
        L("Simulate off: Zz", "Simulate off", "undefined-tag"),          # a short undefined name (no spelling suggestion is attempted)
        L("Simulate off", "Simulate off", "missing", arg=False),
        L("Macro: M", "Macro", "name", True),
        L("Macro", "Macro", "missing", True, arg=False),
        L("Call macro: M", "Call macro", "M"),
        L("Call macro: N", "Call macro", "never-defined"),
        L("Call macro", "Call macro", "missing", arg=False),
        L("Run counter: 1", "Run counter", "int"),
        L("Run counter: x", "Run counter", "non-numeric"),
        L("Run counter: -1", "Run counter", "negative"),
        L("Run counter: 1.5", "Run counter", "decimal"),
        L("Increment run counter", "Increment run counter", "none", arg=False),
        L("Increment run counter: 3", "Increment run counter", "unexpected-argument"),
        L("Mark: a", "Mark", "text"),
        L("Mark", "Mark", "missing", arg=False),
        L("Batch: b", "Batch", "text"),
        L("Info: hello", "Info", "text"),
        L("Notify: n", "Notify", "text"),
        L("Block: B", "Block", "name", True),
        L("Block", "Block", "missing", True, arg=False),
        L("End block", "End block", "none", arg=False),
        L("End block: x", "End block", "unexpected-argument"),
        L("Stop", "Stop", "none", arg=False),
        L("Stop: now", "Stop", "unexpected-argument"),
        L("Bogus", "Bogus", "undefined-command", arg=False),
        L("Bogus: 1", "Bogus", "undefined-command"),
        L("Marc: a", "Marc", "near-miss-command"),
        L("Walve: Open", "Walve", "near-miss-command"),
    ]
    return out


ALPHABET = _alphabet()
BY_TEXT = {ln.text: i for i, ln in enumerate(ALPHABET)}
assert len(BY_TEXT) == len(ALPHABET)

# the plain valid line of each instruction (same nesting behaviour); used only for control runs that decide which of several
# lines failing in the same tick is the root cause
CANON = {"Watch": "Watch: In1 > 1", "Alarm": "Alarm: In1 > 1", "Base": "Base: s", "Mark": "Mark: a", "Wait": "Wait: 0.2s",
         "Long": "Long: 2", "SetOut": "SetOut: 1", "Valve": "Valve: Open", "Dose": "Dose: 1 L", "Pause": "Pause: 0.2s",
         "Hold": "Hold: 0.2s", "Simulate": "Simulate: In1 = 1", "Simulate off": "Simulate off: In1", "Macro": "Macro: M",
         "Call macro": "Mark: a", "Run counter": "Run counter: 1", "Block": "Block: B", "End block": "End block", "Stop": "Stop",
         "Inst": "Inst", "Increment run counter": "Increment run counter"}
assert all(t in BY_TEXT for t in CANON.values())

# reduced alphabet for the 3-line product (thorough): the lines that some analyzer accepts in some variant (only those
# reach the engine) that carry an argument class of their own, plus one rejected line per rejection mechanism
SUB_TEXTS = [
    "Watch: In1 > 1", "Watch: Temp > 1 degF", "Watch: Tot > 50 mL", "Watch: Temp > 1 kg", "Watch: Run Time > 0.01 min",
    "Watch: Accumulated Volume > 0.05 L", "Alarm: In1 > 1", "Alarm: Temp > 1 degF",
    "Base: s", "Base: h", "Base: L", "Base: mL", "Base: CV", "Base: kg", "Base: xyz", "Base: mins", "0.0005 Mark: t",
    "Wait: 0.2s", "Wait: 1", "Long: 2", "Long: -1", "SetOut: -1.5", "Valve: Open", "Valve: Ajar", "Valve", "Dose: 1 mL", "Dose: 1",
    "Inst", "Pause: 0.2s", "Hold: 0.2s", "Simulate: In1 = 1", "Simulate: Temp = 5 degF", "Simulate: Temp = 5 kg",
    "Simulate off: In1", "Macro: M", "Call macro: M", "Call macro: N", "Run counter: 1", "Increment run counter", "Mark: a",
    "Mark", "Block: B", "End block", "Notify: n", "Bogus",
]
SUB = [BY_TEXT[t] for t in SUB_TEXTS]


def line_class(i: int, variant: int) -> str:
    ln = ALPHABET[i]
    c = f"{ln.instr}:{ln.cls}"
    if ln.volume and not VARIANTS[variant][1]:
        c += "-without-totalizer"
    return c


def make_text(seq) -> str:
    return "\n".join(INDENT * lvl + ALPHABET[i].text for i, lvl in seq)


def extensions(seq, letters):
    """All well-nested one-line extensions of seq: a line may be indented one level deeper only directly under an opener."""
    if not seq:
        return [((i, 0),) for i in letters]
    last_i, last_lvl = seq[-1]
    top = last_lvl + 1 if ALPHABET[last_i].opener else last_lvl
    return [seq + ((i, lvl),) for lvl in range(top + 1) for i in letters]


def sequences_from(prefix, n, letters):
    """prefix and all its well-nested extensions up to n lines, shortest first."""
    frontier = [tuple(prefix)]
    for length in range(len(prefix), n + 1):
        nxt = []
        for seq in frontier:
            yield seq
            if length < n:
                nxt += extensions(seq, letters)
        frontier = nxt


def count_from(prefix, n, letters) -> int:
    """Closed-form size of sequences_from (independent recount)."""
    n_open = sum(1 for i in letters if ALPHABET[i].opener)
    n_flat = len(letters) - n_open
    by_state = {(prefix[-1][1], ALPHABET[prefix[-1][0]].opener): 1}      # (level of last line, last is opener) -> count
    total = 0
    for length in range(len(prefix), n + 1):
        total += sum(by_state.values())
        nb: dict = {}
        for (lvl, op), c in by_state.items():
            for l2 in range((lvl + 1 if op else lvl) + 1):
                nb[(l2, True)] = nb.get((l2, True), 0) + c * n_open
                nb[(l2, False)] = nb.get((l2, False), 0) + c * n_flat
        by_state = nb
    return total


# ---------------------------------------------------------------------------------------------------
# the definitions the engine publishes -> analysis input, exactly as the LSP builds it

_INPUTS: dict[int, tuple] = {}
_WS = None


def published(variant: int):
    """-> (AnalysisInput, UodDefinition, registered base units) for the variant's real engine."""
    if variant not in _INPUTS:
        run = Run(None, totalizer=VARIANTS[variant][1], start=False)
        try:
            uod_def = run.engine.uod.create_lsp_definition()                  # EngineMessageBuilder.create_uod_info
            uod_def.system_commands = run.engine.get_command_definitions()
            base_units = sorted(run.engine.uod.base_unit_provider.get_units())
        finally:
            run.cleanup()
        wire = UodDefinition.model_validate_json(uod_def.model_dump_json())     # UodInfoMsg travels as JSON
        inp = lsp_analysis.AnalysisInput(commands=lsp_analysis.build_commands(wire), tags=lsp_analysis.build_tags(wire),
                                         engine_id="c20")
        want_cmds = {d.name for d in wire.commands + wire.system_commands}
        if set(inp.commands.names) != want_cmds or set(inp.tags.names) != {t.name for t in wire.tags}:
            raise HarnessError("build_tags/build_commands dropped a published name")
        for need in ("In1", "Temp", "Tot", "Out2"):
            if need not in inp.tags.names:
                raise HarnessError(f"harness UOD does not publish tag {need}")
        _INPUTS[variant] = (inp, wire, base_units)
    return _INPUTS[variant]


def structure_class(program) -> str | None:
    """Other failure sources that the real parse tree shows (not asserted, counted): a Watch/Alarm nested inside an Alarm --
    the alarm body is re-run and the engine trips over the inner interrupt's state ('node.complete was set')."""
    for node in program.get_all_nodes():
        if isinstance(node, (past.WatchNode, past.AlarmNode)) and any(isinstance(a, past.AlarmNode) for a in node.parents):
            return "interrupt-nested-in-alarm"
    return None


def analyse(variant: int, text: str):
    """-> (error items [(line, id, description)], all items, raised exception or None, structure class)"""
    global _WS
    inp = published(variant)[0]
    if _WS is None:
        _WS = Workspace(root_uri="", endpoint=None, config=None)
    doc = Document(uri="file://c20/method.pcode", workspace=_WS, source=text)
    try:
        result = lsp_analysis.analyze(inp, doc)
    except Exception as ex:          # lint() turns this into one generic Error diagnostic: the editor does report an error
        return [(0, "analysis-raised", f"{type(ex).__name__}: {ex}")], [], ex, None
    errors, items = [], []
    for item in result.items:
        line = get_item_range(item)["start"]["line"]
        rec = (line, item.id, item.type.name, item.description)
        items.append(rec)
        if get_item_severity(item) == DiagnosticSeverity.Error:
            errors.append((line, item.id, item.description))
    return errors, items, None, structure_class(result.program)


# ---------------------------------------------------------------------------------------------------
# engine execution and failure attribution

CAUSES = [      # (cause class, message fragments) -- first match wins; only used to label the signature / report
    ("undefined-tag", ("Unknown tag", "Tag name", "not found in", "tag not found")),
    ("undefined-command", ("Unknown command", "Invalid command type", "Invalid instruction", "Unknown internal engine command",
                           "is not supported")),
    ("incompatible-units", ("incompatible units", "Base unit error", "Threshold comparison error", "Cannot convert between",
                            "Invalid unit", "non-pint units")),
    ("unit-conversion", ("unsupported operand type", "DimensionalityError", "Conversion error")),
    ("invalid-argument", ("nvalid argument", "Failed to initialize arguments", "Base instruction has invalid", "No macro defined",
                          "Argument error", "not numeric", "Error evaluating condition", "Argument '")),
]


def cause_of(exname: str, msg: str) -> str:
    for cause, frags in CAUSES:
        if any(f in msg for f in frags):
            return cause
    return "other"


_KEY = re.compile(r"key='L(\d+)\.")


def run_engine(variant: int, text: str, stop_on_error: bool = False) -> Run:
    """Start the method on a fresh real engine and tick HORIZON times (stop_on_error: only until the first entry into the error
    state; used for the converse count, where only clean / not clean matters).  run.c20_errors records every entry into the
    error state as (tick, exception type, description incl. cause chain) -- the harness' own record truncates the message."""
    run = Run(text, totalizer=VARIANTS[variant][1], start=True, observe=("mstate",))
    run.c20_errors = []
    inner = run.engine.set_error_state

    def set_error_state(exception):
        parts, ex, hops = [], exception, 0
        while ex is not None and hops < 4:
            um = getattr(ex, "user_message", None)
            text = um if um and um != "same" else (getattr(ex, "message", None) or str(ex))
            parts.append(f"{type(ex).__name__}: {str(text)[:300]}")
            ex, hops = ex.__cause__, hops + 1
        m = _KEY.search(str(getattr(exception, "message", None) or exception))        # the node the interpreter blames
        run.c20_errors.append((run.tickno, type(exception).__name__, " <- ".join(parts), int(m.group(1)) if m else None))
        return inner(exception)
    run.engine.set_error_state = set_error_state
    for t in range(HORIZON):
        run.set_input("Tot", round(0.01 * t, 4))
        if t == X_TICK:
            run.set_input("In1", 2.0)
        run.tick()
        if stop_on_error and run.c20_errors:
            break
    return run


def failures(variant: int, seq, run: Run):
    """-> [(failing line class, cause, tick, exception type, message)]: the FIRST entry into the error state of one execution
    (later ones happen in a run that is already broken), attributed to a line of the method."""
    out = []
    nlines = len(seq)

    def ids(names):
        return [int(s[1:]) for s in names if s[1:].isdigit() and int(s[1:]) < nlines]
    for (tick, exname, msg, node_idx) in run.c20_errors[:1]:
        ob = run.obs[tick] if 0 <= tick < len(run.obs) else None
        idx = node_idx if node_idx is not None and node_idx < nlines else None
        if idx is None and ob is not None and ids(ob["mstate"]["failed"]):
            idx = max(ids(ob["mstate"]["failed"]))
        if idx is None:                                        # command manager errors quote the command name ...
            for k, (i, _) in enumerate(seq):
                if f"'{ALPHABET[i].instr}'" in msg:
                    idx = k
        if idx is None:                                        # ... or come out of the UOD callback that ran in this tick
            names = [n for (t, n, ph, _, _) in run.cmd_events if t == tick and ph == "exec"]
            for k, (i, _) in enumerate(seq):
                if ALPHABET[i].instr in names:
                    idx = k
        if idx is None and ob is not None:
            st, ex = ids(ob["mstate"]["started"]), set(ids(ob["mstate"]["executed"]))
            cand = [k for k in st if k not in ex] or st
            idx = max(cand) if cand else None
        cands = ids(ob["mstate"]["failed"]) if ob is not None else []
        if len(cands) > 1:
            # several lines failed in this tick and the engine reports only the last one: the root cause is the line whose
            # replacement by the plain valid line of its instruction makes the whole method run clean (control runs)
            culprits = []
            for k in cands:
                i, lvl = seq[k]
                canon = CANON.get(ALPHABET[i].instr, "Mark: a")
                if canon == ALPHABET[i].text:
                    continue
                ctl = run_engine(variant, make_text(seq[:k] + ((BY_TEXT[canon], lvl),) + seq[k + 1:]), stop_on_error=True)
                clean = not ctl.c20_errors
                ctl.cleanup()
                if clean:
                    culprits.append(k)
            if len(culprits) == 1 and culprits[0] != idx:
                idx = culprits[0]
                msg = (f"[lines {['L%d' % k for k in cands]} failed in this tick; replacing L{idx} by "
                       f"{CANON.get(ALPHABET[seq[idx][0]].instr, 'Mark: a')!r} makes the method run clean; engine reports] " + msg)
        lc = line_class(seq[idx][0], variant) if idx is not None else "?"
        out.append((lc, cause_of(exname, msg), tick, exname, msg))
    if not run.c20_errors:
        # a line reported failed although the engine never entered the error state
        for ob in run.obs:
            for k in ids(ob["mstate"]["failed"])[:1]:
                if not out:
                    out.append((line_class(seq[k][0], variant), "failed-line-without-error-state", ob["n"], "-", "-"))
    return out


def evaluate(variant: int, seq, run_rejected: bool = False, trace: bool = False):
    """Analyse one method under one variant and, if accepted (or run_rejected), execute it.
    -> dict(accepted, raised, errors, fails, ticks, executed)"""
    text = make_text(seq)
    errors, items, raised, structure = analyse(variant, text)
    accepted = not errors
    res = {"accepted": accepted, "raised": raised is not None, "errors": errors, "fails": [], "ticks": 0, "executed": False,
           "structure": structure}
    if trace:
        print(f"analysis ({VARIANTS[variant][0]}): {'ACCEPTED (no ERROR item)' if accepted else 'REJECTED'}")
        if raised is not None:
            print(f"  analyze RAISED {type(raised).__name__}: {raised}")
        for (line, iid, typ, desc) in items:
            print(f"  item {typ:7s} {iid:24s} line {line}: {desc}")
        if structure:
            print(f"  structure class (failures of such methods are counted, not asserted): {structure}")
    if accepted or run_rejected:
        run = run_engine(variant, text, stop_on_error=not accepted and not trace)
        try:
            res["fails"] = failures(variant, seq, run)
            res["ticks"] = len(run.obs)
            res["executed"] = True
            res["tick_exceptions"] = len(run.tick_exceptions)
            if trace:
                print(f"engine trace ({len(run.obs)} ticks, In1:=2.0 before tick {X_TICK}, Tot=0.01*tick):")
                for ob in run.obs:
                    ms = ob["mstate"]
                    print(f"  tick {ob['n']:2d} state={ob['state']:8s} started={ms['started']} executed={ms['executed']} "
                          f"failed={ms['failed']} {ob.get('tick_exception', '')}")
                print(f"  error-state entries: {run.c20_errors}")
                print(f"  marks: {run.marks()}  uod command events: {[(t, n, p) for (t, n, p, _, _) in run.cmd_events]}")
        finally:
            run.cleanup()
    return res


def violations_of(variant: int, seq, res):
    out = []
    if not (res["accepted"] and res["executed"]) or res["structure"]:
        return out
    text = make_text(seq)
    for (lc, cause, tick, exname, msg) in res["fails"]:
        sig = f"C20:accepted-but-fails:{lc}"
        what = (f"method {text!r} on the UOD {VARIANTS[variant][0]}: semantic analysis with the engine's published definitions "
                f"reports no ERROR, but the engine enters the error state at tick {tick} on line class {lc} "
                f"(cause class {cause}; {msg})")
        out.append((sig, what))
    return out


def replay_payload(variant: int, seq):
    return {"variant": VARIANTS[variant][0], "lines": [[ALPHABET[i].text, lvl] for i, lvl in seq], "text": make_text(seq)}


# ---------------------------------------------------------------------------------------------------
# workers

def work(item):
    """item = (variant, prefix, n, letters key, converse_max_len, min_len): all well-nested extensions of prefix up to n lines
    that have at least min_len lines"""
    variant, prefix, n, lkey, conv_len, min_len = item
    letters = range(len(ALPHABET)) if lkey == "full" else SUB
    st = collections.Counter()
    accepted_classes: dict[str, list[int]] = {}     # line class -> [in accepted+executed methods, of which this line failed]
    converse1: list[str] = []
    conv_ids = collections.Counter()
    unasserted = collections.Counter()
    viols: dict[str, list] = {}
    for seq in sequences_from(prefix, n, letters):
        if len(seq) < min_len:
            continue
        want_conv = len(seq) <= conv_len
        res = evaluate(variant, seq, run_rejected=want_conv)
        st["analysed"] += 1
        st["analysis_raised"] += 1 if res["raised"] else 0
        if res["executed"]:
            st["executed"] += 1
            st["ticks"] += res["ticks"]
            st["tick_exceptions"] += res["tick_exceptions"]
        if res["accepted"]:
            st["accepted"] += 1
            nontrivial = any(ALPHABET[i].arg for i, _ in seq)
            st["nontrivial"] += 1 if nontrivial else 0
            st["accepted_failed"] += 1 if res["fails"] and not res["structure"] else 0
            if res["structure"]:
                st["accepted_with_other_failure_source"] += 1
                if res["fails"]:
                    st["unasserted_failures"] += 1
                    unasserted[f"{res['structure']}:{res['fails'][0][0]}:{res['fails'][0][1]}"] += 1
            failing = {f[0] for f in res["fails"]} if not res["structure"] else set()
            for lc in sorted({line_class(i, variant) for i, _ in seq}):
                c = accepted_classes.setdefault(lc, [0, 0])
                c[0] += 1
                c[1] += 1 if lc in failing else 0
            for sig, what in violations_of(variant, seq, res):
                if sig in viols:
                    viols[sig][0] += 1
                else:
                    viols[sig] = [1, what, replay_payload(variant, seq), len(seq)]
        else:
            st["rejected"] += 1
            if res["executed"]:
                st["rejected_executed"] += 1
                if not res["fails"]:
                    st["rejected_but_runs_clean"] += 1
                    for iid in sorted({e[1] for e in res["errors"]}):
                        conv_ids[iid] += 1
                    if len(seq) == 1:
                        converse1.append(f"{VARIANTS[variant][0]}: {make_text(seq)!r} ({', '.join(sorted({e[1] for e in res['errors']}))})")
    return dict(st), accepted_classes, converse1, dict(conv_ids), viols, dict(unasserted)


def _observe(item):
    st, cl, c1, ci, viols, un = work(item)
    return st, cl, c1, ci, {k: v[:2] for k, v in viols.items()}, un


def make_items(quick: bool):
    full = list(range(len(ALPHABET)))
    items = []
    n = 2
    for v in range(len(VARIANTS)):
        for i in full:
            items.append((v, ((i, 0),), n, "full", 2, 1))
    # a macro needs a body line before it can be called (a call directly after the 'Macro:' line is parsed as its body):
    # all 3-line methods 'Macro: M' / '    Mark: a' / <any line at level 0 or 1>
    for v in range(len(VARIANTS)):
        items.append((v, ((BY_TEXT["Macro: M"], 0), (BY_TEXT["Mark: a"], 1)), 3, "full", 0, 3))
    if not quick:
        # 3-line product over the reduced alphabet, sharded by the first two lines; only the 3-line methods are new
        for v in range(len(VARIANTS)):
            for i in SUB:
                for seq2 in extensions(((i, 0),), SUB):
                    items.append((v, seq2, 3, "sub3", 0, 3))
    return items


def run(ctx):
    items = make_items(ctx.quick)
    ctx.prove_deterministic(_observe, [(1, ((BY_TEXT["Base: L"], 0),), 1, "full", 1, 1),
                                       (0, ((BY_TEXT["Watch: Temp > 1 degF"], 0), (BY_TEXT["Dose: 1 mL"], 1)), 2, "full", 2, 1),
                                       (0, ((BY_TEXT["Macro: M"], 0), (BY_TEXT["Mark: a"], 1), (BY_TEXT["Call macro: M"], 0)), 3, "sub3", 0, 3)])
    results = ctx.pmap(work, items, chunk=1)
    tot = collections.Counter()
    classes: dict[str, list[int]] = {}
    converse1: list[str] = []
    conv_ids = collections.Counter()
    unasserted = collections.Counter()
    allv = []
    expected = 0
    for item, (st, cl, c1, ci, viols, un) in zip(items, results):
        variant, prefix, n, lkey, _, min_len = item
        letters = range(len(ALPHABET)) if lkey == "full" else SUB
        expected += count_from(prefix, n, letters) - (1 if len(prefix) < min_len else 0)
        tot.update(st)
        for k, v in cl.items():
            c = classes.setdefault(k, [0, 0])
            c[0] += v[0]
            c[1] += v[1]
        converse1 += c1
        conv_ids.update(ci)
        unasserted.update(un)
        for sig, (cnt, what, rp, size) in viols.items():
            allv.append((size, len(rp["text"]), sig, variant, cnt, what, rp))
    allv.sort(key=lambda t: t[:4])
    per_sig: dict[str, int] = {}
    for size, _, sig, _, cnt, what, rp in allv:
        per_sig[sig] = per_sig.get(sig, 0) + cnt
        ctx.violation(sig, what, rp)
    exhaustive = tot["analysed"] == expected
    if not exhaustive:
        raise HarnessError(f"enumerated {tot['analysed']} methods, closed form says {expected}")
    # vacuity: every instruction of the alphabet was accepted and executed at least once in some variant, and both verdicts occur
    instrs = {ln.instr for ln in ALPHABET if ln.cls not in ("undefined-command", "near-miss-command")}
    reached = {k.split(":")[0] for k, v in classes.items() if v[0] > 0}
    if instrs - reached:
        raise HarnessError(f"instructions never accepted+executed: {sorted(instrs - reached)}")
    if tot["rejected"] == 0 or tot["accepted"] == 0:
        raise HarnessError("vacuous: the analyzer gave only one verdict")
    if tot["executed"] - tot["rejected_executed"] != tot["accepted"]:
        raise HarnessError("an accepted method was not executed")
    ctx.note(f"[C20] alphabet={len(ALPHABET)} sub={len(SUB)} variants={len(VARIANTS)} analysed={tot['analysed']} accepted={tot['accepted']} "
             f"rejected={tot['rejected']} executed={tot['executed']} accepted_failed={tot['accepted_failed']} "
             f"rejected_but_runs_clean={tot['rejected_but_runs_clean']}/{tot['rejected_executed']} analysis_raised={tot['analysis_raised']}")
    for k in sorted(classes):
        if classes[k][1]:
            ctx.note(f"[C20]   accepted line class {k}: in {classes[k][0]} accepted methods, in {classes[k][1]} of them this line failed on the engine")
    for k, v in sorted(unasserted.items()):
        ctx.note(f"[C20]   not asserted (other failure source) {k}: {v} accepted methods failed")
    for s in sorted(converse1):
        ctx.note(f"[C20]   converse (not asserted) rejected but runs clean: {s}")
    samples = [replay_payload(1, ((BY_TEXT["Base: L"], 0), (BY_TEXT["0.0005 Mark: t"], 0))),
               replay_payload(0, ((BY_TEXT["Watch: Temp > 1 degF"], 0), (BY_TEXT["Dose: 1 mL"], 1))),
               replay_payload(0, ((BY_TEXT["Macro: M"], 0), (BY_TEXT["Call macro: M"], 0)))]
    ctx.coverage.update(
        states=tot["ticks"], transitions=tot["ticks"], traces_validated_against_impl=tot["executed"],
        evaluations=tot["analysed"], distinct_nontrivial=tot["nontrivial"],
        rule="every well-nested method (a line is indented one level deeper only directly under Watch/Alarm/Block/Macro) of <= 2 "
             "lines over the full alphabet, every 3-line method 'Macro: M' / '    Mark: a' / <any line>" + ("" if ctx.quick else " and of exactly 3 lines over the reduced "
             "alphabet") + ", x {UOD with totalizer, without}; non-trivial = "
             "accepted by the analyzer (no ERROR-severity item), containing at least one line with an argument or unit, and executed "
             "on the real engine",
        samples=samples, exhaustive=exhaustive,
        accepted=tot["accepted"], rejected=tot["rejected"], accepted_and_failed=tot["accepted_failed"],
        analysis_raised=tot["analysis_raised"], engine_tick_exceptions=tot["tick_exceptions"],
        accepted_with_other_failure_source=tot["accepted_with_other_failure_source"], unasserted_failures=tot["unasserted_failures"],
        unasserted_failures_by_class=dict(sorted(unasserted.items())),
        converse_rejected_executed=tot["rejected_executed"], converse_rejected_but_runs_clean=tot["rejected_but_runs_clean"],
        converse_by_analyzer_item=dict(sorted(conv_ids.items())), converse_single_line_methods=sorted(converse1),
        converse_note="counted for methods of <= 2 lines only; not asserted (the statement is one-directional)",
        horizon_ticks=HORIZON, max_lines=2 if ctx.quick else 3, alphabet=[ln.text for ln in ALPHABET], alphabet_size=len(ALPHABET),
        reduced_alphabet=SUB_TEXTS, variants=[v for v, _ in VARIANTS],
        published_base_units={VARIANTS[v][0]: published(v)[2] for v in range(len(VARIANTS))},
        published_commands=sorted(published(0)[0].commands.names),
        accepted_line_classes={k: {"accepted_methods": v[0], "failed": v[1]} for k, v in sorted(classes.items())},
        violations_by_signature=dict(sorted(per_sig.items())),
        explanation="exhaustive within the bound: the number of analysed (variant, method) pairs equals the closed-form size of the "
                    "stated space; every accepted method was executed",
    )
    ctx.assumptions += [
        "the analysis input is built from uod.create_lsp_definition() + engine.get_command_definitions() of the very engine the method "
        "then runs on, passed through UodDefinition JSON (the UodInfoMsg wire form)",
        "'reports no errors' = lsp_analysis.analyze returns no item of LSP severity Error; an exception escaping analyze counts as an "
        "error report (lint() shows a generic Error diagnostic)",
        f"execution: Start, {HORIZON} ticks of 0.1 s, In1 = 0 then 2.0 before tick {X_TICK}, Tot = 0.01 L x tick, Temp = 20 degC; "
        "'fails' = Engine.set_error_state is entered (or a line is reported failed)",
        "the alphabet has no failure source other than names, arguments and units: harness UOD callbacks do not raise for in-language "
        "arguments, the raising command Boom is excluded, nesting is well-formed; the message-based cause class only labels the signature",
        "only the first entry into the error state of an execution is judged (later ones happen in an already broken run)",
        "methods in which the real parser nests a Watch/Alarm inside an Alarm have another failure source (the re-run alarm body "
        "trips over the inner interrupt: 'node.complete was set'); their failures are counted (unasserted_failures), not asserted",
        "Engine.tick exceptions are C13's subject and only counted here",
    ]


def replay(data):
    variant = [v for v, _ in VARIANTS].index(data["variant"])
    seq = tuple((BY_TEXT[t], lvl) for t, lvl in data["lines"])
    inp, wire, base_units = published(variant)
    print(f"UOD variant: {data['variant']}; base units registered in the engine: {base_units}")
    print("published validators: " + "; ".join(f"{d.name}={d.validator!r}" for d in wire.commands + wire.system_commands
                                             if d.name in {ALPHABET[i].instr for i, _ in seq}))
    print("method:")
    for k, (i, lvl) in enumerate(seq):
        print(f"  L{k}: {INDENT * lvl + ALPHABET[i].text!r:40s} class={line_class(i, variant)}")
    res = evaluate(variant, seq, run_rejected=True, trace=True)
    for f in res["fails"]:
        print(f"  failure: line class {f[0]} cause {f[1]} tick {f[2]} {f[3]}: {f[4]}")
    return violations_of(variant, seq, res)
