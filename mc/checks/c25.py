"""C25 — Composite hardware is transparent.

Bounded exhaustive enumeration over the real ``Composite_Hardware``:

* part A (registers with direction Both): every number n <= N of registers, every map of the n registers onto K layers,
  both kinds of fake layer, and every sequence of one or two batch operations where each operation is read_batch or
  write_batch on any ordered selection of distinct registers (incl. the empty one).  Two-operation sequences contain all
  pairs of batches, hence all pairs that share registers.
* part B (directions): every direction vector in {Read, Write, Both}^n on every map; read_batch on every ordered
  selection of the readable registers, write_batch on every ordered selection of the writable ones, and single
  read / write of every register that permits it.

Fake layers are plain ``HardwareLayerBase`` subclasses with their own memory; they log every call in order.  ``loop``
layers implement only read/write and inherit the base-class batch loops, ``native`` layers implement the batch calls.

Oracle: a dict-per-layer reference memory on which every operation is performed register by register on the owning
layer.  read_batch must return, position by position, the reference value of the requested register; after every
operation the memory of every layer must equal the reference memory (so the value paired with a register in the request
is the one its owner holds, and nothing else changed); no layer may be asked for a register it does not own.
"""
from __future__ import annotations

import itertools
import logging

from mc.core import HarnessError

ID = "C25"
LEVEL = "exploration"
META = dict(
    technique="exhaustive enumeration of register-to-layer maps x ordered batches against a per-register reference memory",
    text="Every assignment of up to N registers to up to K fake hardware layers is driven through the real Composite_Hardware "
         "with every ordered batch of distinct registers, alone and followed by every second batch; returned values and all "
         "layer memories are compared with register-by-register access on the owning layer; sequences of up to 3 (thorough 4) "
         "batch writes, single writes and reads that write the same values again are enumerated as well. The space is finite and is "
         "completed; the property quantifies over exactly these assignments and orders.",
    note="Values are distinct integers (the composite never inspects values). A register appears at most once per batch; "
         "batches are passed as lists, as the engine does. Fake layers do not fail.",
)

INITIAL = 100          # register i starts at 100 + i on its owner
DRIFT = 50             # after a read operation the hardware-side value of every register moves by this much


_HW = []


def _hw():
    if not _HW:
        logging.disable(logging.CRITICAL)
        from openpectus.engine import hardware, composite_hardware
        _HW.extend((hardware, composite_hardware))
    return _HW


_CLASSES = {}


def fake_classes():
    """Build the fake layer classes once (they subclass the real HardwareLayerBase)."""
    if _CLASSES:
        return _CLASSES
    hardware, _ = _hw()
    Base, Dir, Exc = hardware.HardwareLayerBase, hardware.RegisterDirection, hardware.HardwareLayerException

    class LoopLayer(Base):
        """Own memory, logs calls. Batches go through HardwareLayerBase.read_batch / write_batch."""
        kind = "loop"

        def __init__(self, ident: int):
            super().__init__()
            self.ident = ident
            self.mem: dict[str, object] = {}
            self.log: list[tuple] = []
            self.foreign: list[tuple] = []

        def __repr__(self):
            return f"L{self.ident}"

        def _get(self, how, r):
            if Dir.Read not in r.direction:
                raise Exc(f"Attempt to read unreadable register {r}.")
            if r.name not in self.mem:
                self.foreign.append((how, r.name))
                return ("FOREIGN", self.ident, r.name)
            return self.mem[r.name]

        def _set(self, how, value, r):
            if Dir.Write not in r.direction:
                raise Exc(f"Attempt to write unwritable register {r}.")
            if r.name not in self.mem:
                self.foreign.append((how, r.name))
                return
            self.mem[r.name] = value

        def read(self, r):
            self.log.append(("read", r.name))
            return self._get("read", r)

        def write(self, value, r):
            self.log.append(("write", r.name, value))
            self._set("write", value, r)

        def read_batch(self, registers):
            self.log.append(("read_batch", [r.name for r in registers]))
            return super().read_batch(registers)

        def write_batch(self, values, registers):
            self.log.append(("write_batch", [r.name for r in registers], list(values)))
            return super().write_batch(values, registers)

    class NativeLayer(LoopLayer):
        """Implements the batch calls itself, as a real driver with block transfers does."""
        kind = "native"

        def read_batch(self, registers):
            registers = list(registers)
            self.log.append(("read_batch", [r.name for r in registers]))
            return [self._get("read_batch", r) for r in registers]

        def write_batch(self, values, registers):
            values, registers = list(values), list(registers)
            self.log.append(("write_batch", [r.name for r in registers], values))
            if len(values) != len(registers):
                self.foreign.append(("write_batch length mismatch", len(values), len(registers)))
            for v, r in zip(values, registers):
                self._set("write_batch", v, r)

    _CLASSES.update(loop=LoopLayer, native=NativeLayer)
    return _CLASSES


# ---------------------------------------------------------------------------------------------------------------------
# enumeration helpers

def selections(indices) -> list[tuple[int, ...]]:
    """Every ordered selection of distinct elements, shortest first."""
    indices = list(indices)
    out = []
    for m in range(len(indices) + 1):
        out += list(itertools.permutations(indices, m))
    return out


def grouped_order(batch, owner) -> list[int]:
    """Registers regrouped by owning layer in order of first appearance (what the composite hands to the layers)."""
    by = {}
    for i in batch:
        by.setdefault(owner[i], []).append(i)
    return [i for group in by.values() for i in group]


def shape(batch, owner) -> str:
    layers = {owner[i] for i in batch}
    if not batch:
        return "empty"
    if len(layers) == 1:
        return "single-layer"
    return "interleaved" if grouped_order(batch, owner) != list(batch) else "multi-layer-grouped"


def reg_name(i: int) -> str:
    return f"R{i}"


def write_value(op_index: int, pos: int, i: int, vsel=None) -> int:
    if vsel == 2:                                        # part C: 'no value' is a value like any other for the composite
        return None
    if vsel is not None:                                 # part C: values repeat across operations
        return 7000 + 10 * vsel + i
    return 1000 * (op_index + 1) + 10 * pos + i


# ---------------------------------------------------------------------------------------------------------------------
# one scenario on fresh real objects

def run_scenario(sc, trace=None):
    """sc = dict(owner=[layer per register], dirs=["B"|"R"|"W" per register], kind="loop"|"native", layers=K,
                 ops=[[code, [register indices]], ...]) with code R (read_batch), W (write_batch), r (read), w (write).
    Returns (violations [(signature, what)], number of composite calls)."""
    hardware, composite_hardware = _hw()
    Dir = hardware.RegisterDirection
    dmap = {"B": Dir.Both, "R": Dir.Read, "W": Dir.Write}
    owner, dirs, K = list(sc["owner"]), list(sc["dirs"]), sc["layers"]
    n = len(owner)
    cls = fake_classes()[sc["kind"]]
    layers = [cls(j) for j in range(K)]
    regs = [hardware.Register(reg_name(i), dmap[dirs[i]], hardware=layers[owner[i]]) for i in range(n)]
    model = [dict() for _ in range(K)]                   # reference memory, one dict per layer
    for i in range(n):
        layers[owner[i]].mem[reg_name(i)] = INITIAL + i
        model[owner[i]][reg_name(i)] = INITIAL + i
    comp = composite_hardware.Composite_Hardware()
    comp._registers = {r.name: r for r in regs}
    # life cycle of the composite object itself (the layers are usable throughout): connected (default), never connected,
    # connected and disconnected again
    life = sc.get("life", "connected")
    if life != "never-connected":
        comp.connect()
    if life == "disconnected":
        comp.disconnect()
    out = []
    calls = 0
    tracing = trace is not None                          # trace strings are only built for replay
    say = trace.append if tracing else None
    if tracing:
        say(f"registers -> layers: { {reg_name(i): f'L{owner[i]}' for i in range(n)} }  directions: {dirs}  layer kind: {sc['kind']}")
    for k, op in enumerate(sc["ops"]):
        code, batch = op[0], list(op[1])
        vsel = op[2] if len(op) > 2 else None
        pos = f"op{k + 1}"
        shp = shape(batch, owner) if code in "RW" else "single"
        names = [reg_name(i) for i in batch]
        for layer in layers:
            layer.log.clear()
        calls += 1
        got = None
        try:
            if code == "R":
                got = comp.read_batch([regs[i] for i in batch])
            elif code == "W":
                values = [write_value(k, p, i, vsel) for p, i in enumerate(batch)]
                comp.write_batch(values, [regs[i] for i in batch])
            elif code == "r":
                got = comp.read(regs[batch[0]])
            elif code == "w":
                values = [write_value(k, 0, batch[0], vsel)]
                comp.write(values[0], regs[batch[0]])
            else:
                raise HarnessError(f"unknown op {code}")
        except HarnessError:
            raise
        except Exception as e:                           # noqa: BLE001 - the composite must not fail on permitted registers
            out.append((f"C25:raises:{type(e).__name__}:{code}:{shp}:{pos}", f"{pos} {code}{names} raised {type(e).__name__}: {e}"))
            if tracing:
                say(f"{pos} {code}{names}: raised {type(e).__name__}: {e}")
            break
        # reference: the same operation register by register on the owning layer's reference memory
        if code in "Rr":
            want = [model[owner[i]][reg_name(i)] for i in batch]
            if tracing:
                say(f"{pos} read{'_batch' if code == 'R' else ''}({names}) -> {got}   reference {want if code == 'R' else want[0]}")
            if code == "R":
                if not isinstance(got, list) or len(got) != len(want):
                    out.append((f"C25:read-batch-length:{shp}:{pos}", f"{pos} read_batch({names}) returned {got!r}, expected {len(want)} values {want}"))
                elif got != want:
                    out.append((f"C25:read-batch-values:{shp}:{pos}",
                                f"{pos} read_batch({names}) with owners {[owner[i] for i in batch]} returned {got}, reading each register on its own layer gives {want}"))
            elif got != want[0]:
                out.append((f"C25:single-read:{pos}", f"{pos} read({names[0]}) returned {got}, its layer holds {want[0]}"))
        else:
            for v, i in zip(values, batch):
                model[owner[i]][reg_name(i)] = v
            if tracing:
                say(f"{pos} write{'_batch' if code == 'W' else ''}({values}, {names})")
        if tracing:
            for layer in layers:
                if layer.log:
                    say(f"      L{layer.ident} calls: {layer.log}")
        foreign = [(layer.ident, f) for layer in layers for f in layer.foreign]
        if foreign:
            out.append((f"C25:foreign-register:{code}:{shp}:{pos}", f"{pos} {code}{names}: layers were handed registers they do not own: {foreign}"))
        mems = [dict(layer.mem) for layer in layers]
        if mems != model:
            law = "write-batch-memory" if code == "W" else "single-write" if code == "w" else "read-changed-memory"
            out.append((f"C25:{law}:{shp}:{pos}", f"{pos} {code}{names}: layer memories {mems}, register-by-register reference {model}"))
            if tracing:
                say(f"      memories {mems}  reference {model}")
        if out:
            break
        if code in "Rr":                                  # the plant moves on: a cached value from this read is now stale
            for j in range(K):
                for name in model[j]:
                    if model[j][name] is not None and layers[j].mem[name] is not None:
                        model[j][name] += DRIFT
                        layers[j].mem[name] += DRIFT
    # harness sanity: direct single reads on the fakes agree with the reference memory
    if not out:
        for i in range(n):
            if dirs[i] in "BR" and layers[owner[i]].read(regs[i]) != model[owner[i]][reg_name(i)]:
                raise HarnessError("fake layer disagrees with the reference memory")
    return out, calls


# ---------------------------------------------------------------------------------------------------------------------
# work items

def scenarios_of(item):
    """Generate the scenarios of one work item, simplest first."""
    part, owner, dirs, kind, K = item
    n = len(owner)
    base = dict(owner=list(owner), dirs=list(dirs), kind=kind, layers=K)
    readable = [i for i in range(n) if dirs[i] in "BR"]
    writable = [i for i in range(n) if dirs[i] in "BW"]
    singles = [["R", list(b)] for b in selections(readable)] + [["W", list(b)] for b in selections(writable)]
    if part == "A":
        for op in singles:
            yield dict(base, ops=[op])
        for op1 in singles:
            for op2 in singles:
                yield dict(base, ops=[op1, op2])
    elif part == "C":
        # repeated values across operations: batch and single writes of one of two values per register, and reads, in every
        # order (a layer that remembers what it wrote must not skip a later write of the same value)
        alpha = [["W", list(b), v] for b in selections(writable) if b for v in (0, 1, 2)]
        alpha += [["w", [i], v] for i in writable for v in (0, 1, 2)]
        alpha += [["R", list(readable)]]
        for m in range(2, SEQ_C + 1):
            for ops in itertools.product(alpha, repeat=m):
                # (also read - write - read: a value read earlier must not stand in for what a layer returns now)
                if sum(1 for o in ops if o[0] in "Ww") >= 2 or (m == 3 and ops[0][0] == "R" and ops[2][0] == "R" and ops[1][0] in "Ww"):
                    yield dict(base, ops=[list(o) for o in ops])
    else:
        for op in singles:
            yield dict(base, ops=[op])
            if n <= 2:
                for life in ("never-connected", "disconnected"):
                    yield dict(base, ops=[op], life=life)
                    if op[0] == "W":
                        yield dict(base, ops=[op, ["R", list(readable)]], life=life)
        for i in readable:
            yield dict(base, ops=[["r", [i]]])
        for i in writable:
            yield dict(base, ops=[["w", [i]]])
        for i in writable:                               # single write then read back through a batch, and vice versa
            if i in readable:
                yield dict(base, ops=[["w", [i]], ["R", [i]]])
                yield dict(base, ops=[["W", [i]], ["r", [i]]])


def work_item(item):
    viol = {}
    stats = dict(scenarios=0, calls=0, nontrivial=0, shapes={}, sample=None)
    owner = item[1]
    for sc in scenarios_of(item):
        res, calls = run_scenario(sc)
        stats["scenarios"] += 1
        stats["calls"] += calls
        shapes = [shape(o[1], owner) if o[0] in "RW" else "single" for o in sc["ops"]]
        if item[0] == "C":
            stats["repeated"] = stats.get("repeated", 0) + 1
        for c, s in zip((o[0] for o in sc["ops"]), shapes):
            key = f"{c}:{s}"
            stats["shapes"][key] = stats["shapes"].get(key, 0) + 1
        if "interleaved" in shapes:
            stats["nontrivial"] += 1
            if stats["sample"] is None or len(sc["ops"]) > len(stats["sample"]["ops"]):
                stats["sample"] = sc
        for sig, what in res:
            if sig in viol:
                viol[sig][2] += 1
            else:
                viol[sig] = [what, sc, 1]
    return viol, stats


def items_for(N, K):
    out = []
    for n in range(N + 1):                               # part A: all registers Both
        for owner in itertools.product(range(K), repeat=n):
            for kind in ("loop", "native"):
                out.append(("A", owner, ("B",) * n, kind, K))
    for n in range(1, N + 1):                            # part B: every direction vector
        for owner in itertools.product(range(K), repeat=n):
            for dirs in itertools.product("BRW", repeat=n):
                for kind in ("loop", "native"):
                    out.append(("B", owner, dirs, kind, K))
    for n in range(1, min(N, 2) + 1):                    # part C: repeated values, operation sequences up to SEQ_C
        for owner in itertools.product(range(min(K, 2)), repeat=n):
            for kind in ("loop", "native"):
                out.append(("C", owner, ("B",) * n, kind, K))
    return out


SEQ_C = 3


def _isolation_probes(K):
    return [
        dict(owner=[0, 1, 0], dirs=["B", "B", "B"], kind="loop", layers=K, ops=[["R", [0, 1, 2]], ["W", [2, 1, 0]], ["R", [2, 0, 1]]]),
        dict(owner=[1, 0, 1], dirs=["B", "B", "B"], kind="native", layers=K, ops=[["W", [2, 0, 1]], ["R", [1, 0, 2]]]),
    ]


def _isolation_problems(sc):
    """Run `sc` on a fresh composite, then a scenario with the same register names on other layers, then `sc` again."""
    first = _det_probe(sc)
    other = dict(sc, owner=[(o + 1) % sc["layers"] for o in sc["owner"]])
    run_scenario(other)
    second = _det_probe(sc)
    if first != second:
        return [("C25:depends-on-an-earlier-composite",
                 f"scenario {sc['ops']} with owners {sc['owner']} behaves differently after another composite used the same register "
                 f"names on other layers: first {first[0] or first[2][-2:]}, then {second[0] or second[2][-2:]}")]
    return []


def _det_probe(sc):
    trace = []
    res, calls = run_scenario(sc, trace)
    return res, calls, trace


def run(ctx):
    global SEQ_C
    N, K = (3, 3) if ctx.quick else (4, 4)
    SEQ_C = 3 if ctx.quick else 4
    # a composite must not depend on composites that existed before it (same register names, other layers): every probe
    # scenario is executed after a differently mapped one and must behave as when executed first
    leaking = False
    for sc in _isolation_probes(K):
        for sig, what in _isolation_problems(sc):
            ctx.violation(sig, what, {"isolation": sc})
            leaking = True
    # (when composites influence each other, repeated executions differ because of the code under test, not the harness)
    ctx.prove_deterministic(_det_probe, [] if leaking else [
        dict(owner=[0, 1, 0], dirs=["B", "B", "B"], kind="loop", layers=K, ops=[["R", [0, 1, 2]], ["W", [2, 1, 0]]]),
        dict(owner=[1, 0, 1], dirs=["B", "R", "W"], kind="native", layers=K, ops=[["W", [2, 0]], ["R", [1, 0]]]),
        dict(owner=[0], dirs=["B"], kind="loop", layers=K, ops=[["w", [0]], ["r", [0]]]),
    ])
    items = items_for(N, K)
    results = ctx.pmap(work_item, items, chunk=1)
    tot = dict(scenarios=0, calls=0, nontrivial=0)
    repeated = sum(st.get("repeated", 0) for _, st in results)
    if repeated < 1000:
        raise HarnessError("part C (repeated values across operations) was not exercised")
    shapes, counts, samples = {}, {}, []
    for item, (viol, stats) in zip(items, results):
        for k in tot:
            tot[k] += stats[k]
        for k, v in stats["shapes"].items():
            shapes[k] = shapes.get(k, 0) + v
        if stats["sample"] is not None and len(samples) < 4 and len(item[1]) == N:
            samples.append(stats["sample"])
        for sig, (what, sc, cnt) in viol.items():
            counts[sig] = counts.get(sig, 0) + cnt
            ctx.violation(sig, what, sc)
    for need in ("R:interleaved", "W:interleaved", "R:multi-layer-grouped", "W:multi-layer-grouped", "R:single-layer", "W:single-layer",
                 "r:single", "w:single", "R:empty", "W:empty"):
        if not shapes.get(need):
            raise HarnessError(f"operation class {need} was never exercised")
    n_maps = sum(K ** n for n in range(N + 1))
    ctx.coverage.update(
        evaluations=tot["calls"], scenarios=tot["scenarios"], distinct_nontrivial=tot["nontrivial"],
        max_registers=N, layers=K, sequences_with_repeated_values=repeated, max_sequence_length_part_C=SEQ_C, register_to_layer_maps=n_maps, work_items=len(items),
        ordered_selections_of_max_registers=len(selections(range(N))), operations_by_class=dict(sorted(shapes.items())),
        violations_per_signature=dict(sorted(counts.items())),
        rule="part A: n <= N registers (direction Both) x every map onto K layers x {loop, native} fake layers x every sequence of one or "
             "two operations, each read_batch or write_batch on any ordered selection of distinct registers; part B: every direction "
             "vector in {Read,Write,Both}^n x every map x every permitted single batch, every single read/write, and single/batch "
             "round trips; part C: <= 2 registers (Both) on <= 2 layers x every sequence of 2..SEQ_C operations out of {write_batch on "
             "any ordered non-empty selection with value set 0 or 1, single write of value 0 or 1, read_batch of all} with at least "
             "two writes, so that the same value is written again after any other operation; non-trivial = distinct scenarios containing a batch that spans >= 2 layers in an order different from the "
             "order grouped by layer",
        samples=samples, exhaustive=True,
        explanation="all work items completed; every scenario of the stated space was executed on fresh real objects",
    )
    ctx.coverage["isolation_probes"] = len(_isolation_probes(K))
    ctx.assumptions += [
        "a register occurs at most once within one batch (the property speaks of duplicates across batches)",
        "batches are passed as lists (engine.py:322, 456); one-shot iterators are not covered",
        "fake layers never fail; values are distinct integers in parts A and B and repeat in part C",
    ]


def replay(data):
    if "isolation" in data:
        probs = _isolation_problems(data["isolation"])
        for _, w in probs:
            print(w)
        return probs
    trace = []
    res, _ = run_scenario(data, trace)
    for line in trace:
        print(line)
    return res
