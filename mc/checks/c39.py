"""C39 — The local run archive reads back exactly.

Every tag set / value / Mark text within the stated bounds is written with the real
`ArchiverTag.prepare_tags_file` / `write_tags_row` into a scratch directory and read back with Python's csv
module using the archiver module's own `delimiter` / `quoting` / `escapechar` / `encoding` settings.

Oracle (from the statement only):
  * every data row has exactly as many cells as the header, and the header has 1 (time) + one column per tag whose
    `archive()` is not None, the column of tag i containing that tag's name;
  * one data row per `write_tags_row` call;
  * the cells read back equal what each tag's real `archive()` returned during that call (recorded by a spy that
    wraps, and calls, the real bound method);
  * every Mark text set since the previous row occurs, in order, in the archived Mark cell (nothing about the
    separator between marks is assumed).
The time cell is only required to parse as an ISO datetime (it is wall-clock and never part of an observation).
"""
from __future__ import annotations

import csv
import datetime
import itertools
import logging
import os
import shutil
import tempfile

logging.disable(logging.CRITICAL)

import openpectus.engine.archiver as archiver_mod                     # noqa: E402
from openpectus.lang.exec.tags import Tag, TagCollection              # noqa: E402
from openpectus.lang.exec.tags_impl import MarkTag                    # noqa: E402
from mc.core import HarnessError                                      # noqa: E402

ID = "C39"
LEVEL = "exploration"
META = dict(
    technique="bounded exhaustive write/read-back of the real archiver file format",
    text="Every tag set (1-3 tags, names and units with delimiter characters) and every Mark text up to the length bound "
         "over the delimiter/quote/escape alphabet is written by the real ArchiverTag into a scratch file and read back "
         "with the module's own csv settings; row shapes and cell values are compared with what Tag.archive() returned. "
         "The space is finite and completed, so within the bounds the claim is decided by enumeration.",
    note="prepare_tags_file/write_tags_row are driven directly (file name chosen by the harness, not by on_start's clock); "
         "the reader is csv.reader with the archiver module's delimiter/quoting/escapechar; the time cell is only parsed. "
         "Texts with CR/LF cannot come from a one-line Mark instruction and are a separately labelled class.",
)

SPECIAL = {",": "comma", ";": "semicolon", '"': "quote", "\\": "backslash", " ": "space", "\t": "tab",
           "\r": "cr", "\n": "lf", "[": "bracket", "]": "bracket"}
ALPHABET = [",", ";", '"', "\\", " ", "a", "\t"]
NEWLINES = ["\r", "\n"]

_ROOT: str | None = None       # scratch directory (set in the parent before forking)
_ORIG_FILE = archiver_mod.__file__
_SEQ = itertools.count()


# ---------------------------------------------------------------------------
# scratch handling: ArchiverTag.__init__ creates "<dirname(module __file__)>/data"; point it at the scratch directory

def _enter_scratch() -> str:
    global _ROOT
    _ROOT = tempfile.mkdtemp(prefix="c39-")
    archiver_mod.__file__ = os.path.join(_ROOT, "archiver.py")
    return _ROOT


def _leave_scratch():
    global _ROOT
    archiver_mod.__file__ = _ORIG_FILE
    if _ROOT is not None:
        shutil.rmtree(_ROOT, ignore_errors=True)
    _ROOT = None


# ---------------------------------------------------------------------------
# one execution

def _make_tag(spec, arch):
    k = spec["kind"]
    if k == "mark":
        return MarkTag()
    if k == "archiver":
        return arch
    return Tag(spec["name"], unit=spec.get("unit"))


def _spy(tag, log):
    real = tag.archive                      # the real bound method; the spy only records what it returned

    def archive():
        v = real()
        log.append(v)
        return v
    tag.archive = archive


def run_case(case) -> dict:
    """case = {"tags": [spec...], "rows": [[action per tag]...]}
    spec: {"kind": "mark"} | {"kind": "archiver"} | {"kind": "tag", "name": str, "unit": str|None}
    action: mark -> list of texts set since the previous row; tag -> {"v": value, "sim": bool}; archiver -> None
    Returns the raw observation: header cells, data rows (without time cell), per-row values returned by archive()."""
    assert _ROOT is not None
    arch = archiver_mod.ArchiverTag(lambda: None, lambda: None, 1.0)      # type: ignore
    assert arch.data_path.startswith(_ROOT), arch.data_path
    tags = [_make_tag(s, arch) for s in case["tags"]]
    arch.tags = TagCollection(tags)
    logs: list[list] = [[] for _ in tags]
    for t, lg in zip(tags, logs):
        _spy(t, lg)
    path = os.path.join(arch.data_path, f"archiver-{os.getpid()}-{next(_SEQ)}.txt")
    arch.file_path = path
    write_error = None
    try:
        arch.prepare_tags_file()
    except Exception as e:                  # a tag name the writer cannot represent
        write_error = f"prepare_tags_file raised {type(e).__name__}: {e}"
    header_archived = [lg.pop() if lg else None for lg in logs]
    archived_rows = []
    for row in case["rows"] if write_error is None else []:
        for spec, tag, act in zip(case["tags"], tags, row):
            if spec["kind"] == "mark":
                for text in act:
                    tag.set_value(text, 1.0)
            elif spec["kind"] == "tag":
                if act.get("sim"):
                    tag.simulate_value(act["v"], 1.0)
                else:
                    if tag.simulated:
                        tag.stop_simulation()
                    tag.set_value(act["v"], 1.0)
        for lg in logs:
            lg.clear()
        arch.write_tags_row()
        archived_rows.append([lg[0] if len(lg) == 1 else ("<archive() called %d times>" % len(lg)) for lg in logs])
    if not os.path.isfile(path):
        return {"header": None, "rows": [], "times_ok": [], "header_archived": header_archived, "archived": [],
                "raw": "", "read_error": None, "write_error": write_error or "no file created"}
    with open(path, "r", newline="", encoding=archiver_mod.encoding) as f:
        raw = f.read()
    with open(path, "r", newline="", encoding=archiver_mod.encoding) as f:
        try:
            read = [list(r) for r in csv.reader(f, delimiter=archiver_mod.delimiter, quoting=archiver_mod.quoting,
                                                escapechar=archiver_mod.escapechar)]
            read_error = None
        except csv.Error as e:
            read, read_error = [], str(e)
    os.remove(path)
    times_ok = []
    for r in read[1:]:
        try:
            datetime.datetime.fromisoformat(r[0])
            times_ok.append(True)
        except (ValueError, IndexError):
            times_ok.append(False)
    return {"header": read[0] if read else None, "rows": [r[1:] for r in read[1:]], "times_ok": times_ok,
            "header_archived": header_archived, "archived": archived_rows, "raw": raw, "read_error": read_error,
            "write_error": write_error}


def _in_order(texts, cell) -> bool:
    pos = 0
    for t in texts:
        i = cell.find(t, pos)
        if i < 0:
            return False
        pos = i + len(t)
    return True


def judge(case, obs) -> list[tuple[str, str]]:
    """-> [(kind, description)]"""
    out = []
    specs = case["tags"]
    if obs["write_error"] is not None:
        return [("header-write-raised", obs["write_error"])]
    if obs["read_error"] is not None:
        return [("unreadable", f"csv reader raised {obs['read_error']}")]
    if obs["header"] is None:
        return [("no-header", "file has no header row")]
    cols = [i for i, v in enumerate(obs["header_archived"]) if v is not None]
    header = obs["header"]
    if len(header) != 1 + len(cols):
        names = [specs[i].get("name", specs[i]["kind"]) for i in cols]
        out.append(("header-columns", f"header has {len(header)} cells {header!r} for {len(cols)} archived tags {names!r}"))
    else:
        for j, i in enumerate(cols):
            nm = specs[i].get("name")
            if nm is not None and nm not in header[1 + j]:
                out.append(("header-name", f"header cell {header[1 + j]!r} does not contain tag name {nm!r}"))
    if len(obs["rows"]) != len(case["rows"]):
        out.append(("row-count", f"{len(case['rows'])} rows written, {len(obs['rows'])} data rows read back"))
    for k, (row, arc) in enumerate(zip(obs["rows"], obs["archived"])):
        exp = [v for v in arc if v is not None]
        if len(row) + 1 != len(header):
            out.append(("column-count", f"row {k}: {len(row) + 1} cells {row!r}, header has {len(header)}; archive() returned {exp!r}"))
        elif row != exp:
            j = next(j for j in range(len(exp)) if row[j] != exp[j])
            out.append(("value-changed", f"row {k}: cell {j + 1} reads {row[j]!r}, archive() returned {exp[j]!r}"))
        if k < len(obs["times_ok"]) and not obs["times_ok"][k]:
            out.append(("time-cell", f"row {k}: time cell does not parse as a datetime"))
        for i, spec in enumerate(specs):
            if spec["kind"] == "mark" and isinstance(arc[i], str) and not _in_order(case["rows"][k][i], arc[i]):
                out.append(("mark-lost", f"row {k}: marks {case['rows'][k][i]!r} not all in archived value {arc[i]!r}"))
    return out


def _valid(case) -> bool:
    nms = ["Mark" if s["kind"] == "mark" else s.get("name", "Archive filename") for s in case["tags"]]
    return (len(case["tags"]) >= 1 and len(case["rows"]) >= 1 and len(set(nms)) == len(nms)
            and all(n.strip() != "" for n in nms))


def _fails(case, kind) -> bool:
    return _valid(case) and any(k == kind for k, _ in judge(case, run_case(case)))


def _shrinks(case):
    """Candidate simplifications of a case, most drastic first (each is a complete new case)."""
    import copy
    tags, rows = case["tags"], case["rows"]
    if len(rows) > 1:
        for k in range(len(rows)):
            yield {"tags": tags, "rows": [rows[k]]}
        for k in range(len(rows)):
            yield {"tags": tags, "rows": rows[:k] + rows[k + 1:]}
    for i in range(len(tags)):
        if len(tags) > 1:
            yield {"tags": tags[:i] + tags[i + 1:], "rows": [r[:i] + r[i + 1:] for r in rows]}
    for i, spec in enumerate(tags):
        if spec["kind"] == "tag":
            if spec.get("unit") is not None:
                c = copy.deepcopy(case)
                c["tags"][i]["unit"] = None
                yield c
            nm = spec["name"]
            for j in range(len(nm)):
                c = copy.deepcopy(case)
                c["tags"][i]["name"] = nm[:j] + nm[j + 1:]
                yield c
            for j, ch in enumerate(nm):
                if ch != "a":
                    c = copy.deepcopy(case)
                    c["tags"][i]["name"] = nm[:j] + "a" + nm[j + 1:]
                    yield c
        for k, r in enumerate(rows):
            act = r[i]
            if spec["kind"] == "mark":
                for m in range(len(act)):
                    c = copy.deepcopy(case)
                    del c["rows"][k][i][m]
                    yield c
                for m, text in enumerate(act):
                    for j in range(len(text)):
                        c = copy.deepcopy(case)
                        c["rows"][k][i][m] = text[:j] + text[j + 1:]
                        yield c
            elif spec["kind"] == "tag":
                if act.get("sim"):
                    c = copy.deepcopy(case)
                    c["rows"][k][i]["sim"] = False
                    yield c
                v = act["v"]
                if v != 1:
                    c = copy.deepcopy(case)
                    c["rows"][k][i]["v"] = 1
                    yield c
                if isinstance(v, str):
                    for j in range(len(v)):
                        c = copy.deepcopy(case)
                        c["rows"][k][i]["v"] = v[:j] + v[j + 1:]
                        yield c


def shrink(case, kind):
    """Greedy 1-minimal case that still shows a problem of the same kind on the real code (deterministic)."""
    cur = case
    progress = True
    while progress:
        progress = False
        for cand in _shrinks(cur):
            if _fails(cand, kind):
                cur = cand
                progress = True
                break
    return cur


def signature(case, kind) -> str:
    """From a minimal case: which kind of cell still has to hold which special characters."""
    where, chars = set(), set()
    for i, spec in enumerate(case["tags"]):
        if spec["kind"] == "tag":
            cs = {SPECIAL[c] for c in spec["name"] if c in SPECIAL}
            if cs:
                where.add("tag-name")
                chars |= cs
        for r in case["rows"]:
            act = r[i]
            if spec["kind"] == "mark":
                cs = {SPECIAL[c] for t in act for c in t if c in SPECIAL}
                if cs:
                    where.add("mark")
                    chars |= cs
                if len(act) > 1:
                    where.add("multi-mark")
            elif spec["kind"] == "tag" and isinstance(act["v"], str):
                cs = {SPECIAL[c] for c in act["v"] if c in SPECIAL}
                if cs:
                    where.add("tag-value")
                    chars |= cs
                if act["v"] == "":
                    where.add("empty-value")
            elif spec["kind"] == "tag" and act["v"] is None:
                where.add("none-value")
        if spec["kind"] == "archiver":
            where.add("skipped-tag")
    return f"C39:{kind}:{'+'.join(sorted(where)) or 'any'}:{'+'.join(sorted(chars)) or 'plain'}"


def violations_of(case) -> list[tuple[str, str, dict]]:
    """-> [(signature, what, minimal case)] for one case (re-run on the real code)."""
    out = []
    seen = set()
    for kind, desc in judge(case, run_case(case)):
        if kind in seen:
            continue
        seen.add(kind)
        mini = shrink(case, kind)
        desc = next(d for k, d in judge(mini, run_case(mini)) if k == kind)
        out.append((signature(mini, kind), desc, mini))
    return out


# ---------------------------------------------------------------------------
# enumeration

def mark_actions(max_len: int, alphabet) -> list[list[str]]:
    """Row actions for the Mark tag: no mark, every single text up to max_len, every pair of texts of length <= 1."""
    texts = ["".join(p) for n in range(0, max_len + 1) for p in itertools.product(alphabet, repeat=n)]
    acts: list[list[str]] = [[]]
    acts += [[t] for t in texts]
    short = [""] + list(alphabet)
    acts += [[a, b] for a in short for b in short]
    return acts


def names(max_len: int) -> list[str]:
    out = []
    for n in range(1, max_len + 1):
        for p in itertools.product(ALPHABET, repeat=n):
            s = "".join(p)
            if s.strip() != "" and s != "Mark":
                out.append(s)
    return out


def tag_values(quick: bool) -> list[dict]:
    vals: list = [None, 1.5, "", ",", ";", '"', "\\", "a,b", "a\\"]
    if not quick:
        vals += [2, "a", "\t", " ", "\\,", '",', "-0.0", 1e300, -0.000004]
    out = [{"v": v, "sim": False} for v in vals]
    out += [{"v": "x,y", "sim": True}, {"v": 2.25, "sim": True}]
    return out


def build_cases(quick: bool):
    """Simplest first. Each item is (class_label, case)."""
    L = 2 if quick else 3
    L_alone = 2 if quick else 4          # the Mark-only configuration goes one character further
    acts = mark_actions(L, ALPHABET)
    acts_alone = mark_actions(L_alone, ALPHABET)
    nl_acts = [[a + n + b] for n in NEWLINES + ["\r\n"] for a in ("", "a", ",", "\\") for b in ("", "a", ",", "\\")]
    units_q = [None, "%", "L/h", "m**2"]
    units_t = units_q + ["°C", "µS/cm", "L/m2/h/bar", "vol%"]
    units = units_q if quick else units_t
    name_list = names(1) + ["a,b", "a;b", 'a"b', "a\\b", "a b", "a\tb", "a\\", ",a", "\\,", '","', "a [b]", "[", "]"] if quick else names(2) + ["a [b]", "[", "]", "a,b,c", "\\\\,"]
    name_list = list(dict.fromkeys(name_list))
    vals = tag_values(quick)
    mark = {"kind": "mark"}
    items = []
    # 1 tag: Mark alone, one file per row action (isolated rows), then one file with all actions (row interplay)
    for a in acts_alone:
        items.append(("mark-alone", {"tags": [mark], "rows": [[a]]}))
    items.append(("mark-alone-allrows", {"tags": [mark], "rows": [[a] for a in acts_alone]}))
    for a in nl_acts:
        items.append(("mark-newline", {"tags": [mark], "rows": [[a]]}))
    items.append(("mark-newline-allrows", {"tags": [mark], "rows": [[a] for a in nl_acts] + [[["a"]]]}))
    # 1 tag: a plain tag, every name x unit, rows = every value
    for nm in name_list:
        for u in units:
            items.append(("tag-alone", {"tags": [{"kind": "tag", "name": nm, "unit": u}], "rows": [[v] for v in vals]}))
    # 2 tags: Mark next to a plain tag (both orders), every name (unit None) and every unit (name 'a'),
    #         every neighbour value; rows = every mark action
    two = [(nm, None) for nm in name_list] + [("a", u) for u in units if u is not None]
    for nm, u in two:
        t = {"kind": "tag", "name": nm, "unit": u}
        for v in vals:
            for order in (0, 1):
                tags = [mark, t] if order == 0 else [t, mark]
                rows = [[a, v] if order == 0 else [v, a] for a in acts]
                items.append(("mark+tag", {"tags": tags, "rows": rows}))
    # 3 tags: tag, Mark, tag and the archiver tag itself (archive() is None -> no column) in every position
    pair_vals = [v for v in vals if v["v"] in (None, 1.5, ",", "\\", "a\\", '"', "x,y")]
    nm3 = [n for n in name_list if len(n) == 1] + ["a,b", "a\\"]
    for n1 in nm3:
        t1 = {"kind": "tag", "name": n1 + "1", "unit": "L/h"}
        t2 = {"kind": "tag", "name": n1 + "2", "unit": None}
        for v1 in pair_vals:
            for v2 in pair_vals:
                items.append(("tag+mark+tag", {"tags": [t1, mark, t2], "rows": [[v1, a, v2] for a in acts]}))
    arch = {"kind": "archiver"}
    t = {"kind": "tag", "name": "a,b", "unit": "%"}
    for pos in range(3):
        tags = [mark, t]
        tags.insert(pos, arch)
        for v in pair_vals:
            rows = []
            for a in acts:
                r = [a, v]
                r.insert(pos, None)
                rows.append(r)
            items.append(("with-archiver-tag", {"tags": tags, "rows": rows}))
    return items, dict(mark_text_max_len=L, mark_text_max_len_mark_only=L_alone, mark_actions=len(acts), mark_actions_mark_only=len(acts_alone), names=len(name_list), units=len(units), neighbour_values=len(vals))


def work(item):
    """-> (n_rows, n_cells_compared, nontrivial_keys, [(sig, what, replay)], outcomes)"""
    label, case = item
    obs = run_case(case)
    viol = []
    if judge(case, obs):
        viol = [(sig, what, {"label": label, "case": mini}) for sig, what, mini in violations_of(case)]
    nontrivial = set()
    cells = 0
    for arc in obs["archived"]:
        for spec, v in zip(case["tags"], arc):
            if v is None:
                continue
            cells += 1
            if isinstance(v, str) and any(c in SPECIAL for c in v):
                nontrivial.add(("mark" if spec["kind"] == "mark" else "value", v))
    for spec in case["tags"]:
        if spec["kind"] == "tag" and any(c in SPECIAL for c in spec["name"]):
            nontrivial.add(("name", spec["name"]))
    return len(case["rows"]), cells, sorted(nontrivial), viol, label


def _observe(item):
    label, case = item
    o = run_case(case)
    return (o["header"], o["rows"], o["archived"], judge(case, o))


def run(ctx):
    _enter_scratch()
    try:
        items, bounds = build_cases(ctx.quick)
        ctx.prove_deterministic(_observe, [items[5], items[len(items) // 2], items[-1]])
        results = ctx.pmap(work, items)
    finally:
        _leave_scratch()
    rows = cells = 0
    nontrivial = set()
    per_class: dict[str, int] = {}
    for (n, c, nt, viol, label) in results:
        rows += n
        cells += c
        nontrivial.update(map(tuple, nt))
        per_class[label] = per_class.get(label, 0) + 1
        for sig, what, rep in viol:
            ctx.violation(sig, what, rep)
    if not nontrivial or rows == 0:
        raise HarnessError("no cell with a special character was archived")
    by_kind = {k: sum(1 for x in nontrivial if x[0] == k) for k in ("mark", "value", "name")}
    ctx.coverage.update(
        evaluations=rows, files=len(items), cells_compared=cells,
        distinct_nontrivial=len(nontrivial), distinct_nontrivial_by_kind=by_kind,
        rule="one evaluation = one data row written by the real write_tags_row and read back; non-trivial = a distinct "
             "archived cell text (Mark value, tag value) or tag name containing at least one of , ; \" \\ space tab CR LF [ ]",
        samples=[items[3][1], items[len(items) // 2][1]["tags"], items[-1][1]["tags"]],
        alphabet=ALPHABET, newline_class=NEWLINES, per_class_files=per_class, exhaustive=True,
        explanation="all Mark texts up to the length bound (and all pairs of texts of length <= 1) in every tag "
                    "configuration listed in build_cases; both tiers complete their space",
        **bounds,
    )
    ctx.assumptions += [
        "reader = csv.reader with the archiver module's own delimiter/quoting/escapechar on a file opened with newline=''",
        "file path set by the harness; on_start's second-resolution file name is outside the statement",
        "Tag.archive() never switches between None and a value during a run (true for Tag, MarkTag, ArchiverTag)",
        "Mark texts with CR or LF are not reachable from a one-line Mark instruction; enumerated as a labelled extra class",
    ]


def replay(data):
    _enter_scratch()
    try:
        case = data["case"]
        obs = run_case(case)
        print("tags      :", case["tags"])
        print("raw file  :", repr(obs["raw"]))
        for k, r in enumerate(case["rows"]):
            print(f"row {k} set  :", r)
            print(f"row {k} arch :", obs["archived"][k] if k < len(obs["archived"]) else None)
            print(f"row {k} read :", obs["rows"][k] if k < len(obs["rows"]) else "<missing>")
        print("header    :", obs["header"])
        out = [(sig, what) for sig, what, _ in violations_of(case)]
        return out
    finally:
        _leave_scratch()
