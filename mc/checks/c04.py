"""C04 — Watch runs once after its condition holds; Alarm re-arms.

Stateless exhaustive exploration on the real Engine: programs with Watch/Alarm at nesting <= 2, every trajectory of the
condition tag with a bounded number of change points, and one cancel / force request for every run-log item at every
tick; judged on the runtime records (start / completion ticks of every Watch and Alarm).
"""
from __future__ import annotations

import collections
import itertools

from mc import flowcheck as fc
from mc import pgen
from mc.core import HarnessError
from mc.engine_harness import Run, apply_request

ID = "C04"
LEVEL = "model_checking"
META = dict(
    technique="stateless exhaustive exploration of (program, condition trajectory, cancel|force request at a tick) on the real Engine with a reference predicate over the recorded trajectory",
    text="Every program with a Watch or Alarm up to the size bound runs against every 0/2 trajectory of the condition tag with a "
         "bounded number of change points, alone and with one cancel or force request for every run-log item at every tick.  A "
         "Watch body must start at most once and only after a tick at/after its registration in which the condition was true, or "
         "after an accepted force; an Alarm body must complete between two starts and must start again when the condition holds "
         "for ten consecutive running ticks after a completed run; neither may start after an accepted cancel of a not yet "
         "activated Watch/Alarm or after its enclosing block has ended.",
    note="Change points from {3, 7, 12, 18}; <= 1 change point with requests, <= 2 without (thorough: 2 / 3); programs <= 3 "
         "statements (4 thorough, sub-grammar); horizon 34 ticks; the re-arm bound is deliberately loose (a re-arm cycle takes "
         "4-5 ticks).",
)

HORIZON = 34
POINTS = (3, 7, 12, 18)
KINDS = ["Wa", "Al", "K", "M", "W", "EB"]


def trajectories(max_changes):
    out = []
    for start in (0.0, 2.0):
        for k in range(max_changes + 1):
            for cps in itertools.combinations(POINTS, k):
                out.append((start, cps))
    return out


def x_at(traj, t):
    start, cps = traj
    v = start
    for c in cps:
        if t >= c:
            v = 2.0 if v == 0.0 else 0.0
    return v


def drive(lines, traj, schedule):
    run = Run(lines, observe=("runlog", "tags"))
    by = collections.defaultdict(list)
    for t, req in schedule:
        by[t].append(req)
    recs = []
    ended = {}
    for t in range(HORIZON):
        run.set_input("X", x_at(traj, t))
        for req in by.get(t, ()):
            recs.append(apply_request(run, req))
        run.tick()
        prog, nodes = fc.tree(run)
        for n in nodes:
            if type(n).__name__ == "BlockNode" and n.block_ended and n.id not in ended:
                ended[n.id] = t
    return run, recs, ended


def descendants(info, idx):
    out = []
    for j in range(idx + 1, len(info)):
        p = info[j]["parent"]
        while p is not None and p != idx:
            p = info[p]["parent"]
        if p == idx:
            out.append(j)
    return out


def judge(lines, info, traj, run: Run, recs, ended):
    probs = []
    rec = fc.record_table(run)
    cond = [x_at(traj, t) > 1 for t in range(HORIZON)]
    running = [ob["pre_state"] == "Running" and ob["state"] == "Running" for ob in run.obs]
    for ob in run.obs:
        if "tick_exception" in ob:
            probs.append(("C04:tick-raised", ob["tick_exception"]))
    if run.error_events:
        return probs, False
    nontrivial = False
    for li in info:
        if li["name"] not in ("Watch", "Alarm") or li["id"] not in rec:
            continue
        d = rec[li["id"]]
        reg = d["first_visit"]
        starts = sorted(d["started"])
        completes = sorted(t for nm, t in d["states"] if nm == "completed")
        # requests addressed to this node (by run-log item name; one Watch/Alarm per name in a program is not guaranteed,
        # so requests are matched through the node's instance ids)
        rt = run.engine.tracking.runtimeinfo
        my_iids = {st.instance_id for r in rt.records if r.node_id == li["id"] for st in r.states}
        cancels = [r["tick"] + 1 for r in recs if r.get("kind") == "cancel" and r["accepted"] and r.get("id") in my_iids]
        forces = [r["tick"] + 1 for r in recs if r.get("kind") == "force" and r["accepted"] and r.get("id") in my_iids]
        kind = li["name"]
        if starts:
            nontrivial = True
        # enclosing block ended
        p = li["parent"]
        encl_end = None
        while p is not None:
            if info[p]["name"] == "Block" and info[p]["id"] in ended:
                encl_end = ended[info[p]["id"]] if encl_end is None else min(encl_end, ended[info[p]["id"]])
            p = info[p]["parent"]
        nested_in_interrupt = fc.in_interrupt_body(info, li["idx"])
        unused_forces = sorted(forces)
        prev_start = None
        for s in starts:
            lo = max(reg, 0)
            if kind == "Alarm" and prev_start is not None and not nested_in_interrupt:
                # a re-armed Alarm needs the condition to hold again after the previous run completed (or a new force)
                done = [c for c in completes if prev_start <= c <= s]
                lo = max(lo, min(done)) if done else lo
            prev_start = s
            ever_true = any(cond[lo:s + 1])
            forced = bool(unused_forces) and unused_forces[0] <= s
            if forced and not ever_true:
                unused_forces.pop(0)                  # one force justifies one run
            if not ever_true and not forced:
                probs.append((f"C04:{kind}-body-started-without-condition",
                              f"{kind} {li['id']} registered at tick {reg} started its body at tick {s}; X trajectory {traj} was never > 1 in between and no force was accepted"))
            # "runs" = a line of the body executes.  (An Alarm that is registered in the very tick in which its block ends keeps
            # reporting started/completed in its record without ever executing a body line; the property is about the body.)
            nxt = min([x for x in starts if x > s], default=HORIZON + 1)
            body_ran = [(info[j]["id"], t_) for j in descendants(info, li["idx"]) if info[j]["id"] in rec
                        for nm, t_ in rec[info[j]["id"]]["states"] if nm == "started" and s <= t_ < nxt]
            if encl_end is not None and s > encl_end + 1 and body_ran:
                probs.append((f"C04:{kind}-body-started-after-block-ended",
                              f"{kind} {li['id']} started its body at tick {s}; its enclosing block ended at tick {encl_end}"))
            for c in cancels:
                # an *accepted* cancel must keep the body from starting afterwards (a cancel that comes too late, i.e. after the
                # condition was seen true, is rejected by the engine and then does not count as a cancel)
                # ... within the same invocation: when an enclosing Alarm has started again in between, this is a new
                # invocation of the nested Watch/Alarm, which the cancel of the earlier one does not concern
                anc_starts = []
                p_ = li["parent"]
                while p_ is not None:
                    if info[p_]["name"] == "Alarm" and info[p_]["id"] in rec:
                        anc_starts += rec[info[p_]["id"]]["started"]
                    p_ = info[p_]["parent"]
                if any(c <= a <= s for a in anc_starts):
                    continue
                if s >= c:
                    late = any(cond[lo:c]) or any(f < c for f in forces)
                    probs.append((f"C04:{kind}-body-started-after-cancel" + (":cancel-accepted-after-activation" if late else ""),
                                  f"{kind} {li['id']} cancel accepted before tick {c} but its body started at tick {s}"))
        if kind == "Watch" and not nested_in_interrupt and len(starts) > 1:
            probs.append(("C04:Watch-body-started-more-than-once", f"Watch {li['id']} started at ticks {starts}"))
        if kind == "Alarm" and not nested_in_interrupt:
            for a, b in zip(starts, starts[1:]):
                if not any(a <= c <= b for c in completes):
                    probs.append(("C04:Alarm-started-again-before-completing", f"Alarm {li['id']} started at {a} and {b} without completing in between ({completes})"))
            # every activation runs the whole body: a Mark of the body (not inside a nested Watch/Alarm, not after an
            # 'End block' that leaves the alarm's own enclosing block) appears at least once per completed run
            marks_seen = collections.Counter(run.marks())
            for bl in info:
                if bl["name"] != "Mark" or bl["idx"] <= li["idx"]:
                    continue
                chain = []
                p_ = bl["parent"]
                while p_ is not None and p_ != li["idx"]:
                    chain.append(info[p_]["name"])
                    p_ = info[p_]["parent"]
                if p_ != li["idx"] or any(nm in ("Watch", "Alarm") for nm in chain):
                    continue
                # a line that follows an End block / End blocks in the same body (at its own level or at the level of one of its
                # ancestors inside the alarm) is cut off by it and rightly never runs
                cut, n_ = False, bl
                while n_["idx"] != li["idx"]:
                    if any(sb["parent"] == n_["parent"] and sb["idx"] < n_["idx"] and sb["name"] in ("End block", "End blocks") for sb in info):
                        cut = True
                        break
                    n_ = info[n_["parent"]]
                if cut:
                    continue
                # runs recorded after the enclosing block ended execute no body line (rightly so)
                n_runs = len([c_ for c_ in completes if encl_end is None or c_ <= encl_end + 1])
                if marks_seen[bl["arg"]] < n_runs and not cancels:
                    probs.append(("C04:Alarm-run-skipped-part-of-its-body",
                                  f"Alarm {li['id']} completed {n_runs} runs (ticks {completes}) before its block ended but its body line "
                                  f"{bl['id']} 'Mark: {bl['arg']}' ran only {marks_seen[bl['arg']]} times"))
            # re-arm liveness
            for c in completes:
                window = range(c + 1, c + 11)
                if window[-1] >= HORIZON:
                    continue
                if all(cond[t] and running[t] for t in window) and not cancels and (encl_end is None or encl_end > window[-1]):
                    if not any(c < s <= window[-1] for s in starts):
                        probs.append(("C04:Alarm-not-rearmed",
                                      f"Alarm {li['id']} completed at tick {c}; the condition held and the run was Running for ticks "
                                      f"{window[0]}..{window[-1]} but the body did not start again (starts {starts})"))
    return probs, nontrivial


def explore(item):
    forest, trajs, with_requests = item
    lines = pgen.to_lines(forest)
    info = pgen.line_info(lines)
    out = []
    stats = collections.Counter()
    for traj in trajs:
        run, recs, ended = drive(lines, traj, ())
        stats["exec"] += 1
        probs, nt = judge(lines, info, traj, run, recs, ended)
        stats["nontrivial"] += 1 if nt else 0
        for s, w in probs:
            out.append((s, w, {"lines": [c for _, c in lines], "traj": [traj[0], list(traj[1])], "schedule": []}))
        items_at = [len(ob["runlog"]) if isinstance(ob["runlog"], list) else 0 for ob in run.obs]
        run.cleanup()
        if with_requests and len(traj[1]) <= 1:
            for t in range(2, HORIZON - 12):
                for k in range(items_at[t - 1]):
                    for kind in ("cancel", "force"):
                        r2, recs2, ended2 = drive(lines, traj, ((t, (kind, k)),))
                        stats["exec"] += 1
                        if recs2 and recs2[0]["accepted"]:
                            stats["accepted_requests"] += 1
                        probs, nt = judge(lines, info, traj, r2, recs2, ended2)
                        stats["nontrivial"] += 1 if nt else 0
                        for s, w in probs:
                            out.append((s, w, {"lines": [c for _, c in lines], "traj": [traj[0], list(traj[1])], "schedule": [[t, [kind, k]]]}))
                        r2.cleanup()
    seen, uniq = set(), []
    for s, w, c in out:
        if s not in seen:
            seen.add(s)
            uniq.append((s, w, c))
    return uniq, dict(stats)


def corpus(ctx):
    n = 3 if ctx.quick else 4
    fs = []
    for f in pgen.programs(KINDS, n, depth=2):
        ks = pgen.kinds_flat(f)
        if not pgen.no_empty_openers(f) or not any(k in ("Wa", "Al") for k in ks):
            continue
        # End block only directly inside a Block or inside a Watch/Alarm that sits in a Block
        fs.append(f)
    # Alarm bodies that contain a Block (with its End block): beyond the size bound of the quick tier
    M, EB = ("M", ()), ("EB", ())
    blk = ("K", (M, EB))
    for f in ((("Al", (blk,)),), (("Al", (M, blk)),), (("Al", (blk, M)),), (("Al", (("Wa", (blk,)),)),), (("K", (("Al", (blk,)), ("W", ()), EB)),)):
        if f not in fs:
            fs.append(f)
    # a Watch/Alarm of a block whose body is 'End block', followed in the same block by another Watch/Alarm (registered just
    # before / in the tick in which the block ends), optionally with a line in between or after
    W = ("W", ())
    for first in ("Wa", "Al"):
        for second in ("Wa", "Al"):
            for mid in ((), (W,), (M,)):
                for tail in ((), (W,), (W, W)):
                    f = (("K", ((first, (EB,)),) + mid + ((second, (M,)),) + tail),)
                    if f not in fs:
                        fs.append(f)
    plain = trajectories(2 if ctx.quick else 3)
    few = [tr for tr in plain if len(tr[1]) <= 1]
    items = []
    for f in fs:
        size = len(pgen.kinds_flat(f))
        with_req = size <= 2 or (not ctx.quick and size <= 3)
        items.append((f, plain, with_req))
    return items


def run(ctx):
    items = corpus(ctx)
    ctx.prove_deterministic(lambda it: explore((it[0], it[1][:3], False))[0], [items[0], items[len(items) // 2]], k=2)
    results = ctx.pmap(explore, items, chunk=1)
    tot = collections.Counter()
    for it, (viol, st) in zip(items, results):
        tot.update(st)
        for sig, what, rep in viol:
            ctx.violation(sig, what, rep)
    if tot["nontrivial"] < 200 or tot["accepted_requests"] < 50:
        raise HarnessError(f"vacuous: {dict(tot)}")
    ctx.coverage.update(
        states=tot["exec"], transitions=tot["exec"] * HORIZON, traces_validated_against_impl=tot["exec"],
        evaluations=tot["exec"], distinct_nontrivial=tot["nontrivial"], programs=len(items),
        accepted_cancel_or_force_requests=tot["accepted_requests"], trajectories=len(items[0][1]),
        rule="one execution per (program, trajectory) and per (program, trajectory with <= 1 change point, tick, run-log item, "
             "cancel|force); non-trivial = a Watch or Alarm body started in the execution",
        samples=[pgen.render(items[0][0]), pgen.render(items[len(items) // 2][0]), pgen.render(items[-1][0])],
        exhaustive=True, horizon=HORIZON)


def replay(data):
    lines = [(f"L{i}", c) for i, c in enumerate(data["lines"])]
    info = pgen.line_info(lines)
    traj = (data["traj"][0], tuple(data["traj"][1]))
    sched = tuple((t, tuple(r)) for t, r in data["schedule"])
    run, recs, ended = drive(lines, traj, sched)
    print("program:", data["lines"], "trajectory:", traj, "schedule:", sched)
    print("X > 1 per tick:", "".join("1" if x_at(traj, t) > 1 else "0" for t in range(HORIZON)))
    for r in recs:
        print("request", {k: r.get(k) for k in ("kind", "tick", "accepted", "error")}, (r.get("item") or {}).get("name"))
    for nid, d in sorted(fc.record_table(run).items()):
        print("  ", nid, d["cls"], "registered", d["first_visit"], "states", d["states"])
    print("blocks ended:", ended, "marks:", run.marks())
    probs, _ = judge(lines, info, traj, run, recs, ended)
    seen, out = set(), []
    for s, w in probs:
        if s not in seen:
            seen.add(s)
            out.append((s, w))
    return out
