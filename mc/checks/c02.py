"""C02 — Method instructions run once each, in source order.

Bounded-exhaustive program enumeration on the real Engine (no edits, no Restart); the runtime records and node flags
are compared with the untimed reference semantics (mc/refsem.py) and with per-tick invariants.
"""
from __future__ import annotations

import collections

from mc import flowcheck as fc
from mc import pgen, refsem
from mc.core import HarnessError
from mc.engine_harness import Run

ID = "C02"
LEVEL = "model_checking"
META = dict(
    technique="bounded-exhaustive program enumeration on the real Engine against a reference main-flow semantics plus per-tick node invariants",
    text="All programs up to the size bound over Block/End block/End blocks, Watch, Alarm, Macro/Call macro, Wait, thresholds, "
         "Mark, UOD commands, blank and comment lines run on the real engine for three trajectories of the condition tag; "
         "every main-body instruction must start at most once, the order of first visits must be the reference order, an "
         "instruction is first visited only after its predecessor's visit ended and its parent started, lines of Alarm and "
         "macro invocations start once per invocation (also: a body wrapped in a macro called twice / in an Alarm that fires "
         "repeatedly leaves the marks of the body run alone, repeated), and trailing blank/comment lines are never completed or passed.",
    note="A second run of the same method after Stop/Start must repeat the first (programs <= 2 statements). Programs <= 3 statements (4 thorough over a sub-grammar), nesting <= 2; the order oracle is skipped where End "
         "block(s) sits in a Watch/Alarm body (the interrupt ends the main flow's block at a time the statement does not fix); "
         "horizon 40 ticks.",
)

KINDS = ["M", "Ts", "W", "I", "L", "K", "EB", "EBS", "Wa", "Al", "MA", "CA", "b", "c"]
KINDS4 = ["M", "L", "K", "EB", "Wa", "Al", "b"]
HORIZON = 40
TRAJ = {"never": None, "from4": 4, "from12": 12}


SIMPLE = ("Mark", "Wait", "End block", "End blocks")      # (UOD commands are started by their line and complete on their own later)


def check_item(item):
    forest, traj = item
    lines = pgen.to_lines(forest)
    info = pgen.line_info(lines)
    ref = refsem.reference(lines)
    run = Run(lines, observe=("mstate",))
    probs = []
    t_true = TRAJ[traj]
    for t in range(HORIZON):
        if t_true is not None and t == t_true:
            run.set_input("X", 2.0)
        ob = run.tick()
        if "tick_exception" in ob:
            probs.append(("C02:tick-raised", ob["tick_exception"]))
        prog, nodes = fc.tree(run)
        for sig, what in fc.trailing_ws_problems(nodes, t):
            probs.append(("C02:" + sig, what))
    rec = fc.record_table(run)
    errors = bool(run.error_events)
    idx_of = {li["id"]: li["idx"] for li in info}
    # (a) at most one start per main-body instruction; once per invocation elsewhere
    for nid, d in rec.items():
        if nid not in idx_of:
            continue
        li = info[idx_of[nid]]
        if fc.in_repeating_body(info, li["idx"]) or li["name"] == "Alarm":
            multi = [i for i, c in d["by_instance"].items() if c > 1]
            if multi:
                probs.append((f"C02:started-twice-in-one-invocation:{li['name']}", f"line {nid} ({li['name']}) has {d['by_instance']} starts per invocation"))
        elif len(d["started"]) > 1:
            probs.append((f"C02:started-more-than-once:{li['name']}", f"line {nid} ({li['name']}) started at ticks {d['started']}"))
    # (b) order of first visits in the main flow == reference order
    eb_in_interrupt = any(li["name"] in ("End block", "End blocks") and fc.in_interrupt_body(info, li["idx"]) for li in info)
    calls = any(li["name"] == "Call macro" for li in info)
    nontrivial = len(ref["starts"]) >= 2
    if not eb_in_interrupt and not errors and ref["end"] in ("idle", "block-never-ended") and not calls:
        want = ref["starts"]
        visited = [nid for nid in want if nid in rec and rec[nid]["first_visit"] >= 0]
        missing = [nid for nid in want if nid not in visited]
        if missing:
            li = info[idx_of[missing[0]]]
            probs.append((f"C02:never-visited:{li['name']}:after-{info[idx_of[want[want.index(missing[0]) - 1]]]['name'] if want.index(missing[0]) else 'start'}",
                          f"reference main flow {want} but line {missing[0]} ({li['name']}) was never visited in {HORIZON} ticks; program {[c for _, c in lines]}"))
        ticks = [rec[nid]["first_visit"] for nid in visited]
        for a, b, ta, tb in zip(visited, visited[1:], ticks, ticks[1:]):
            if tb < ta:
                probs.append((f"C02:out-of-order:{info[idx_of[b]]['name']}-before-{info[idx_of[a]]['name']}",
                              f"line {b} first visited at tick {tb} before its predecessor {a} (tick {ta}); program {[c for _, c in lines]}"))
        # lines the reference says never run in the main flow (after a never-ending block, after End block in a body)
        main_ids = [li["id"] for li in info if not li["blank"] and not fc.in_interrupt_body(info, li["idx"]) and li["name"] not in ("Watch", "Alarm")]
        extra = [nid for nid in main_ids if nid not in want and nid in rec and rec[nid]["started"]]
        if extra:
            li = info[idx_of[extra[0]]]
            probs.append((f"C02:ran-although-skipped-by-reference:{li['name']}", f"line {extra[0]} started but the reference main flow is {want}; program {[c for _, c in lines]}"))
    # (c) same-level predecessor's visit ended, parent started
    for li in info:
        nid = li["id"]
        if li["blank"] or nid not in rec or rec[nid]["first_visit"] < 0:
            continue
        sibs = [s for s in info if s["parent"] == li["parent"] and s["idx"] < li["idx"] and not s["blank"]]
        if sibs and not fc.in_repeating_body(info, li["idx"]):
            prev = sibs[-1]
            pr = rec.get(prev["id"])
            if pr is None or pr["first_visit"] < 0:
                probs.append((f"C02:visited-before-predecessor:{li['name']}-after-{prev['name']}", f"line {nid} visited but its predecessor {prev['id']} never was"))
            elif prev["name"] not in ("Watch", "Alarm") and (pr["end_visit"] < 0 or pr["end_visit"] > rec[nid]["first_visit"]):
                # End block / End blocks cut the visit of everything that follows in the body; nothing follows them
                probs.append((f"C02:visited-before-predecessor-ended:{li['name']}-after-{prev['name']}",
                              f"line {nid} first visited at tick {rec[nid]['first_visit']} but the visit of {prev['id']} ended at {pr['end_visit']}"))
            if (pr is not None and pr["first_visit"] >= 0 and not errors and prev["name"] in SIMPLE
                    and not any(nm == "completed" and t_ <= rec[nid]["first_visit"] for nm, t_ in pr["states"])):
                # the predecessor is a plain instruction: it must have *completed* (not merely been left) before this line is visited
                probs.append((f"C02:visited-before-predecessor-completed:{li['name']}-after-{prev['name']}",
                              f"line {nid} first visited at tick {rec[nid]['first_visit']} but its predecessor {prev['id']} ({prev['name']}) "
                              f"never completed before that: {pr['states']}"))
        if li["parent"] is not None and info[li["parent"]]["name"] in ("Block", "Watch", "Alarm"):
            par = rec.get(info[li["parent"]]["id"])
            if par is None or not par["started"] or min(par["started"]) > rec[nid]["first_visit"]:
                probs.append((f"C02:child-before-parent-started:{info[li['parent']]['name']}",
                              f"line {nid} first visited at tick {rec[nid]['first_visit']} but its {info[li['parent']]['name']} started at {par['started'] if par else None}"))
    run.cleanup()
    seen, out = set(), []
    for sig, what in probs:
        if sig not in seen:
            seen.add(sig)
            out.append((sig, what))
    return out, nontrivial


def check_second_run(item):
    """Differential oracle over runs: Start, run to the horizon, Stop, Start again with the same inputs - the second run of the
    same method must start the same lines in the same order as the first (marks, executed lines) and must not pass trailing
    blank/comment lines either."""
    _, forest, traj = item
    lines = pgen.to_lines(forest)
    run = Run(lines, observe=("mstate",))
    t_true = TRAJ[traj]
    probs = []
    results = []
    for rno in (1, 2):
        n0 = len(run.marks())
        for t in range(HORIZON):
            if t_true is not None and t == t_true:
                run.set_input("X", 2.0)
            ob = run.tick()
            if "tick_exception" in ob:
                probs.append(("C02:tick-raised", ob["tick_exception"]))
            if rno == 2:
                prog, nodes = fc.tree(run)
                for sig, what in fc.trailing_ws_problems(nodes, t):
                    probs.append(("C02:" + sig, "second run of the same method: " + what))
        if run.error_events:
            run.cleanup()
            return [], False
        ms = run.method_state()
        results.append((run.marks()[n0:], sorted(ms["executed"]), sorted(ms["started"])))
        if rno == 1:
            run.user("Stop")
            for _ in range(3):
                run.tick()
            if run.state() != "Stopped":
                run.cleanup()
                return [], False
            run.set_input("X", 0.0)
            run.user("Start")
    run.cleanup()
    if results[0] != results[1]:
        which = "marks" if results[0][0] != results[1][0] else "executed-lines" if results[0][1] != results[1][1] else "started-lines"
        probs.append((f"C02:second-run-differs:{which}",
                      f"program {[c for _, c in lines]}: first run (marks, executed, started) {results[0]}, second run after Stop/Start {results[1]}"))
    seen, out = set(), []
    for sig, what in probs:
        if sig not in seen:
            seen.add(sig)
            out.append((sig, what))
    return out, True


REP_KINDS = ["M", "K", "EB", "W"]
REP_HORIZON = 70


def check_repetition(item):
    """Differential oracle for bodies that run repeatedly: the marks of 'Macro: A <body> / Call macro: A / Call macro: A / Mark: z'
    must be the body's own marks twice followed by z, and the marks of 'Alarm: X > 1 <body>' with X > 1 throughout must be the
    body's marks repeated (at least two rounds within the horizon): every line of the body starts once per invocation."""
    _, forest, _ = item
    body = pgen.render(forest)
    if refsem.reference(pgen.to_lines(forest))["end"] != "idle":
        return [], False
    run = Run("\n".join(body), observe=())
    for _ in range(30):
        run.tick()
    mb, bad = run.marks(), bool(run.error_events)
    run.cleanup()
    if bad or not mb:
        return [], False
    probs = []
    wraps = ["macro", "alarm"]
    if "K" not in pgen.kinds_flat(forest):
        wraps.append("macro-in-block")        # (a Block in a macro body called from inside a block stalls: known C41 finding)
    for wrap in wraps:
        if wrap == "macro":
            lines = ["Macro: A"] + ["    " + l for l in body] + ["Call macro: A", "Call macro: A", "Mark: z"]
        elif wrap == "macro-in-block":
            # first invocation inside a Block (which the body's own End block may cut short), second one at top level
            lines = (["Macro: A"] + ["    " + l for l in body]
                     + ["Block: kb", "    Call macro: A", "    Mark: in", "    End block", "Call macro: A", "Mark: z"])
        else:
            lines = ["Alarm: X > 1"] + ["    " + l for l in body]
        run = Run("\n".join(lines), observe=())
        run.set_input("X", 2.0)
        for _ in range(REP_HORIZON):
            run.tick()
        got, bad = run.marks(), bool(run.error_events)
        run.cleanup()
        if wrap == "macro":
            ok = got == mb + mb + ["z"]
            want = mb + mb + ["z"]
        elif wrap == "macro-in-block":
            want = ["..."] + mb + ["z"]
            ok = got[-(len(mb) + 1):] == mb + ["z"]
        else:
            want = (mb * (len(got) // len(mb) + 2))[:max(len(got), 2 * len(mb))]
            ok = got == want[:len(got)] and len(got) >= 2 * len(mb)
        if not ok or bad:
            has_block = "K" in pgen.kinds_flat(forest)
            probs.append((f"C02:repeated-{wrap}-body-differs-from-body-run-alone:{'with-block' if has_block else 'plain'}",
                          f"program {lines}: marks {got}; the body alone gives {mb}, so {want} was expected" + (" (run entered the error state)" if bad else "")))
    return probs, True


def corpus(ctx):
    fs = [f for f in pgen.programs(KINDS, 3, depth=2) if pgen.no_empty_openers(f)]
    if not ctx.quick:
        fs += [f for f in pgen.forests(KINDS4, 4, 2) if pgen.no_empty_openers(f)]
    items = []
    for f in fs:
        ks = pgen.kinds_flat(f)
        trajs = ["never", "from4", "from12"] if any(k in ("Wa", "Al") for k in ks) else ["never"]
        for tr in trajs:
            items.append((f, tr))
    # a macro as the last scope of the method, followed only by blank/comment lines, and called from a Watch declared earlier
    M, CA, B, C = ("M", ()), ("CA", ()), ("b", ()), ("c", ())
    for tail in ((("MA", (M, B)),), (("MA", (M, C, B)),), (("MA", (M,)), B), (("MA", (M,)), C, B)):
        for tr in ("from4", "from12"):
            items.append(((("Wa", (CA,)),) + tail, tr))
    for f in pgen.programs(REP_KINDS, 4 if ctx.quick else 5, depth=2):
        if pgen.no_empty_openers(f) and "M" in pgen.kinds_flat(f):
            items.append(("rep", f, None))
    for f in pgen.programs(KINDS, 2, depth=2):
        if pgen.no_empty_openers(f) and "Al" not in pgen.kinds_flat(f):     # an Alarm cycles: its snapshot at the horizon is a matter of phase
            ks = pgen.kinds_flat(f)
            for tr in (["never", "from4"] if any(k in ("Wa", "Al") for k in ks) else ["never"]):
                items.append(("rerun", f, tr))
    return items


def _check(item):
    if item[0] == "rerun":
        return check_second_run(item)
    return check_repetition(item) if item[0] == "rep" else check_item(item)


def watch_in_called_macro(ctx):
    """Every invocation of a macro body starts each of its lines once - also the lines of a Watch in that body, in the second and
    third call (scenario and driver shared with C41; X > 1 holds throughout)."""
    from mc.checks import c41
    n = 0
    for name in c41.WATCH_IN_MACRO:
        n += 1
        for sig, what in c41.check_watch_in_macro((name, "true")):
            ctx.violation(sig.replace("C41:", "C02:"), what, {"watch_in_macro": [name, "true"]})
    return n


def run(ctx):
    extra_execs = watch_in_called_macro(ctx)
    items = corpus(ctx)
    ctx.prove_deterministic(lambda it: _check(it)[0], [items[5], items[len(items) // 2], items[-3]], k=2)
    results = ctx.pmap(_check, items)
    nontrivial = 0
    for it, (viol, nt) in zip(items, results):
        nontrivial += 1 if nt else 0
        for sig, what in viol:
            if it[0] == "rep":
                ctx.violation(sig, what, {"rep": pgen.render(it[1])})
            elif it[0] == "rerun":
                ctx.violation(sig, what, {"rerun": pgen.render(it[1]), "traj": it[2]})
            else:
                ctx.violation(sig, what, {"lines": pgen.render(it[0]), "traj": it[1]})
    reps = sum(1 for it, (_, nt) in zip(items, results) if it[0] == "rep" and nt)
    if reps < 50:
        raise HarnessError("vacuous: repetition family")
    reruns = sum(1 for it, (_, nt) in zip(items, results) if it[0] == "rerun" and nt)
    if reruns < 50:
        raise HarnessError("vacuous: second-run family")
    plain = [it for it in items if it[0] not in ("rep", "rerun")]
    if nontrivial < 100:
        raise HarnessError("vacuous corpus")
    ctx.coverage.update(
        states=len(items) * HORIZON, transitions=len(items) * HORIZON, traces_validated_against_impl=len(items),
        evaluations=len(items), distinct_nontrivial=nontrivial, programs=len({pgen.text(i[0]) for i in plain}),
        repeated_bodies=reps, second_runs=reruns,
        rule="every program up to the size bound x condition trajectory {never, true from tick 4, true from tick 12}; "
             "non-trivial = the reference main flow has at least two instructions; plus every terminating body over "
             f"{REP_KINDS} up to the size bound wrapped in a macro called twice and in an Alarm whose condition stays true "
             "(marks compared with the body run alone); plus every program up to 2 statements run twice (Stop, Start) with the "
             "second run compared with the first",
        samples=[pgen.render(plain[10][0]), pgen.render(plain[len(plain) // 2][0]), pgen.render(plain[-1][0])],
        exhaustive=True, horizon=HORIZON)


def replay(data):
    if "watch_in_macro" in data:
        from mc.checks import c41
        out = [(sig.replace("C41:", "C02:"), what) for sig, what in c41.check_watch_in_macro(tuple(data["watch_in_macro"]))]
        print("program:", c41.WATCH_IN_MACRO[data["watch_in_macro"][0]], "X > 1 throughout ->", out or "as expected")
        return out
    if "rerun" in data:
        f = _forest(data["rerun"])
        print("program:", data["rerun"], "trajectory:", data["traj"])
        viol, _ = check_second_run(("rerun", f, data["traj"]))
        for _, w in viol:
            print(w)
        return viol
    if "rep" in data:
        f = _forest(data["rep"])
        print("body:", data["rep"])
        viol, _ = check_repetition(("rep", f, None))
        for _, w in viol:
            print(w)
        return viol
    lines = data["lines"]
    f = _forest(lines)
    viol, _ = check_item((f, data["traj"]))
    ll = [(f"L{i}", c) for i, c in enumerate(lines)]
    print("program:")
    for i, c in enumerate(lines):
        print(f"  L{i}: {c!r}")
    print("reference:", refsem.reference(ll))
    run = Run(ll, observe=("mstate",))
    for t in range(HORIZON):
        if TRAJ[data["traj"]] is not None and t == TRAJ[data["traj"]]:
            run.set_input("X", 2.0)
        run.tick()
    for nid, d in sorted(fc.record_table(run).items()):
        print("  ", nid, d["cls"], "first visit", d["first_visit"], "end", d["end_visit"], "started", d["started"])
    return viol


def _forest(lines):
    """Rebuild the forest of kind codes from rendered lines."""
    def kind_of(s):
        s = s.strip()
        best = None
        for k, t in pgen.TEMPLATES.items():
            head = t.split("{")[0]
            if t == s or ("{" in t and s.startswith(head)):
                if best is None or len(head) > len(pgen.TEMPLATES[best].split("{")[0]):
                    best = k
        if best is None:
            raise ValueError(s)
        return best
    items = [(len(l) - len(l.lstrip(" ")), kind_of(l) if l.strip() else "b") for l in lines]

    def build(i, indent):
        out = []
        while i < len(items) and items[i][0] >= indent:
            if items[i][0] > indent:
                break
            k = items[i][1]
            ch, j = build(i + 1, indent + 4) if k in pgen.OPENERS else ([], i + 1)
            out.append((k, tuple(ch)))
            i = j
        return out, i
    f, _ = build(0, 0)
    return tuple(f)
