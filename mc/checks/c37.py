"""C37 — Active-user list tracks live connections.

Explicit-state BFS over event histories applied to the real objects: `FrontendPublisher` (real `PubSubEndpoint`),
`Aggregator`/`FromFrontend`, real `RpcChannel`s of fastapi_websocket_rpc with a dummy socket, and the real REST route
functions `register_active_user` / `unregister_active_user`.  Nothing is mocked between the websocket layer and
`engine_data.active_users`; only the socket, the engine dispatcher and the web-push publisher are dummies (unused here).

Events
  connect(c,u)     the pub/sub RPC method `subscribe(["dead_man_switch/<u>", ...])` on a new channel c — this is how a
                   websocket connection gets associated with a user id (frontend: app.effects subscribeDeadManSwitch)
  disconnect(c)    `RpcChannel.on_disconnect()` with the endpoint's real disconnect handlers registered
                   (PubSubEndpoint.on_disconnect, FrontendPublisher.on_disconnect -> FromFrontend.on_ws_disconnect)
  register(u,e)    REST route function, only for users that have a live connection (frontend behaviour)
  unregister(u,e)  REST route function, any time

Oracle (reference model in plain Python, from the statement): u is listed on e  <=>  u registered on e since its last
unregister there AND u has had >= 1 live connection ever since; when the last live connection of u closes, u is
registered nowhere.  Checked after every transition; a state that already shows a discrepancy is not expanded further
(so every reported signature is the *first* deviation on its history).

Part B (deviation-bounded, one environment event): the handling of the disconnect of a user's only connection is run one
loop callback at a time while another frontend is subscribed to the active-users topics through a slow or a broken socket,
and a new engine registers after every possible number of callbacks; afterwards the user must be listed nowhere and the
handling must not have raised.
"""
from __future__ import annotations

import logging
from unittest.mock import Mock

from mc import explore
from mc.core import HarnessError
from mc.vloop import VirtualLoop

ID = "C37"
LEVEL = "model_checking"
META = dict(
    technique="explicit-state BFS over connect/register/unregister/disconnect histories on the real FromFrontend + pub/sub endpoint",
    text="Every history (up to the depth bound) of websocket subscriptions, active-user registrations and disconnects for "
         "2 users, 3 (thorough: 4) connections and 2 units is replayed on fresh real objects; after each event engine_data.active_users "
         "of every unit is compared with a reference model of 'registered there and still has a live connection'. "
         "Connections are never reused, so the state space is finite and the BFS is exhaustive within the bound.",
    note="Connection ids are opaque, so only the lowest unused id may connect next (symmetry). Register is issued only for "
         "users with a live connection. One dead-man-switch subscription per connection. Socket, engine dispatcher and "
         "web-push publisher are dummies that these code paths never call.",
)

USERS = ("u1", "u2")
CONNS = ("c1", "c2", "c3")             # quick; thorough uses c1..c4 (set in run(), recorded in the replay payload)
UNITS = ("E1", "E2")


class Sys:
    def __init__(self, conns=CONNS):
        logging.disable(logging.CRITICAL)
        self.conns = tuple(conns)
        from fastapi_websocket_rpc.rpc_channel import RpcChannel
        import openpectus.aggregator.models as Mdl
        from openpectus.aggregator.aggregator import Aggregator
        from openpectus.aggregator.frontend_publisher import FrontendPublisher
        import openpectus.aggregator.routers.process_unit as pu
        self._RpcChannel = RpcChannel
        self._pu = pu
        self.loop = VirtualLoop()
        self.pub = FrontendPublisher()
        self.agg = Aggregator(Mock(name="dispatcher"), self.pub, Mock(name="webpush"))
        for e in UNITS:
            self.agg._engine_data_map[e] = Mdl.EngineData(
                engine_id=e, computer_name="pc", engine_version="0", uod_name="uod", uod_author_name="", uod_author_email="",
                uod_filename="", location="")
        self.endpoint = self.pub.pubsub_endpoint.endpoint
        self.channels: dict[str, object] = {}
        # reference model
        self.status: dict[str, tuple] = {c: ("fresh", None) for c in self.conns}
        self.registered: dict[str, set] = {e: set() for e in UNITS}
        self.closed_count: dict[str, int] = {u: 0 for u in USERS}
        self.obs: list[dict] = []
        self.bad = False               # a discrepancy has been observed in this history

    # -- helpers ------------------------------------------------------------------------------------------
    def live_users(self):
        return {u for st, u in self.status.values() if st == "live"}

    def listed(self):
        return {e: set(self.agg._engine_data_map[e].active_users.keys()) for e in UNITS}

    def _run(self, coro):
        with self.loop:
            r = self.loop.run_until(coro)
            self.loop.drain()          # publish_* tasks created by the call
        return r

    def apply(self, ev) -> dict:
        kind = ev[0]
        rec = {"ev": list(ev), "raised": None, "ret": None}
        try:
            if kind == "connect":
                _, c, u = ev
                ch = self._RpcChannel(self.endpoint.methods, Mock(name="socket"), channel_id=c)
                ch.register_disconnect_handler(self.endpoint._on_disconnect)
                self.channels[c] = ch
                # one subscribe call with several topics; every second connection lists the dead-man-switch topic last
                topics = [f"dead_man_switch/{u}", "process_units"]
                if int(c[1:]) % 2 == 0:
                    topics.reverse()
                rec["ret"] = self._run(ch.methods.subscribe(topics=topics))
                self.status[c] = ("live", u)
            elif kind == "disconnect":
                _, c = ev
                u = self.status[c][1]
                self.status[c] = ("closed", u)
                rec["closed_before"] = self.closed_count[u]
                self.closed_count[u] += 1
                if u not in self.live_users():
                    for e in UNITS:
                        self.registered[e].discard(u)
                self._run(self.channels[c].on_disconnect())
            elif kind == "register":
                _, u, e = ev
                self.registered[e].add(u)
                r = self._run(self._pu.register_active_user(user_id_from_token=None, user_name=u.upper(), user_roles=set(),
                                                            unit_id=e, user_id=u, agg=self.agg))
                rec["ret"] = type(r).__name__
            elif kind == "unregister":
                _, u, e = ev
                self.registered[e].discard(u)
                r = self._run(self._pu.unregister_active_user(user_id_from_token=None, user_roles=set(), unit_id=e,
                                                              user_id=u, agg=self.agg))
                rec["ret"] = type(r).__name__
            else:
                raise ValueError(ev)
        except Exception as ex:            # noqa: BLE001 - reported as an observation
            rec["raised"] = f"{type(ex).__name__}: {ex}"[:120]
        listed = self.listed()
        rec["listed"] = {e: sorted(v) for e, v in listed.items()}
        rec["expected"] = {e: sorted(v) for e, v in self.registered.items()}
        rec["live"] = sorted(self.live_users())
        rec["deadman_map"] = dict(sorted(self.agg.from_frontend.dead_man_switch_user_ids.items()))
        rec["loop_exceptions"] = len(self.loop.exceptions)
        if listed != self.registered or rec["raised"] or self.loop.exceptions:
            self.bad = True
        self.obs.append(rec)
        return rec

    def close(self):
        self.loop.shutdown()


def build(hist, conns=CONNS) -> Sys:
    s = Sys(conns)
    for ev in hist:
        s.apply(tuple(ev))
    return s


def step(s: Sys, ev) -> Sys:
    s.apply(ev)
    return s


def enabled(s: Sys, hist):
    if s.bad:
        return ()
    evs = []
    fresh = [c for c in s.conns if s.status[c][0] == "fresh"]
    if fresh:
        evs += [("connect", fresh[0], u) for u in USERS]          # connection ids are opaque: lowest unused id only
    evs += [("disconnect", c) for c in s.conns if s.status[c][0] == "live"]
    live = s.live_users()
    evs += [("register", u, e) for u in USERS if u in live for e in UNITS]
    evs += [("unregister", u, e) for u in USERS for e in UNITS]
    return evs


def canon(s: Sys):
    return (
        tuple(s.status[c] for c in s.conns),
        tuple(sorted(s.agg.from_frontend.dead_man_switch_user_ids.items())),
        tuple(tuple(sorted(s.agg._engine_data_map[e].active_users)) for e in UNITS),
        tuple(tuple(sorted(s.registered[e])) for e in UNITS),
        tuple(sorted((t, tuple(sorted(subs))) for t, subs in s.pub.pubsub_endpoint.notifier._topics.items() if subs)),
        s.bad,
    )


def check_record(rec) -> list[tuple[str, str]]:
    out = []
    kind = rec["ev"][0]
    if rec["raised"]:
        out.append((f"C37:event-raised:{kind}:{rec['raised'].split(':')[0]}", f"event {rec['ev']} raised {rec['raised']}"))
    if rec["loop_exceptions"]:
        out.append((f"C37:background-task-raised:{kind}", f"a task spawned by event {rec['ev']} raised"))
    live = set(rec["live"])
    for e in sorted(rec["listed"]):
        listed, expected = set(rec["listed"][e]), set(rec["expected"][e])
        for u in sorted(listed - expected):
            if u not in live:
                extra = ""
                if kind == "disconnect":
                    extra = ":user-had-closed-connections-before=" + ("0" if rec.get("closed_before", 0) == 0 else "1+")
                out.append((f"C37:listed-without-live-connection:after={kind}{extra}",
                            f"after {rec['ev']} user {u} has no live connection but is still listed as active on {e} "
                            f"(listed={rec['listed']}, live users={rec['live']}, connection->user map={rec['deadman_map']})"))
            else:
                out.append((f"C37:listed-but-not-registered:after={kind}",
                            f"after {rec['ev']} user {u} is listed on {e} without being registered there "
                            f"(listed={rec['listed']}, expected={rec['expected']})"))
        for u in sorted(expected - listed):
            out.append((f"C37:dropped-while-registered-and-live:after={kind}",
                        f"after {rec['ev']} user {u} is registered on {e} and has a live connection but is not listed "
                        f"(listed={rec['listed']}, expected={rec['expected']}, live users={rec['live']})"))
    return out


# ---------------------------------------------------------------------------------------------------------------------
# part B: the last connection closes while other things happen (the handling of one disconnect explored step by step)

class _WatcherSocket:
    """socket of another frontend that subscribed to the active-users topics: sending to it takes a loop iteration ('slow', it
    never answers the notification) or fails ('broken')"""

    def __init__(self, mode):
        self.mode = mode

    async def send(self, msg):
        import asyncio
        if self.mode == "broken":
            raise ConnectionError("websocket of a subscriber is broken")
        await asyncio.sleep(0)

    async def close(self, *a):
        pass


def disconnect_stepwise(case):
    """case = dict(units=[units u1 is registered on], mode=slow|broken, env=None|"engine-registers", k=loop steps of the disconnect
    handling after which the environment event lands).  -> observation"""
    import openpectus.aggregator.models as Mdl
    s = Sys()
    s.apply(("connect", "c1", "u1"))
    for e in case["units"]:
        s.apply(("register", "u1", e))
    ch = s._RpcChannel(s.endpoint.methods, _WatcherSocket(case["mode"]), channel_id="watcher")
    ch.register_disconnect_handler(s.endpoint._on_disconnect)
    with s.loop:
        s.loop.run_until(ch.methods.subscribe(topics=[f"{e}/active_users" for e in UNITS]))
        s.loop.drain()
        task = s.loop.spawn(s.channels["c1"].on_disconnect(), name="disconnect")
        n = 0
        while True:
            if n == case["k"] and case["env"] == "engine-registers":
                s.agg._engine_data_map["E3"] = Mdl.EngineData(
                    engine_id="E3", computer_name="pc", engine_version="0", uod_name="uod", uod_author_name="",
                    uod_author_email="", uod_filename="", location="")
            if not s.loop.step():
                break
            n += 1
    raised = None
    if task.done() and not task.cancelled() and task.exception() is not None:
        raised = f"{type(task.exception()).__name__}: {task.exception()}"[:100]
    obs = {"steps": n, "listed": {e: sorted(v) for e, v in s.listed().items()}, "handler_finished": task.done(), "raised": raised}
    s.close()
    return obs


def check_stepwise(case, obs):
    out = []
    tag = f"{case['mode']}-subscriber" + (f":{case['env']}" if case["env"] else "")
    stale = {e: v for e, v in obs["listed"].items() if "u1" in v}
    if stale:
        out.append((f"C37:listed-without-live-connection:while-handling-disconnect:{tag}",
                    f"u1's only connection closed (registered on {case['units']}, another frontend subscribed to the active-users topics "
                    f"with a {case['mode']} socket" + (f", {case['env']} after {case['k']} loop steps" if case["env"] else "") +
                    f") but u1 is still listed: {obs['listed']} (handler finished: {obs['handler_finished']}, raised: {obs['raised']})"))
    if obs["raised"]:
        out.append((f"C37:disconnect-handling-raised:{obs['raised'].split(':')[0]}:{tag}", f"handling the disconnect raised {obs['raised']} for {case}"))
    return out


def stepwise_cases():
    out = []
    for units in (["E1", "E2"], ["E2"], ["E1"]):
        for mode in ("slow", "broken"):
            out.append(dict(units=units, mode=mode, env=None, k=0))
            for k in range(0, 26):
                out.append(dict(units=units, mode=mode, env="engine-registers", k=k))
    return out


def _obs_of(hist):
    return build(hist).obs


def run(ctx):
    depth = 6 if ctx.quick else 12
    conns = CONNS if ctx.quick else CONNS + ("c4",)
    lead = (("connect", "c1", "u1"), ("disconnect", "c1"), ("connect", "c2", "u1"), ("register", "u1", "E1"), ("disconnect", "c2"))
    ctx.prove_deterministic(_obs_of, [lead, (("connect", "c1", "u2"), ("register", "u2", "E2"), ("unregister", "u2", "E2")),
                                      (("connect", "c1", "u1"), ("connect", "c2", "u1"), ("register", "u1", "E1"), ("disconnect", "c1"))])
    stats = {"nontrivial": set(), "kinds": {}, "viol_transitions": 0, "removed_by_disconnect": 0, "kept_by_other_conn": 0}

    def on_tr(hist, ev, nxt):
        rec = nxt.obs[-1]
        stats["kinds"][ev[0]] = stats["kinds"].get(ev[0], 0) + 1
        found = check_record(rec)
        if found:
            stats["viol_transitions"] += 1
        for sig, what in found:
            ctx.violation(sig, what, {"conns": list(conns), "history": [list(e) for e in hist] + [list(ev)]})
        if ev[0] == "disconnect":
            u = nxt.status[ev[1]][1]
            was_listed = len(nxt.obs) >= 2 and any(u in v for v in nxt.obs[-2]["listed"].values())
            if was_listed:
                # non-trivial: a disconnect of a user who was listed somewhere (the dead-man switch had to decide)
                stats["nontrivial"].add(canon(nxt))
                if u in nxt.live_users():
                    stats["kept_by_other_conn"] += 1
                else:
                    stats["removed_by_disconnect"] += 1

    res = explore.bfs(lambda h: build(h, conns), enabled, canon, on_tr, depth, step=step)
    # part B
    sw = stepwise_cases()
    ctx.prove_deterministic(disconnect_stepwise, [sw[1], sw[-1]])
    sw_steps = 0
    sw_landed = 0
    for case in sw:
        obs = disconnect_stepwise(case)
        sw_steps += obs["steps"]
        sw_landed += 1 if case["env"] and case["k"] < obs["steps"] else 0
        for sig, what in check_stepwise(case, obs):
            ctx.violation(sig, what, {"stepwise": case})
    if sw_landed < 20:
        raise HarnessError("C37 part B vacuous: the environment event never landed inside the handling of the disconnect")
    if not stats["removed_by_disconnect"] or not stats["kept_by_other_conn"]:
        raise HarnessError("C37 vacuous: no disconnect of a listed user with / without another live connection was explored")
    ctx.note(f"[C37] depth={depth} states={res.states} transitions={res.transitions} max_depth={res.max_depth} "
             f"cut_at_bound={res.frontier_at_bound} closed={res.complete} violating_transitions={stats['viol_transitions']}")
    ctx.coverage.update(
        states=res.states, transitions=res.transitions, traces_validated_against_impl=res.transitions,
        evaluations=res.transitions, distinct_nontrivial=len(stats["nontrivial"]),
        rule="BFS over all event histories up to the depth bound, canonical (implementation + reference) states deduplicated, "
             "violating states not expanded; non-trivial = distinct state reached by disconnecting a connection of a user who "
             "was listed as active on some unit",
        samples=[[list(e) for e in h] for h in res.histories[-3:]] + [[list(e) for e in lead]],
        depth=depth, users=list(USERS), connections=list(conns), units=list(UNITS), events_by_kind=stats["kinds"],
        disconnects_of_listed_user_last_connection=stats["removed_by_disconnect"],
        disconnects_of_listed_user_other_connection_live=stats["kept_by_other_conn"],
        violating_transitions=stats["viol_transitions"], state_space_closed=res.complete, exhaustive=True,
        stepwise_disconnect_cases=len(sw), stepwise_loop_steps=sw_steps, stepwise_cases_with_the_event_inside_the_handling=sw_landed,
        stepwise_rule="part B: the only connection of a user registered on {E1,E2}/{E2}/{E1} closes while another frontend is subscribed "
                      "to the active-users topics with a slow (suspending, never answering) or broken socket; the handling is run one "
                      "loop callback at a time and a new engine registers after every possible number k of callbacks (and never)",
        explanation="exhaustive up to the depth bound: every enabled event applied in every canonical state of depth < bound "
                    "(state_space_closed=True means no state at the bound had successors left, i.e. the whole finite space was covered)",
    )
    ctx.assumptions += [
        "a connection id is used once (channel ids are fresh UUIDs in fastapi_websocket_rpc)",
        "each connection subscribes to exactly one dead_man_switch/<user> topic, at connect time, in one call together with another topic (first or last in the list)",
        "register_active_user is only issued for a user with a live connection (frontend behaviour); REST calls carry user_id "
        "as query parameter (auth disabled), as the frontend does without Azure auth",
        "'listed' is read from engine_data.active_users, the source of GET /process_unit/{id}/active_users",
    ]


def replay(data):
    if "stepwise" in data:
        obs = disconnect_stepwise(data["stepwise"])
        print("case:", data["stepwise"], "->", obs)
        return check_stepwise(data["stepwise"], obs)
    s = Sys(data.get("conns", CONNS))
    out = []
    for ev in data["history"]:
        rec = s.apply(tuple(ev))
        print(f"{str(tuple(rec['ev'])):34} listed={rec['listed']} expected={rec['expected']} live={rec['live']} "
              f"conn->user map={rec['deadman_map']}" + (f" RAISED {rec['raised']}" if rec["raised"] else ""))
        out += check_record(rec)
    s.close()
    return out
