"""C13 — Engine ticks never crash; method errors pause the run.

Bounded-exhaustive input enumeration on the real Engine: every method of <= n lines over a hostile line alphabet,
every injected snippet from the same alphabet at every early tick, and one control command at every tick.
"""
from __future__ import annotations

import collections
import itertools

from mc.core import HarnessError
from mc.engine_harness import Run, execute

ID = "C13"
LEVEL = "model_checking"
META = dict(
    technique="bounded-exhaustive enumeration of hostile method texts, injected snippets and control-command ticks on the real Engine",
    text="All methods of <= 2 lines over a 60-line hostile alphabet (and 3 lines over a sub-alphabet), every snippet of the "
         "alphabet injected at every early tick, and one control command at every tick are executed on the real engine; "
         "Engine.tick must never raise, an error state must be Paused/Error with the failing line reported as failed, and from "
         "every error state both Stop and 'correct the failing line + Unpause' must work.",
    note="Hardware and UOD callbacks answer inside their declared domains (the only raising callback is the UOD command Boom, "
         "a declared failure); horizon 14-16 ticks.",
)

ALPHABET = [
    "Mark: ok", "Bogus", "Bogus: 1", "Mark", "Mark:", ":", ": x", "Watch", "Watch: ", "Watch: X", "Watch: X >",
    "Watch: Nope > 1", "Watch: X > 1 kg", "Watch: X > abc", "Alarm: X > abc", "Alarm: Nope < 1", "Simulate: Nope = 1",
    "Simulate: X", "Simulate: X = 1 kg", "Simulate off: Nope", "Simulate off", "Base: xyz", "Base", "Base: L",
    "Call macro: Nope", "Call macro", "End block", "End blocks", "Wait", "Wait: 1", "Wait: abc", "Wait: -1s", "1.5",
    "0.1 ", "abc Mark: t", "    Mark: indented", "\tMark: tab", "Mårk: ü", "Run counter: x", "Run counter: 3",
    "Increment run counter: 3", "Long", "Long: -1", "Long: x", "Dose: 1", "Dose: 1 kg", "Valve: Ajar", "SetOut: abc",
    "Boom: 1", "Boom: 2", "Pause: x", "Hold: -1s", "Stop: now", "Restart: 1", "Info", "Macro", "Macro: ", "Block",
    "Batch", "Notify", "Noop: x", "Watch: X > 1", "Block: b",
]
SUB = ["Mark: ok", "Bogus", "Watch: Nope > 1", "Watch: X > 1", "    Mark: indented", "Block: b", "End block", "Base: xyz",
       "Boom: 1", "Call macro: Nope", "Wait: 1", "Macro: "]
HORIZON = 14


def tick_problems(run: Run, from_tick=0):
    """C13 monitor over the observations of one run."""
    probs = []
    for ob in run.obs[from_tick:]:
        if "tick_exception" in ob:
            probs.append(("C13:tick-raised:" + ob["tick_exception"].split(":")[0],
                          f"Engine.tick raised at tick {ob['n']}: {ob['tick_exception']}"))
    return probs


def error_entry_problems(run: Run, lines, injected: bool):
    """At the tick in which the engine enters the error state: Paused + Method Status Error (+ failed line reported).
    Ticks with a user control command in flight (requested up to 3 ticks earlier) are exempt from the Paused rule:
    the command manager runs after the interpreter in the same tick and may legitimately change the state again."""
    probs = []
    req_ticks = [r["tick"] + 1 for r in run.requests if r.get("kind") == "user" and r["tick"] >= 0]
    for (tick, exname, msg) in run.error_events:
        if tick < 0 or tick >= len(run.obs):
            continue
        ob = run.obs[tick]
        if not ob["flags"]["started"]:
            continue
        in_flight = any(0 <= tick - rt <= 3 for rt in req_ticks)
        if str(ob["tags"]["Method Status"]) != "Error":
            probs.append(("C13:error-state-without-method-status-error", f"error state entered at tick {tick} ({exname}) but Method Status is {ob['tags']['Method Status']}"))
        if ob["state"] != "Paused" and not in_flight:
            probs.append((f"C13:error-not-paused:{ob['state']}", f"error state entered at tick {tick} ({exname}: {msg}) but System State is {ob['state']}"))
        if not injected and not in_flight and not ob["mstate"]["failed"]:
            started = [i for i in ob["mstate"]["started"] if i != "root"]
            instr = ""
            for lid in started:
                idx = int(lid[1:]) if lid[1:].isdigit() else None
                if idx is not None and idx < len(lines):
                    instr = lines[idx].strip().split(":")[0]
            probs.append((f"C13:failed-line-not-marked:{instr}",
                          f"error state entered at tick {tick} ({exname}: {msg}) but no line is reported failed (started: {started})"))
    return probs


def failed_line_problems(run: Run):
    """The other direction: a line reported as failed means the run is paused with Method Status Error (at the tick the line
    is first reported failed, or the next one), whatever path reported the failure."""
    probs = []
    seen = set()
    req_ticks = [r["tick"] + 1 for r in run.requests if r.get("kind") == "user" and r["tick"] >= 0]
    for k, ob in enumerate(run.obs):
        new = [x for x in ob["mstate"]["failed"] if x not in seen]
        seen.update(new)
        if not new or not ob["flags"]["started"] or any(0 <= k - rt <= 3 for rt in req_ticks):
            continue
        later = run.obs[min(k + 1, len(run.obs) - 1)]
        if not later["flags"]["started"]:
            continue
        def ok(o):
            return str(o["tags"]["Method Status"]) == "Error" and o["state"] == "Paused"
        if not ok(ob) and not ok(later) and not any(k + 1 == rt for rt in req_ticks):
            probs.append(("C13:failed-line-without-error-pause",
                          f"line(s) {new} reported failed at tick {k} but one tick later System State is {later['state']} and Method "
                          f"Status {later['tags']['Method Status']}"))
    return probs


UNPAUSES = tuple((t, ("user", "Unpause")) for t in (5, 7, 9, 11))


def run_program(lines, schedule=(), horizon=HORIZON):
    return execute("\n".join(lines), schedule=schedule, horizon=horizon, observe=("tags", "mstate"),
                   inputs={2: {"In1": 2.0}})


def check_program(item):
    """item = (lines, schedule). Runs the program; if it ends in an error state also runs the two continuations."""
    lines, schedule = item
    out = []
    stats = {"error": False, "runs": 1, "failed_line": False}
    try:
        run = run_program(lines, schedule)
    except Exception as ex:   # building/setting the method must not blow up either; reported separately
        return [("C13:setup-raised:" + type(ex).__name__, f"setting method {lines!r} raised {type(ex).__name__}: {ex}")], stats
    injected = any(r[0] == "inject" for _, r in schedule)
    out += tick_problems(run)
    out += error_entry_problems(run, lines, injected)
    out += failed_line_problems(run)
    if schedule == UNPAUSES and len(lines) == 2:
        # the user resumes after the first failure without editing: when the run reaches the second line and that line fails
        # (it does when it is the whole method), it must be reported failed too - not left 'started'
        ms = run.obs[-1]["mstate"]
        if "L1" in ms["started"] and "L1" not in ms["failed"] and run.obs[-1]["flags"]["started"]:
            alone = run_program([lines[1]])
            stats["runs"] += 1
            if "L0" in alone.obs[-1]["mstate"]["failed"]:
                out.append(("C13:second-failing-line-not-marked:" + lines[1].strip().split(":")[0],
                            f"{lines!r} with Unpause at ticks 5,7,9,11: line 2 started and (alone it fails) is not reported failed: {ms}; "
                            f"error events {[(t, n) for t, n, _ in run.error_events]}"))
            alone.cleanup()
        stats["second_failed"] = "L1" in ms["failed"]
    last = run.obs[-1]
    # (a Restart or Stop that is still in progress at the horizon is not a settled error pause: what a further Stop does then
    # is C08's business)
    if run.engine.has_error_state() and last["flags"]["started"] and last["flags"]["paused"] and last["state"] == "Paused":
        stats["error"] = True
        failed = last["mstate"]["failed"]
        stats["failed_line"] = bool(failed)
        # continuation 1: Stop must reach Stopped
        r1 = run_program(lines, list(schedule) + [(HORIZON, ("user", "Stop"))], HORIZON + 4)
        stats["runs"] += 1
        out += tick_problems(r1, HORIZON)
        if r1.state() != "Stopped":
            out.append(("C13:stop-after-error-ignored", f"Stop after the error of {lines!r} did not reach Stopped within 4 ticks (state {r1.state()})"))
        r1.cleanup()
        # continuation 2: correct the failed line(s), Unpause (and Unhold if the run is on hold) -> the corrected line runs
        if failed and not injected:
            fixed = [(f"L{i}", (f"Mark: fixed{i}" if f"L{i}" in failed else c)) for i, c in enumerate(lines)]
            r2 = run_program(lines, schedule, HORIZON)
            stats["runs"] += 1
            edit_rec = r2.set_method(fixed)
            r2.user("Unpause")
            for k in range(16):
                r2.tick()
                if r2.flags()["holding"] and k == 1:
                    r2.user("Unhold")
            out += tick_problems(r2, HORIZON)
            if not edit_rec["accepted"]:
                out.append(("C13:corrected-method-rejected:" + str(edit_rec["error"]), f"correcting failed line(s) {failed} of {lines!r} was rejected: {edit_rec.get('msg')}"))
            else:
                want = [f"fixed{i}" for i, _ in enumerate(lines) if f"L{i}" in failed]
                new_error = any(t >= HORIZON for t, _, _ in r2.error_events)
                if not new_error and want[0] not in r2.marks() and r2.flags()["started"]:
                    out.append(("C13:corrected-method-does-not-continue",
                                f"after correcting {failed} of {lines!r} and Unpause the corrected line never ran (marks {r2.marks()}, state {r2.state()})"))
            r2.cleanup()
    run.cleanup()
    return out, stats


def corpus(ctx):
    items = []
    for n in (1, 2):
        for seq in itertools.product(ALPHABET, repeat=n):
            items.append((list(seq), ()))
    for seq in itertools.product(SUB, repeat=3):
        items.append((list(seq), ()))
    # two lines, the user resumes (Unpause, no edit) after every error pause
    for seq in itertools.product(ALPHABET, repeat=2):
        items.append((list(seq), UNPAUSES))
    # injected snippets into a waiting run, at every early tick
    for code in ALPHABET:
        for t in range(1, 6):
            items.append((["Wait: 5s", "Mark: end"], ((t, ("inject", code)),)))
    # one control command at every tick of every single-line method
    ticks = range(0, HORIZON) if not ctx.quick else range(0, 8)
    for line in ALPHABET:
        for cmd in ("Stop", "Pause", "Hold", "Restart", "Unpause"):
            for t in ticks:
                items.append(([line], ((t, ("user", cmd)),)))
    if not ctx.quick:
        for seq in itertools.product(ALPHABET[:30], repeat=3):
            items.append((list(seq), ()))
        for a, b in itertools.product(SUB, repeat=2):
            for cmd in ("Stop", "Pause", "Restart"):
                for t in range(0, HORIZON):
                    items.append(([a, b], ((t, ("user", cmd)),)))
    return items


def run(ctx):
    items = corpus(ctx)
    ctx.prove_deterministic(lambda it: check_program(it)[0], [items[1], items[70], items[-1]])
    results = ctx.pmap(check_program, items)
    runs = errors = withfailed = second = 0
    outcomes = collections.Counter()
    for it, (viol, st) in zip(items, results):
        runs += st["runs"]
        errors += 1 if st["error"] else 0
        withfailed += 1 if st["failed_line"] else 0
        second += 1 if st.get("second_failed") else 0
        for sig, what in viol:
            ctx.violation(sig, what, {"lines": it[0], "schedule": [list(x) for x in it[1]]})
    if errors < 50:
        raise HarnessError(f"vacuous: only {errors} executions reached an error state")
    ctx.coverage.update(
        states=runs, transitions=runs * HORIZON, traces_validated_against_impl=runs,
        evaluations=runs, distinct_nontrivial=errors, executions_with_failed_line=withfailed, executions_with_a_second_failed_line_after_unpause=second,
        programs=len(items), alphabet=len(ALPHABET),
        rule="all methods of 1-2 lines over the hostile alphabet, 3 lines over the sub-alphabet, each snippet injected at ticks 1-5, "
             "all 2-line methods with Unpause at ticks 5,7,9,11 (resume after an error pause without editing), each control command at each tick of each 1-line method; non-trivial = the execution reached Method Status Error "
             "(then both continuations Stop and correct+Unpause are executed too)",
        samples=[items[1], items[len(ALPHABET) + 5], items[-1]], exhaustive=True)
    ctx.assumptions += ["X becomes 2.0 at tick 2", "horizon 14 ticks"]


def replay(data):
    item = (data["lines"], tuple((t, tuple(r)) for t, r in data["schedule"]))
    viol, st = check_program(item)
    run = run_program(item[0], item[1])
    print("method:", item[0], "schedule:", item[1])
    for ob in run.obs:
        print(ob["n"], ob["state"], ob["tags"]["Method Status"], ob["mstate"], ob.get("tick_exception", ""))
    print("error events:", run.error_events)
    return viol
