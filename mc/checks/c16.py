"""C16 — Reported tag times are the engine time of the change.

Bounded-exhaustive program enumeration on the real Engine; after every tick the incremental tag report and a snapshot
report are produced by the real EngineMessageBuilder and every reported tick_time is compared with the tick in which the
visible value of that tag (read directly from the tag objects) last changed.
"""
from __future__ import annotations

import gc

from mc import c16_common as cc
from mc.core import HarnessError
from mc.engine_harness import DT, T0

ID = "C16"
LEVEL = "model_checking"
META = dict(
    technique="bounded-exhaustive enumeration of P-code programs on the real Engine with a per-tick monitor over the tags-updated "
              "messages built by the real EngineMessageBuilder (incremental report and snapshot after every tick)",
    text="Every program over {Block, End block, End blocks, Mark, Simulate with/without unit, Simulate off, Base, Wait, Long, "
         "Watch, Stop, Restart, SetOut, Pause} up to the size bound is executed for 24 ticks of virtual time (T0 = 1 000 000 s, "
         "0.1 s per tick, wall clock = tick time + 0.037 s).  For every tag in every report: engine start <= tick_time <= end "
         "of the current tick; tick_time is not earlier than the tick in which the tag's visible value last changed (and inside "
         "that tick's interval when it changed in the reported tick); per tag the reported times never decrease.  Because "
         "T0 is large a tick number can never pass for a time.",
    note="The visible value is Tag.as_readonly().value read after every tick.  Wall-clock stamps taken during a tick are accepted "
         "(interval check, no equality).  No report is taken before the first tick because in the harness tag construction and "
         "tick 0 share one virtual instant.  UOD without DerivedTag; archiver disabled.",
)


def check_program(lines):
    tr = cc.trace(lines, period=1, snapshot_each=True)
    probs, stats = cc.c16_problems(tr)
    return cc.uniq(probs), stats, cc.nontrivial(tr), tr["tick_exceptions"]


def run(ctx):
    items = cc.corpus(ctx.quick)
    ctx.prove_deterministic(check_program, [items[0], items[40], items[-1]])
    gc.collect()
    gc.freeze()              # keep the forked workers from copying the inherited heap on their first collection
    results = ctx.pmap(check_program, items)
    data = changed = nontrivial = tick_exc = 0
    for lines, (viol, stats, nt, te) in zip(items, results):
        data += stats["data"]
        changed += stats["changed_data"]
        nontrivial += 1 if nt else 0
        tick_exc += te
        for sig, what in viol:
            ctx.violation(sig, what, {"lines": lines})
    if nontrivial < len(items) // 2 or changed < 1000:
        raise HarnessError(f"vacuous: only {nontrivial} executions with a program-driven tag change, {changed} changed data")
    n = len(items)
    ctx.coverage.update(
        states=n * cc.HORIZON, transitions=n * cc.HORIZON, traces_validated_against_impl=n, executions=n,
        evaluations=data, reported_data_whose_value_changed_in_that_tick=changed, distinct_nontrivial=nontrivial,
        programs=n, horizon=cc.HORIZON, ticks_that_raised=tick_exc,
        kinds_full=cc.KINDS_FULL, kinds_sub=cc.KINDS_SUB if ctx.quick else cc.KINDS_SUB4,
        bounds="<=2 statements over kinds_full + 3 over kinds_sub, nesting <=2, no empty bodies" if ctx.quick else
               "<=3 statements over kinds_full + 4 over kinds_sub, nesting <=2, no empty bodies",
        rule="every program of the bounded grammar is executed once; states = ticks observed (a report and a snapshot are "
             "checked after each); evaluations = reported (tag, tick_time) data checked; non-trivial = executions in which a "
             "non-clock tag changed its visible value after the first tick because of the program (input-driven changes of "
             "Tot/In1/X/accumulators count only under simulation)",
        samples=[items[0], items[n // 3], items[n // 2], items[-1]], exhaustive=True)
    ctx.assumptions += [f"virtual time {T0} + k*{DT}, time.time() = tick time + 0.037",
                        "inputs: Tot grows every third tick, X/In1 = 2.0 from tick 4 and 3.0 from tick 15",
                        "reports taken after every tick; none before the first tick"]


def replay(data):
    tr = cc.trace(data["lines"], period=1, snapshot_each=True)
    cc.print_trace(tr)
    probs, _ = cc.c16_problems(tr)
    return cc.uniq(probs)
