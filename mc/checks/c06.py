"""C06 — Run state and System State always agree; control commands gated.

Exhaustive enumeration of all control-command / tick sequences up to a depth from the stopped state on the real Engine,
for several methods that issue Pause/Hold/Stop/Restart themselves or fail.
"""
from __future__ import annotations

import collections

from mc import seqexplore
from mc.core import HarnessError
from mc.engine_harness import Run

ID = "C06"
LEVEL = "model_checking"
META = dict(
    technique="exhaustive enumeration of all control-command/tick sequences up to a depth on the real Engine against a reference state table",
    text="Every sequence of {Start, Stop, Pause, Unpause, Hold, Unhold, Restart, 1 tick, 3 ticks} of the given depth is executed "
         "from the stopped state for methods that pause, hold, stop, restart or fail on their own; after every tick the System "
         "State tag is compared with the reported control state through the table of the statement, every request's "
         "acceptance with the validity table evaluated on the state at request time, and run ids with the fresh/cleared rule.",
    note="Depth 5 (quick) / 6 (thorough) over a 9-event alphabet; engines are not copied, every sequence runs on a fresh engine.",
)

ALPHABET = [("user", "Start"), ("user", "Stop"), ("user", "Pause"), ("user", "Unpause"), ("user", "Hold"), ("user", "Unhold"),
            ("user", "Restart"), ("tick", 1), ("tick", 3)]
METHODS_QUICK = ["Wait: 100s", "Pause: 0.3s\nMark: a", "Mark: a\nRestart", "Bogus", "Hold: 0.2s\nStop"]
METHODS_ALL = ["", "Wait: 100s", "Pause: 0.3s\nMark: a", "Hold: 0.2s", "Mark: a\nStop", "Mark: a\nRestart", "Bogus",
               "Hold: 0.2s\nStop", "Pause\nMark: a"]


def ref_valid(name, state, flags):
    active = state not in ("Stopped", "Restarting")
    if name == "Start":
        return state == "Stopped"
    if name in ("Stop", "Restart"):
        return active
    if name == "Pause":
        return active and not flags["paused"]
    if name == "Unpause":
        return active and flags["paused"]
    if name == "Hold":
        return active and not flags["holding"]
    if name == "Unhold":
        return active and flags["holding"]
    raise ValueError(name)


def make_checker():
    mem = {"ids": [], "last_id": None, "restart_prev": False}

    def check(run: Run, ev, nobs, nreq):
        probs = []
        for rec in run.requests[nreq:]:
            if rec.get("kind") != "user":
                continue
            want = ref_valid(rec["name"], rec["state_before"], rec["flags_before"])
            if rec["accepted"] != want:
                probs.append((f"C06:gating:{rec['name']}:{'accepted' if rec['accepted'] else 'rejected'}-in:{rec['state_before']}"
                              f"{'+holding' if rec['flags_before']['holding'] and rec['state_before'] != 'Holding' else ''}",
                              f"user {rec['name']} was {'accepted' if rec['accepted'] else 'rejected'} in state {rec['state_before']} "
                              f"flags {rec['flags_before']} (valid: {want})"))
        for ob in run.obs[nobs:]:
            fl = ob["flags"]
            state = ob["state"]
            restart_now = "Restart" in ob["registry"]
            restart = restart_now or mem["restart_prev"]
            mem["restart_prev"] = restart_now
            if not fl["started"]:
                allowed = {"Stopped"} | ({"Restarting"} if restart else set())
            else:
                base = "Paused" if fl["paused"] else "Holding" if fl["holding"] else "Running"
                allowed = {base} | ({"Restarting"} if restart else set())
            if not fl["started"] and (fl["paused"] or fl["holding"]) and state in allowed:
                # no run is active, yet the control state that is reported to the frontend says paused / on hold
                probs.append((f"C06:state-disagrees:{state}:flags=s{'P' if fl['paused'] else 'p'}{'H' if fl['holding'] else 'h'}",
                              f"tick {ob['n']}: System State {state} (no run active) but the control state still says {fl}"))
            if state not in allowed:
                probs.append((f"C06:state-disagrees:{state}:flags={'S' if fl['started'] else 's'}{'P' if fl['paused'] else 'p'}{'H' if fl['holding'] else 'h'}",
                              f"tick {ob['n']}: System State {state} but control state {fl} (allowed {sorted(allowed)})"))
            rid = ob["tags"]["Run Id"]
            if fl["started"]:
                if not rid:
                    probs.append(("C06:run-id-empty-during-run", f"tick {ob['n']}: run active but Run Id is {rid!r}"))
                elif rid != mem["last_id"]:
                    if rid in mem["ids"]:
                        probs.append(("C06:run-id-reused", f"tick {ob['n']}: Run Id {rid} was used by an earlier run"))
                    mem["ids"].append(rid)
            else:
                if rid is not None and state == "Stopped":
                    probs.append(("C06:run-id-not-cleared", f"tick {ob['n']}: no run active but Run Id is {rid!r}"))
            mem["last_id"] = rid if fl["started"] else None
        return probs
    return check


def run_item(item):
    method, depth, chunk = item
    out = []
    n = 0
    states = set()
    for seq in chunk:
        probs, run = seqexplore.run_sequence(method, ALPHABET, seq, make_checker(), observe=("tags",))
        n += 1
        for ob in run.obs:
            states.add((ob["state"], tuple(sorted(ob["flags"].items()))))
        seen = set()
        for sig, what, k in probs:
            if sig not in seen:
                seen.add(sig)
                out.append((sig, what, {"method": method, "events": [list(ALPHABET[i]) for i in seq[:k + 1]]}))
        run.cleanup()
    return out, n, sorted(states)


def run(ctx):
    depth = 5 if ctx.quick else 6
    methods = METHODS_QUICK if ctx.quick else METHODS_ALL
    first = len(ALPHABET)
    items = []
    for m in methods:
        # partition by the first two events
        for a in range(first):
            for b in range(first):
                chunk = [(a, b) + rest for rest in seqexplore.all_sequences(ALPHABET, depth - 2)]
                items.append((m, depth, chunk))
    ctx.prove_deterministic(lambda it: run_item((it[0], it[1], it[2][:40]))[0], [items[0], items[50]], k=2)
    results = ctx.pmap(run_item, items, chunk=1)
    n = 0
    states = set()
    for it, (viol, cnt, sts) in zip(items, results):
        n += cnt
        states.update(map(repr, sts))
        for sig, what, rep in viol:
            ctx.violation(sig, what, rep)
    if len(states) < 6:
        raise HarnessError(f"vacuous: only {len(states)} distinct (state, flags) combinations reached")
    ctx.coverage.update(
        states=len(states), transitions=n * depth, traces_validated_against_impl=n,
        evaluations=n, distinct_nontrivial=len(states),
        rule="all event sequences of the given depth over the alphabet, per method; states = distinct (System State, flags) "
             "combinations observed after a tick; every prefix is checked",
        samples=[[list(ALPHABET[i]) for i in items[7][2][5]], [list(ALPHABET[i]) for i in items[-1][2][-1]]],
        depth=depth, alphabet=[list(a) for a in ALPHABET], methods=methods, exhaustive=True)
    ctx.assumptions += ["requests are applied between ticks from the ticking thread (C40 covers overlap)"]


def replay(data):
    alphabet = [tuple(e) for e in data["events"]]
    probs, run = seqexplore.run_sequence(data["method"], alphabet, list(range(len(alphabet))), make_checker(), observe=("tags",))
    print("method:", repr(data["method"]))
    print("events:", data["events"])
    for r in run.requests:
        print("  request", r["name"], "at tick", r["tick"], "state", r["state_before"], "->", "accepted" if r["accepted"] else "rejected")
    for ob in run.obs:
        print("  tick", ob["n"], ob["state"], ob["flags"], ob["tags"]["Run Id"], ob["registry"])
    seen = set()
    out = []
    for sig, what, k in probs:
        if sig not in seen:
            seen.add(sig)
            out.append((sig, what))
    return out
