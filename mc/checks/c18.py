"""C18 - Instruction lines decompose into exactly their parts.

Bounded exhaustive enumeration of WELL-FORMED instruction lines built from their parts
    indentation + [threshold + " "] + instruction name + [": " + argument] + [comment]
(the line grammar of docs/src/Introduction.rst), each parsed on its own by the real
create_method_parser(method, uod_command_names).parse_method(method).  The oracle is the generator itself: the
node must give back exactly the parts the line was assembled from
    position.character, threshold / threshold_part, instruction_name (and a non-error node class),
    arguments / has_argument, comment_part / has_comment,
and for Watch / Alarm / Simulate arguments "tag op value [unit]":
    tag_operator_value.tag_name, .op, .tag_value (.tag_value_numeric), .tag_unit.

Two products are enumerated completely:
  A. line product: indent x threshold x (instruction name x its argument forms) x comment form;
  B. condition product: context (indent, threshold, comment) x {Watch, Alarm} x 7 operator spellings + Simulate x "="
     x tag x spacing around the operator x value x (no unit | every supported unit x spacing before the unit).
     quick: 2 contexts, unit spacing {one, none}; thorough: all 60 contexts, unit spacing {one, none, two}.
Left out because the grammar is genuinely ambiguous there (nothing is asserted about them): a textual value followed
by a unit ("abc mL" is also the text "abc mL"), "Mark:A" (no space after the colon), more than one blank after the
threshold, names that start with a digit after a threshold.
"""
from __future__ import annotations

import itertools
import logging

from mc.core import HarnessError

ID = "C18"
LEVEL = "exploration"
META = dict(
    technique="exhaustive product of line parts, parsed by the real parser and compared with the generator's own parts",
    text="Every well-formed line assembled from indentation, threshold, instruction name, argument and comment (and, for "
         "Watch/Alarm/Simulate, tag, operator spelling, spacing, value and every supported unit) within the stated finite part "
         "sets is parsed by the real PcodeParser and each recovered field is compared with the part the generator put in. "
         "Exhaustive over the stated product; the part sets are finite samples of the grammar, hence 'exploration'.",
    note="One line per parse (fields of a line do not depend on other lines). Ambiguous combinations (textual value + unit, "
         "no blank after ':') are not generated. Units come from openpectus.lang.exec.units.get_supported_units() at run time.",
)

UOD_NAMES = ["Feed pump on", "Valve2"]
INDENTS = (0, 4, 8)
THRESHOLDS = (None, "1", "1.5", "0.25", "10")
# comment = None | (glue before '#', blanks after '#', text)
COMMENTS = (None, ("", " ", "c"), (" ", " ", "c d"), ("", "", ""))
COMMENTS_EXTRA = ((" ", " ", "x: y"), (" ", " ", "see #12"))          # only in the line product
COMMENT_LABEL = {None: "none", ("", " ", "c"): "hash-c", (" ", " ", "c d"): "blank-hash-c-d", ("", "", ""): "bare-hash",
                 (" ", " ", "x: y"): "with-colon", (" ", " ", "see #12"): "with-hash"}

# instruction name -> plain argument forms (None = no ': argument' at all)
PLAIN_ARGS = {
    "Mark": (None, "A", "A B", "A  B", "1.5", "a: b", "\xc6r\xf8"),
    "Call macro": ("M", "My macro"),
    "End block": (None,),
    "Feed pump on": (None, "A", "1.5 mL", "on, 2"),
    "Valve2": (None, "open", "0.5", "a=1"),
}
# condition arguments used in the line product (parts, so that they are checked as conditions too)
LINE_CONDS = {
    "Watch": (("X", ">", " ", "1", None, ""), ("Tag Name", ">=", " ", "1.5", "mL", " ")),
    "Alarm": (("X", "<", " ", "1", None, ""), ("Tag Name", "!=", "", "abc", None, "")),
    "Simulate": (("X", "=", " ", "1", None, ""), ("Tag Name", "=", " ", "1.5", "mL", " ")),
}
COND_OPS = {"Watch": (">", "<", "=", "==", "!=", ">=", "<="), "Alarm": (">", "<", "=", "==", "!=", ">=", "<="),
            "Simulate": ("=",)}
TAGS = ("X", "Tag Name", "T1")
SPACINGS = ("", " ", "  ")
NUM_VALUES = ("1", "1.5", "-2", ".5", "12", "0.3", "23", "-1.2", "2", "3", "1e3", "+1", "1.", "1E3", "1e+3", "1e-3", "2.5e+16", "-1.5e-05", ".5E+2")     # the float grammar: sign, mantissa forms, exponent with e|E and +|-|no sign
TEXT_VALUES = ("abc", "a b", "V12", "A2b", "x3")      # also text that ends in digits or digit+letters: still no unit
QUICK_CONTEXTS = ((0, None, None), (4, "1.5", (" ", " ", "c d")))


def supported_units() -> list[str]:
    from openpectus.lang.exec.units import get_supported_units
    out = []
    for u in get_supported_units():
        if u is not None and u not in out:
            out.append(u)
    return out


def unit_label(u: str) -> str:
    return u if u.isascii() else u.encode("ascii", "backslashreplace").decode()


# ---------------------------------------------------------------------------------------------------------------
# generator (= oracle)


def cond_argument(c) -> str:
    tag, op, sp, value, unit, usp = c
    return tag + sp + op + sp + value + ((usp + unit) if unit is not None else "")


def render(parts: dict) -> str:
    arg = cond_argument(parts["cond"]) if parts.get("cond") is not None else parts.get("argument")
    s = " " * parts["indent"]
    if parts["threshold"] is not None:
        s += parts["threshold"] + " "
    s += parts["name"]
    if arg is not None:
        s += ": " + arg
    if parts["comment"] is not None:
        glue, blanks, text = parts["comment"]
        s += glue + "#" + blanks + text
    return s


def mk(indent, threshold, name, argument, cond, comment) -> dict:
    return {"indent": indent, "threshold": threshold, "name": name, "argument": argument,
            "cond": list(cond) if cond is not None else None, "comment": list(comment) if comment is not None else None}


def observe(line: str) -> dict:
    logging.disable(logging.CRITICAL)
    from openpectus.lang.model.parser import ParserMethod, ParserMethodLine, create_method_parser
    import openpectus.lang.model.ast as p
    method = ParserMethod([ParserMethodLine(id="a", content=line)])
    try:
        program = create_method_parser(method, uod_command_names=list(UOD_NAMES)).parse_method(method)
        if len(program.children) != 1:
            return {"exc": f"{len(program.children)} top-level nodes for one line", "exc_type": "NodeCount"}
        n = program.children[0]
        o = {"exc": None, "cls": type(n).__name__, "error_node": isinstance(n, p.ErrorInstructionNode),
             "indent": n.position.character, "threshold": n.threshold, "threshold_part": n.threshold_part,
             "name": n.instruction_name, "arguments": n.arguments, "has_argument": n.has_argument,
             "comment_part": n.comment_part, "has_comment": n.has_comment, "tov": None}
        c = getattr(n, "tag_operator_value", None)
        if c is not None:
            o["tov"] = {"tag_name": c.tag_name, "op": c.op, "tag_value": c.tag_value, "tag_unit": c.tag_unit,
                        "tag_value_numeric": c.tag_value_numeric, "lhs": c.lhs, "rhs": c.rhs}
        return o
    except Exception as ex:  # noqa: BLE001
        return {"exc": f"{type(ex).__name__}: {ex}"[:200], "exc_type": type(ex).__name__}


def is_number(v: str) -> bool:
    try:
        float(v)
        return True
    except ValueError:
        return False


def judge(parts: dict, o: dict) -> list[tuple[str, str]]:
    """First part that was not recovered (fixed order), as (signature, what)."""
    line = render(parts)
    if o["exc"] is not None:
        return [(f"C18:raises:{o['exc_type']}", f"parsing {line!r} raised {o['exc']}")]

    def bad(sig, field, want, got):
        return [(sig, f"line {line!r}: {field} should be {want!r} (the part the line was built from) but the parser gives {got!r}")]
    name = parts["name"]
    cond = parts.get("cond")
    arg = cond_argument(cond) if cond is not None else parts.get("argument")
    com = parts["comment"]
    thr = parts["threshold"]
    if o["error_node"]:
        return bad(f"C18:error-node:{name}", "node class", "a node for instruction " + name, o["cls"])
    if o["indent"] != parts["indent"]:
        return bad(f"C18:indent:{parts['indent']}", "position.character", parts["indent"], o["indent"])
    if o["threshold"] != (None if thr is None else float(thr)) or o["threshold_part"] != (thr or ""):
        return bad(f"C18:threshold:{thr}", "threshold/threshold_part", (None if thr is None else float(thr), thr or ""),
                   (o["threshold"], o["threshold_part"]))
    if o["name"] != name:
        return bad(f"C18:name:{name}", "instruction_name", name, o["name"])
    arg_class = "none" if arg is None else "condition" if cond is not None else "plain"
    com_class = COMMENT_LABEL.get(tuple(com) if com is not None else None, "other")
    if o["arguments"] != (arg or "") or o["has_argument"] != (arg is not None):
        return bad(f"C18:argument:{arg_class}:comment-{com_class}", "arguments/has_argument", (arg or "", arg is not None),
                   (o["arguments"], o["has_argument"]))
    if o["has_comment"] != (com is not None) or o["comment_part"] != (com[2] if com is not None else ""):
        return bad(f"C18:comment:{com_class}:argument-{arg_class}", "has_comment/comment_part",
                   (com is not None, com[2] if com is not None else ""), (o["has_comment"], o["comment_part"]))
    if cond is not None:
        tag, op, sp, value, unit, usp = cond
        t = o["tov"]
        spc = {"": "no-space", " ": "one-space", "  ": "two-spaces"}[sp]
        if t is None:
            return bad(f"C18:condition-missing:{name}", "tag_operator_value", "a parsed condition", None)
        if t["op"] != op:
            return bad(f"C18:operator:{op}:got:{t['op'] or 'none'}", "operator", op, t["op"])
        if t["tag_name"] != tag:
            return bad(f"C18:tag:{'with-space' if ' ' in tag else 'plain'}:{spc}", "tag_name", tag, t["tag_name"])
        if t["tag_unit"] != unit:
            if unit is not None and t["tag_unit"] is None:
                return bad(f"C18:unit-not-recognised:{unit_label(unit)}", "tag_unit (and tag_value)", (unit, value),
                           (t["tag_unit"], t["tag_value"]))
            if unit is None and t["tag_unit"] and value.endswith(t["tag_unit"]):
                return bad(f"C18:value-tail-read-as-unit:{value}", "(tag_value, tag_unit)", (value, None),
                           (t["tag_value"], t["tag_unit"]))
            return bad(f"C18:unit-wrong:{unit_label(unit) if unit else 'none'}", "tag_unit", unit, t["tag_unit"])
        vclass = "number" if is_number(value) else "text"
        if t["tag_value"] != value:
            return bad(f"C18:value:{vclass}:{value.replace(' ', '_')}", "tag_value", value, t["tag_value"])
        if vclass == "number" and t["tag_value_numeric"] != float(value):
            return bad(f"C18:value-numeric:{value}", "tag_value_numeric", float(value), t["tag_value_numeric"])
    return []


def check(parts: dict) -> list[tuple[str, str]]:
    return judge(parts, observe(render(parts)))


# ---------------------------------------------------------------------------------------------------------------
# enumeration


def line_product() -> list[dict]:
    out = []
    for name in ("Mark", "Watch", "Alarm", "Simulate", "Call macro", "End block", "Feed pump on", "Valve2"):
        forms = [(a, None) for a in PLAIN_ARGS.get(name, ())] + [(None, c) for c in LINE_CONDS.get(name, ())]
        for (a, c), com, thr, ind in itertools.product(forms, COMMENTS + COMMENTS_EXTRA, THRESHOLDS, INDENTS):
            out.append(mk(ind, thr, name, a, c, com))
    return out


def cond_values(units, quick: bool) -> list[tuple]:
    """(value, unit, spacing before unit) - simplest first."""
    out = [(v, None, "") for v in NUM_VALUES + TEXT_VALUES]
    for u in units:
        for v in NUM_VALUES:
            for usp in (" ", "", "  "):
                out.append((v, u, usp))
    return out


def cond_items(contexts, quick: bool) -> list[tuple]:
    items = []
    for ctx_ in contexts:
        for name in ("Watch", "Alarm", "Simulate"):
            for op in COND_OPS[name]:
                for tag in TAGS:
                    items.append((ctx_, name, op, tag, quick))
    return items


def nontrivial(parts) -> bool:
    present = sum((parts["indent"] > 0, parts["threshold"] is not None,
                   parts.get("cond") is not None or parts.get("argument") is not None, parts["comment"] is not None))
    return present >= 2


def work_lines(chunk):
    evals = nt = 0
    viol: dict[str, list] = {}
    for parts in chunk:
        evals += 1
        nt += nontrivial(parts)
        for sig, what in check(parts):
            v = viol.setdefault(sig, [0, what, parts])
            v[0] += 1
    return dict(evals=evals, nontrivial=nt, viol=[(s, v[0], v[1], v[2]) for s, v in sorted(viol.items())])


def work_cond(item):
    (ind, thr, com), name, op, tag, quick = item
    units = supported_units()
    vals = cond_values(units, quick)
    chunk = (mk(ind, thr, name, None, (tag, op, sp, v, u, usp), com) for sp in (" ", "", "  ") for v, u, usp in vals)
    r = work_lines(chunk)
    return r


def work(item):
    return work_lines(item[1]) if item[0] == "lines" else work_cond(item[1])


def _probe(parts):
    return observe(render(parts))


def run(ctx):
    units = supported_units()
    if len(units) < 40:
        raise HarnessError(f"only {len(units)} supported units found")
    probes = [mk(4, "1.5", "Watch", None, ("Tag Name", ">=", " ", "1.5", "mL", " "), (" ", " ", "c d")),
              mk(0, None, "Feed pump on", "on, 2", None, None), mk(8, "10", "Simulate", None, ("X", "=", "", "-2", "%", ""), ("", "", ""))]
    ctx.prove_deterministic(_probe, probes)
    # generator sanity, written out by hand
    assert render(probes[0]) == "    1.5 Watch: Tag Name >= 1.5 mL # c d"
    assert render(probes[1]) == "Feed pump on: on, 2" and render(probes[2]) == "        10 Simulate: X=-2%#"

    tot = dict(evals=0, nontrivial=0)
    per_sig: dict[str, int] = {}

    def absorb(results):
        sub = 0
        for r in results:
            tot["evals"] += r["evals"]
            tot["nontrivial"] += r["nontrivial"]
            sub += r["evals"]
            for sig, cnt, what, parts in r["viol"]:
                per_sig[sig] = per_sig.get(sig, 0) + cnt
                ctx.violation(sig, what, {"parts": parts})
        return sub

    # A. line product   B. condition product  (one pool for both; the short line product first)
    lp = line_product()
    texts = {render(p_) for p_ in lp}
    if len(texts) != len(lp):
        raise HarnessError("line product contains two part tuples that render to the same line")
    contexts = QUICK_CONTEXTS if ctx.quick else tuple(itertools.product(INDENTS, THRESHOLDS, COMMENTS))
    vals = cond_values(units, ctx.quick)
    args = {cond_argument((tag, op, sp, v, u, usp)) for tag in TAGS for op in COND_OPS["Watch"] for sp in SPACINGS for v, u, usp in vals}
    if len(args) != len(TAGS) * 7 * len(SPACINGS) * len(vals):
        raise HarnessError("two different condition part tuples render to the same argument text (ambiguous generator)")
    a_items = [("lines", lp[i:i + 100]) for i in range(0, len(lp), 100)]
    b_items = [("cond", it) for it in cond_items(contexts, ctx.quick)]
    res = ctx.pmap(work, a_items + b_items, chunk=1)
    n_a = absorb(res[:len(a_items)])
    n_b = absorb(res[len(a_items):])
    if n_a != len(lp) or n_b != len(b_items) * len(SPACINGS) * len(vals):
        raise HarnessError(f"enumerated {n_a}+{n_b} lines, expected {len(lp)}+{len(b_items) * len(SPACINGS) * len(vals)}")
    ctx.note(f"[C18] line product: {n_a} lines (indent {len(INDENTS)} x threshold {len(THRESHOLDS)} x name/argument forms x "
             f"comment {len(COMMENTS + COMMENTS_EXTRA)})")
    ctx.note(f"[C18] condition product: {n_b} lines = {len(contexts)} contexts x 15 (instruction, operator) x {len(TAGS)} tags x "
             f"{len(SPACINGS)} spacings x {len(vals)} value/unit forms ({len(units)} units)")

    ctx.coverage.update(
        evaluations=tot["evals"], distinct_nontrivial=tot["nontrivial"],
        rule="full product of the part sets (lines are pairwise distinct: rendering is checked injective on the line product and "
             "on the condition arguments, contexts only add distinct prefixes/suffixes); non-trivial = at least two of the optional "
             "parts (indentation, threshold, argument, comment) are present",
        samples=[render(p_) for p_ in probes] + [render(lp[7]), render(lp[-1])],
        exhaustive=True,
        line_product=n_a, condition_product=n_b, contexts=len(contexts), units=[unit_label(u) for u in units],
        operators=list(COND_OPS["Watch"]), tags=list(TAGS), values=list(NUM_VALUES + TEXT_VALUES),
        thresholds=[t for t in THRESHOLDS], indents=list(INDENTS), violations_per_signature=per_sig,
        explanation="exhaustive over the stated finite part sets",
    )
    ctx.assumptions += [
        "well-formed = indentation + [threshold + one blank] + name + [': ' + argument] + [comment]; argument and comment text carry no "
        "leading/trailing blanks of their own",
        "textual condition values are only generated without a unit (value 'abc mL' is ambiguous); units only follow numeric values",
        "a line's fields do not depend on neighbouring lines, so each line is parsed as a one-line method",
        "Simulate only supports '='; Watch/Alarm support the seven spellings <=, >=, ==, !=, <, >, =",
    ]


def replay(data):
    parts = data["parts"]
    line = render(parts)
    o = observe(line)
    print("parts :", {k: v for k, v in parts.items()})
    print("line  :", repr(line))
    print("parser:", o)
    return judge(parts, o)
