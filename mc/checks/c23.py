"""C23 — Hardware connection recovery follows the documented protocol.

Explicit-state BFS over the real ErrorRecoveryDecorator (same harness as C24).  The reference model of
docs/src/Error Recovery.rst (mc/hw_harness.Model) is nondeterministic only about *when* an expired
timeout is noticed; conformance is checked with the subset construction: after every event the
implementation's state must be one of the model's possible states, and the model set is then restricted
to it.  The model set is part of the canonical state, so merged histories have equal model futures.
"""
from mc import explore, hw_harness as H

ID = "C23"
LEVEL = "model_checking"
META = dict(
    technique="explicit-state BFS on the real decorator with subset-construction conformance to a reference model of the documented protocol; thorough tier: the model is the TLC state graph of models/HwRecovery.tla, every edge of which is replayed against the decorator",
    text="All event histories up to the depth bound are applied to the real ErrorRecoveryDecorator; every transition is one step "
         "of the reference model transcribed from docs/src/Error Recovery.rst and the implementation's state must be among the "
         "model's successors; masking, raising and the Connection Status tag are checked in every state.",
    note="Thorough tier: TLC checks the TLA+ model's own invariants, its labelled state graph (-dump dot,actionlabels) replaces the "
         "Python model after an edge-for-edge cross-check of the two, and one trace per graph edge is replayed on the decorator. "
         "A write that is filtered out as unmodified never reaches the hardware and is not a success. The model leaves open when an expired timeout is noticed and whether a reconnect counts as a success for the Issue "
         "timeout (the text is silent); fake hardware fails whole calls; timeouts scaled to 10 s / 100 s.",
)


class Pair:
    def __init__(self, connected, graph=None, covered=None):
        self.sys = H.Sys(connected)
        self.graph = graph
        if graph is not None:
            from mc.tlc_replay import TlcModel
            self.model = TlcModel(graph, connected, covered)
        else:
            self.model = H.Model(connected, self.sys.clock.now)
        self.problems: list[tuple[str, str]] = []

    def apply(self, ev):
        s = self.sys
        rec = s.apply(ev)
        kind = H.event_kind(ev, rec["pre"])
        skipped = kind == "rw_ok" and rec["hw_calls"] == 0 and rec["pre"] in ("OK", "Issue")
        if skipped:
            kind = "elapse"       # a write of an unchanged value is filtered out before it reaches the hardware: not a success
        if self.graph is not None:
            from mc.tlc_replay import tla_label
            self.model.step_label("Elapse(0)" if skipped else tla_label(ev, rec["pre"]))
        else:
            self.model.step(kind, s.clock.now)
        allowed = self.model.names()
        probs = []
        if not self.model.restrict(rec["post"]):
            probs.append((f"C23:transition:{rec['pre']}-{kind}->{rec['post']}",
                          f"event {ev} ({kind}) in {rec['pre']} led to {rec['post']}; documented protocol allows {allowed}"))
            # resynchronise so later steps are still checked
            if self.graph is not None:
                self.model.resync(rec["post"])
            else:
                self.model.states = {(rec["post"], s.clock.now, s.clock.now, s.clock.now)}
        want_disc = rec["post"] in ("Disconnected", "Error")
        if (rec["status"] == "Disconnected") != want_disc:
            probs.append((f"C23:status-tag:{rec['post']}:{rec['status']}:after-{kind}-from-{rec['pre']}",
                          f"Connection Status is {rec['status']} in state {rec['post']} (after {ev} from {rec['pre']})"))
        is_io = kind in ("rw_ok", "rw_err")
        if is_io:
            if rec["pre"] in ("Issue", "Reconnect", "OK"):
                if rec["raised"]:
                    probs.append((f"C23:raised-while-masking:{rec['pre']}:{ev}",
                                  f"{ev} in {rec['pre']} raised {rec['raised']}"))
                elif rec["ret"] is not None:
                    want = [s.last_read_ok.get(r) for r in rec["regs"]]
                    if rec["ret"] != want:
                        probs.append((f"C23:masked-read-value:{rec['pre']}:{ev}",
                                      f"{ev} in {rec['pre']} returned {rec['ret']}, last successfully read {want}"))
            else:
                if rec["raised"] != "HardwareLayerException":
                    probs.append((f"C23:not-raised:{rec['pre']}:{ev}",
                                  f"{ev} in {rec['pre']} did not raise HardwareLayerException (raised={rec['raised']}, ret={rec['ret']})"))
        elif rec["raised"] and not (ev == "connect_fail" and rec["raised"] == "HardwareLayerException"):
            probs.append((f"C23:unexpected-exception:{ev}:{rec['pre']}", f"{ev} in {rec['pre']} raised {rec['raised']}"))
        rec["problems"] = probs
        self.problems += probs
        return rec


def build(hist, connected, graph=None, covered=None):
    p = Pair(connected, graph, covered)
    for ev in hist:
        p.apply(ev)
    return p


def canon(p: Pair):
    now = p.sys.clock.now
    cap = H.T_ERROR + 2

    def rel(t):
        return None if t is None else min(now - t, cap)
    if p.graph is not None:
        return (H.canon(p.sys), p.model.key())
    mk = frozenset((st, rel(a), rel(b), rel(c)) for st, a, b, c in p.model.states)
    return (H.canon(p.sys), mk)


def run(ctx):
    depth = 6        # both tiers; the thorough tier has the larger alphabet and the TLC model
    alphabet = H.EV_QUICK if ctx.quick else H.EV_THOROUGH
    ctx.prove_deterministic(lambda h: build(h, True).sys.obs,
                            [("rb_fail", "el_rec", "rb_fail", "el_err", "rb_ok", "tick_ok"), ("wb_new_fail", "rb_ok")])
    states = trans = 0
    edges = set()
    samples = []
    graph, covered, tlc_info = None, set(), None
    if not ctx.quick:
        # thorough tier: the reference model is the state graph TLC computes from models/HwRecovery.tla (TLC also checks the
        # model's own invariants); it must agree edge for edge with the Python model of the quick tier
        from mc import tlc_replay
        graph = tlc_replay.load_graph()
        n_cross = tlc_replay.cross_check(graph)
        tlc_info = {"tlc": graph.summary, "graph_nodes": len(graph.nodes), "graph_edges": graph.n_edges,
                    "state_action_pairs_cross_checked_with_python_model": n_cross}
        ctx.note(f"[C23] TLC: {graph.summary}; {graph.n_edges} labelled edges; cross-checked {n_cross} (state, action) pairs with the Python model")
    for connected, alphabet in ((True, alphabet), (False, alphabet), (True, H.EV_READS)):
        def on_tr(hist, ev, nxt, connected=connected):
            rec = nxt.sys.obs[-1]
            for sig, what in rec["problems"]:
                ctx.violation(sig, what, {"connected": connected, "history": list(hist) + [ev]})
            edges.add((rec["pre"], H.event_kind(ev, rec["pre"]), rec["post"]))
        res = explore.bfs(lambda h: build(h, connected, graph, covered), lambda p, h: H.enabled(p.sys, h, alphabet), canon, on_tr, depth)
        states += res.states
        trans += res.transitions
        samples += [list(h) for h in res.histories[-2:]]
        ctx.note(f"[C23] connected_at_init={connected} alphabet={len(alphabet)} events: states={res.states} transitions={res.transitions} max_depth={res.max_depth}")
    abstract_states = sorted({e[0] for e in edges} | {e[2] for e in edges})
    ctx.coverage.update(
        states=states, transitions=trans, traces_validated_against_impl=trans,
        evaluations=trans, distinct_nontrivial=len(edges),
        abstract_states_reached=abstract_states, abstract_edges=sorted(map(list, edges)),
        rule="BFS over event histories on the real decorator; every transition is one model step validated against the "
             "implementation (subset-construction conformance); distinct_nontrivial = distinct (state, event kind, state) "
             "edges of the five-state protocol exercised",
        samples=samples, depth=depth, alphabet=list(H.EV_QUICK if ctx.quick else H.EV_THOROUGH), second_alphabet=list(H.EV_READS), exhaustive=True)
    if graph is not None:
        tlc_info["graph_edges_followed_during_the_exploration"] = len(covered)
        # replay of the model's traces: one trace per edge of the TLC graph (shortest path to the edge's source, then the
        # edge), translated to harness events and run on the real decorator with the same conformance oracle
        from mc import tlc_replay
        n_tr = n_steps = n_untranslatable = n_diverged = 0
        for root, labels, edge in tlc_replay.edge_traces(graph):
            for conn in (graph.nodes[root][0] == "OK",):
                p = Pair(conn, graph, covered)
                hist = []
                ok = True
                for lb in labels:
                    ev = tlc_replay.event_for(lb, p.sys.dec.state.name)
                    if ev is None:
                        ok = False
                        n_untranslatable += 1
                        break
                    if lb not in ("RwOk", "RwErr") and tlc_replay.tla_label(ev, p.sys.dec.state.name) != lb:
                        ok = False
                        n_untranslatable += 1
                        break
                    hist.append(ev)
                    rec = p.apply(ev)
                    n_steps += 1
                    for sig, what in rec["problems"]:
                        ctx.violation(sig, what, {"connected": conn, "history": list(hist)})
                    if not p.model.states:
                        break
                n_tr += 1
                if ok and edge not in covered:
                    n_diverged += 1          # the implementation took another (allowed) branch of the model
        tlc_info.update(model_traces_replayed=n_tr, model_trace_steps=n_steps, traces_without_harness_event=n_untranslatable,
                        traces_where_the_implementation_took_another_allowed_branch=n_diverged,
                        graph_edges_followed_by_the_implementation=len(covered))
        ctx.coverage.update(tlc_model=tlc_info)
    ctx.assumptions += ["model transcribed from docs/src/Error Recovery.rst; it leaves open when an expired timeout is noticed "
                        "(at the elapse or at the next failing/any I/O request) and is deterministic elsewhere",
                        f"timeouts {H.T_RECONNECT}s/{H.T_ERROR}s instead of the defaults"]
    if set(abstract_states) != {"Disconnected", "OK", "Issue", "Reconnect", "Error"}:
        from mc.core import HarnessError
        raise HarnessError(f"vacuous: only {abstract_states} reached")


def replay(data):
    p = build(tuple(data["history"]), data.get("connected", True))        # replay uses the Python model (same relation)
    for rec in p.sys.obs:
        print({k: rec.get(k) for k in ("ev", "pre", "post", "status", "raised", "ret", "problems")})
    return p.problems
