"""C24 — No lost or stale hardware writes after an outage.

Explicit-state BFS over the real ErrorRecoveryDecorator wrapped around a scripted fake; every
fault sequence up to the depth bound over the event alphabet of mc/hw_harness.py.
Oracle (a): after a fully successful write cycle that ends in state OK the fake's output memory equals
the most recently commanded value of every register.  Oracle (b): per register, the fake never
receives a value older than one it already received (commanded values are fresh and increasing).
"""
from mc import explore, hw_harness as H

ID = "C24"
LEVEL = "fault_enumeration"
META = dict(
    technique="explicit-state BFS over fault histories on the real ErrorRecoveryDecorator",
    text="Every history of read/write successes and failures, timeouts and reconnect outcomes up to the depth bound is "
         "applied to the real decorator over a scripted fake; after every transition the fake's write log and memory are "
         "compared with the commanded values. Exhaustive within the bound, which is what the property's quantifier asks for.",
    note="Fake hardware fails whole calls (no torn batches); timeouts scaled to 10 s / 100 s; values are fresh increasing floats.",
)


def check_record(rec) -> list[tuple[str, str]]:
    out = []
    if rec["stale"]:
        name, v, newer = rec["stale"][0]
        out.append((f"C24:stale-write:{rec['ev']}:pre={rec['pre']}",
                    f"register {name} received buffered value {v} after newer value {newer} (event {rec['ev']} in state {rec['pre']})"))
    if rec["full_ok"] and rec["post"] == "OK":
        bad = {r: (rec["mem"].get(r), c) for r, c in rec["commanded"].items() if rec["mem"].get(r) != c}
        if bad:
            out.append((f"C24:memory-not-latest:{rec['ev']}:pre={rec['pre']}",
                        f"after successful cycle {rec['ev']} in OK hardware holds {bad} (hardware, commanded)"))
    return out


def run(ctx):
    depth = 6 if ctx.quick else 7
    alphabet = H.EV_QUICK if ctx.quick else H.EV_THOROUGH
    stats = {"nontrivial": set(), "outcomes": set()}
    total = {"states": 0, "transitions": 0}
    samples = []
    ctx.prove_deterministic(lambda h: H.build(h).obs, [("wb_new_fail", "wb_new_ok", "wb_same_ok"), ("rb_fail", "el_rec", "rb_fail", "tick_ok"), ("wb_new_ok",)])
    complete = True
    # fourth exploration: start in Reconnect with the error timeout already elapsed (the next request moves to Error)
    late = ("wb_new_ok", "rb_fail", "el_rec", "rb_fail", "el_err")
    plans = [(True, alphabet, depth, ()), (False, alphabet, depth, ()), (True, H.EV_SINGLE, 5 if ctx.quick else 6, ()),
             (True, H.EV_SINGLE + ("tick_fail",), 4 if ctx.quick else 5, late),
             (True, H.EV_OUTSIDE, 5 if ctx.quick else 7, ()),
             (True, H.EV_OUTSIDE2, 5 if ctx.quick else 7, ())]
    for connected, alphabet_, depth_, prefix_ in plans:
        def on_tr(hist, ev, nxt, connected=connected, prefix_=prefix_):
            rec = nxt.obs[-1]
            for sig, what in check_record(rec):
                ctx.violation(sig, what, {"connected": connected, "history": list(prefix_) + list(hist) + [ev]})
            # non-trivial: a failed write happened earlier in the history and this event wrote to hardware
            if rec["writes"] and any(e.endswith("fail") and e.startswith("w") for e in hist):
                stats["nontrivial"].add(H.canon(nxt))
            stats["outcomes"].add((rec["pre"], rec["ev"], rec["post"], len(rec["writes"]), bool(rec["stale"])))
        res = explore.bfs(lambda h, p=prefix_: H.build(tuple(p) + tuple(h), connected), lambda s, h, a=alphabet_: H.enabled(s, h, a),
                          H.canon, on_tr, depth_)
        total["states"] += res.states
        total["transitions"] += res.transitions
        complete = complete and True
        samples += [list(h) for h in res.histories[-3:]]
        ctx.note(f"[C24] connected_at_init={connected} alphabet={'outside-the-batch' if alphabet_ in (H.EV_OUTSIDE, H.EV_OUTSIDE2) else 'single-writes' if alphabet_[:3] == H.EV_SINGLE[:3] and len(alphabet_) <= len(H.EV_SINGLE) + 1 else 'cycles'} prefix={list(prefix_)} depth={depth_}: states={res.states} transitions={res.transitions} max_depth={res.max_depth} cut_at_bound={res.frontier_at_bound}")
    ctx.coverage.update(
        evaluations=total["transitions"], states=total["states"], transitions=total["transitions"],
        distinct_nontrivial=len(stats["nontrivial"]), distinct_outcomes=len(stats["outcomes"]),
        rule="BFS over all event histories up to depth over the alphabet; canonical states deduplicated; "
             "non-trivial = a state reached by an event that wrote to the hardware after an earlier failed write",
        samples=samples, depth=depth, alphabet=list(alphabet), second_alphabet=list(H.EV_SINGLE), second_depth=plans[2][2], third_alphabet=list(H.EV_OUTSIDE), third_depth=plans[4][2], fourth_alphabet=list(H.EV_OUTSIDE2), exhaustive=True,
        explanation="exhaustive up to the depth bound: every event applied in every canonical state of depth < bound",
    )
    ctx.assumptions += ["values are compared only for equality by the decorator (order-preserving renaming in canon)",
                        "fake hardware fails whole calls; partial batch writes are not modelled",
                        f"timeouts {H.T_RECONNECT}s/{H.T_ERROR}s instead of the defaults"]


def replay(data):
    s = H.build(tuple(data["history"]), data.get("connected", True))
    for rec in s.obs:
        print({k: rec[k] for k in ("ev", "pre", "post", "writes", "stale", "mem", "commanded")})
    out = []
    for rec in s.obs:
        out += check_record(rec)
    return out
