"""C33 — Push notifications reach exactly the entitled subscribers.

Users, recorded roles, preferences (scope, topics, listed units), subscriptions, unit required roles, contributors and
topics are enumerated; each configuration is stored through the real WebPushRepository in an in-memory SQLite database
and the real `WebPushPublisher.publish_message` (or, for new-contributor notifications, additionally the real
`FromFrontend.add_contributor`) is driven with `_post_webpush` replaced by a recording fake.

Reference predicate (from the statement): a subscription of user u is notified about (topic t, unit U) iff
  * u's recorded roles grant access to U  (U requires no role, or u holds at least one required role), and
  * u's preferences select t, and
  * u's scope selects U: all accessible units | U's current run has u among its contributors | U is listed, and
  * t is not a new-contributor notification about u;
every subscription of such a user exactly once, nobody else.
The statement itself only bounds delivery from above ("only to", "at most once", "never"); deliveries that are missing
are reported under a separate kind (`not-notified`, from the title's "exactly") so the two cannot be confused.
"""
from __future__ import annotations

import asyncio
import collections
import datetime
import itertools
import logging
import os
import shutil
import tempfile
from unittest.mock import Mock

logging.disable(logging.CRITICAL)

import openpectus.aggregator.data.models as DMdl                          # noqa: E402
import openpectus.aggregator.models as Mdl                                # noqa: E402
from openpectus.aggregator.aggregator import FromFrontend                 # noqa: E402
from openpectus.aggregator.data import database                           # noqa: E402
from openpectus.aggregator.data.repository import WebPushRepository       # noqa: E402
from openpectus.aggregator.models import NotificationScope, NotificationTopic   # noqa: E402
from openpectus.aggregator.webpush_publisher import WebPushPublisher      # noqa: E402
from webpush import WebPushSubscription                                   # noqa: E402
from webpush.types import WebPushKeys                                     # noqa: E402
from mc import explore                                                    # noqa: E402
from mc.core import HarnessError                                          # noqa: E402

ID = "C33"
LEVEL = "exploration"
META = dict(
    technique="bounded exhaustive enumeration of subscriber configurations against a reference entitlement predicate",
    text="Every one-user configuration (roles, scope, selected topics, listed units, contributor, preferences row, 0-2 "
         "subscriptions) x unit roles x topic, every selected-topic set of size <= 2 x published topic, and every two-user "
         "configuration within the deviation bound of a base configuration is stored through the real repository and "
         "published with the real WebPushPublisher; the multiset of posted subscriptions is compared with the statement's "
         "entitlement predicate. The space is finite and completed, so within the bounds the claim is decided by enumeration.",
    note="_post_webpush (encryption + HTTP post) is replaced by a recording fake; in-memory SQLite; VAPID keys in a scratch "
         "directory; two roles, two units, three user ids; new-contributor notifications are driven both directly and through "
         "FromFrontend.add_contributor.",
)

ALL, CONTRIB, SPECIFIC = (NotificationScope.PROCESS_UNITS_I_HAVE_ACCESS_TO.value,
                          NotificationScope.PROCESS_UNITS_WITH_RUNS_IVE_CONTRIBUTED_TO.value,
                          NotificationScope.SPECIFIC_PROCESS_UNITS.value)
NC = NotificationTopic.NEW_CONTRIBUTOR.value
PLAIN = NotificationTopic.RUN_STOP.value
OTHER_TOPIC = NotificationTopic.RUN_START.value
UNIT, OTHER_UNIT = "pu", "pu2"              # the other unit's id contains the unit's id (catches substring matching)
U1, U2, U3 = "u1", "u2", "u3"               # u3 never has preferences: "somebody else"
ANON = "None"                               # str(None): the shared user id of a deployment without authentication

_PUB: WebPushPublisher | None = None
_LOOP: asyncio.AbstractEventLoop | None = None
_LOOP_PID = 0
_SCRATCH: str | None = None
_DB_READY = False


# ---------------------------------------------------------------------------
# harness

def _setup():
    """Publisher with VAPID keys in a scratch directory (never under /repo), in-memory database, private event loop."""
    global _PUB, _LOOP, _LOOP_PID, _SCRATCH, _DB_READY
    if _PUB is None:
        _SCRATCH = tempfile.mkdtemp(prefix="c33-")
        os.environ["WEBPUSH_SUBSCRIBER_EMAIL"] = "verif@example.org"       # otherwise publish_message is a no-op
        _PUB = WebPushPublisher(webpush_keys_path=_SCRATCH)
        if _PUB.wp is None:
            raise HarnessError("WebPushPublisher did not initialise its WebPush object")
    if _LOOP is None or _LOOP_PID != os.getpid():          # never reuse a loop inherited through fork
        _LOOP = asyncio.new_event_loop()
        _LOOP_PID = os.getpid()
    if not _DB_READY:
        database.configure_db("sqlite:///:memory:")
        DMdl.DBModel.metadata.create_all(database._engine)        # type: ignore
        _DB_READY = True


def _teardown():
    global _PUB, _SCRATCH, _LOOP
    if _SCRATCH is not None:
        shutil.rmtree(_SCRATCH, ignore_errors=True)
    _SCRATCH = None
    _PUB = None
    if _LOOP is not None and _LOOP_PID == os.getpid():
        _LOOP.close()
    _LOOP = None


def _clear_db():
    with database._engine.begin() as conn:                        # type: ignore
        conn.execute(DMdl.WebPushSubscription.__table__.delete())
        conn.execute(DMdl.WebPushNotificationPreferences.__table__.delete())


def endpoint(uid: str, k: int) -> str:
    return f"https://push.example/{uid}/{k}"


def _contributor(c):
    return Mdl.Contributor(id=c, name="Anon" if c is None else c.upper())     # id None = the user of a deployment without login


def run_case(case) -> dict:
    """Store the configuration through the real repository, publish through the real publisher, return what the fake
    sender received: {"sent": [[endpoint, user_id], ...] sorted, "error": str|None}."""
    _setup()
    assert _PUB is not None and _LOOP is not None
    _clear_db()
    with database.create_scope():
        repo = WebPushRepository(database.scoped_session())
        for u in case["users"]:
            if u["prefs"] and case.get("resaved"):
                # an earlier save of the same user with everything different (the later save must replace all of it)
                other_roles = {"A", "B"} - set(u["roles"])
                repo.store_notifications_preferences(Mdl.WebPushNotificationPreferences(
                    user_id=u["id"], user_roles=other_roles, scope=NotificationScope([s_ for s_ in SCOPES if s_ != u["scope"]][0]),
                    topics={NotificationTopic(t) for t in (PLAIN, NC, OTHER_TOPIC)} - {NotificationTopic(t) for t in u["topics"]},
                    process_units={"other-unit"}))
            if u["prefs"]:
                repo.store_notifications_preferences(Mdl.WebPushNotificationPreferences(
                    user_id=u["id"], user_roles=set(u["roles"]), scope=NotificationScope(u["scope"]),
                    topics={NotificationTopic(t) for t in u["topics"]}, process_units=set(u["units"])))
            for k in range(u["subs"]):
                repo.store_subscription(WebPushSubscription(endpoint=endpoint(u["id"], k),                  # type: ignore
                                                            keys=WebPushKeys(auth="auth", p256dh="p256dh")), u["id"])
    unit = Mdl.EngineData(engine_id=case["unit"]["id"], computer_name="c", engine_version="1", uod_name="uod",
                          uod_author_name="n", uod_author_email="e", uod_filename="f", location="l")
    unit.required_roles = set(case["unit"]["roles"])
    sent: list[list[str]] = []

    async def fake_post(subscription, web_push_repository, notification):
        sent.append([subscription.endpoint, subscription.user_id])

    _PUB._post_webpush = fake_post                                # type: ignore
    topic = NotificationTopic(case["topic"])
    about = case.get("about")
    error = None
    try:
        if case.get("via") == "add_contributor":
            assert topic is NotificationTopic.NEW_CONTRIBUTOR and about is not None
            unit.contributors = {_contributor(c) for c in case["unit"]["contributors"] if c != about}
            unit.run_data = Mdl.RunData.empty(run_id="r1", run_started=datetime.datetime(2020, 1, 1, tzinfo=datetime.timezone.utc))
            ff = FromFrontend({unit.engine_id: unit}, Mock(), Mock(), _PUB)

            async def go():
                await ff.add_contributor(unit.engine_id, about, about.upper())
                me = asyncio.current_task()
                pending = [t for t in asyncio.all_tasks() if t is not me]
                if pending:
                    await asyncio.gather(*pending)
            _LOOP.run_until_complete(go())
        else:
            unit.contributors = {_contributor(c) for c in case["unit"]["contributors"]}
            notification = Mdl.WebPushNotification(
                title="t", body="b", data=Mdl.WebPushData(process_unit_id=unit.engine_id, contributor_id=about))
            _LOOP.run_until_complete(_PUB.publish_message(notification, topic, unit))
    except Exception as e:                       # noqa: BLE001 - reported as a violation kind of its own
        error = f"{type(e).__name__}: {e}"
    finally:
        del _PUB.__dict__["_post_webpush"]
    return {"sent": sorted(sent), "error": error}


# ---------------------------------------------------------------------------
# reference model

def reasons_not_entitled(u, case) -> list[str]:
    """Empty list = entitled.  Boring restatement of the property text."""
    unit = case["unit"]
    why = []
    if not u["prefs"]:
        return ["no-preferences"]
    if unit["roles"] and not (set(unit["roles"]) & set(u["roles"])):
        why.append("no-access")
    if case["topic"] not in u["topics"]:
        why.append("topic-not-selected")
    me = None if u["id"] == ANON else u["id"]          # without login everybody is recorded as "None" / contributes as id None
    if u["scope"] == CONTRIB and me not in unit["contributors"]:
        why.append("not-a-contributor")
    if u["scope"] == SPECIFIC and unit["id"] not in u["units"]:
        why.append("unit-not-listed")
    if case["topic"] == NC and case.get("about") is not None and case["about"] == u["id"]:
        why.append("is-the-new-contributor")
    return why


def expected(case) -> list[list[str]]:
    out = []
    for u in case["users"]:
        if not reasons_not_entitled(u, case):
            out += [[endpoint(u["id"], k), u["id"]] for k in range(u["subs"])]
    return sorted(out)


def judge(case, obs) -> list[tuple[str, str]]:
    if obs["error"] is not None:
        return [(f"C33:publish-raised:{obs['error'].split(':')[0]}", f"publishing raised {obs['error']}")]
    users = {u["id"]: u for u in case["users"]}
    got = collections.Counter(tuple(x) for x in obs["sent"])
    exp = collections.Counter(tuple(x) for x in expected(case))
    kind = "new-contributor" if case["topic"] == NC else "plain"
    out = []
    for (ep, uid), n in sorted(got.items()):
        u = users.get(uid)
        why = reasons_not_entitled(u, case) if u is not None else ["unknown-user"]
        scope = u["scope"] if u is not None and u["prefs"] else "none"
        if why:
            out.append((f"C33:over-notified:{'+'.join(why)}:scope={scope}:topic={kind}",
                        f"{ep} (user {uid}) was notified about topic {case['topic']} on unit {case['unit']} but is not "
                        f"entitled: {', '.join(why)}; user={u}"))
        elif n > 1:
            out.append((f"C33:notified-twice:scope={scope}:topic={kind}", f"{ep} (user {uid}) was notified {n} times; user={u}"))
    for (ep, uid), n in sorted(exp.items()):
        if got.get((ep, uid), 0) == 0:
            u = users[uid]
            if uid == ANON:
                continue        # statement-silent class: only over-delivery is judged; counted in coverage by work()
            out.append((f"C33:not-notified:scope={u['scope']}:topic={kind}:via={case.get('via', 'publish_message')}",
                        f"{ep} (user {uid}) is entitled to topic {case['topic']} on unit {case['unit']} but was not notified; user={u}"))
    return out


# ---------------------------------------------------------------------------
# enumeration

ROLESETS = [["A"], [], ["B"], ["A", "B"]]                   # index 0 = base value
SCOPES = [ALL, CONTRIB, SPECIFIC]
TOPICSETS = [[PLAIN, NC], [], [OTHER_TOPIC], [PLAIN], [NC]]
UNITSETS = [[], [UNIT], [OTHER_UNIT], [UNIT, OTHER_UNIT]]
SUBS = [1, 0, 2]


def user(uid, roles, scope, topics, units, subs, prefs=True):
    return {"id": uid, "prefs": prefs, "roles": roles, "scope": scope, "topics": topics, "units": units, "subs": subs}


def one_user_cases(quick: bool):
    """Complete: roles x scope x selected topics x listed units x contributors x preferences row x 0-2 subscriptions
    x unit roles x (plain topic | new contributor about u1 | about somebody else | about nobody).
    quick: 3 selected-topic sets, 3 listed-unit sets, 3 contributor sets; thorough: 5, 4, 4."""
    topics = [(PLAIN, None), (NC, U1), (NC, U3), (NC, None)]
    contribs = [[], [U1], [U3], [U1, U3]][:3 if quick else 4]
    topicsets = TOPICSETS[:3] if quick else TOPICSETS
    unitsets = UNITSETS[:3] if quick else UNITSETS
    for subs in (1, 2, 0):
        for prefs in (True, False):
            for (topic, about), uroles, roles, scope, tsel, units, con in itertools.product(
                    topics, ROLESETS, ROLESETS, SCOPES, topicsets, unitsets, contribs):
                if not prefs and (roles != ROLESETS[0] or scope != ALL or tsel != TOPICSETS[0] or units != UNITSETS[0]):
                    continue                          # without a preferences row these fields do not exist
                yield {"class": "one-user", "users": [user(U1, roles, scope, tsel, units, subs, prefs)],
                       "unit": {"id": UNIT, "roles": uroles, "contributors": con}, "topic": topic, "about": about}


def topic_matrix_cases():
    """Every published topic x every selected-topic set of size <= 2 (exact topic matching)."""
    all_topics = [t.value for t in NotificationTopic]
    sets = [[]] + [[t] for t in all_topics] + [list(p) for p in itertools.combinations(all_topics, 2)]
    for t in all_topics:
        for sel in sets:
            yield {"class": "topic-matrix", "users": [user(U1, ["A"], ALL, sel, [], 1)],
                   "unit": {"id": UNIT, "roles": [], "contributors": []}, "topic": t, "about": None}
    for t in all_topics:        # a contributor id in the notification data matters for the new-contributor topic only
        yield {"class": "topic-matrix", "users": [user(U1, ["A"], ALL, [t], [], 1)],
               "unit": {"id": UNIT, "roles": [], "contributors": [U1]}, "topic": t, "about": U1}


def anonymous_cases():
    """Deployment without login: preferences and subscriptions are stored under user id "None", contributions under
    contributor id None.  The statement does not say how this user is matched, so only over-delivery is judged here."""
    for uroles, scope, units, con, subs in itertools.product([[], ["A"]], SCOPES, UNITSETS[:2], [[], [None], [U3]], (1, 2)):
        yield {"class": "anonymous-user", "users": [user(ANON, [], scope, [PLAIN], units, subs)],
               "unit": {"id": UNIT, "roles": uroles, "contributors": con}, "topic": PLAIN, "about": None}


def _two_user_body(ch: explore.Chooser):
    users = []
    for uid in (U1, U2):
        roles = ROLESETS[ch.pick(len(ROLESETS), f"{uid}.roles")]
        scope = SCOPES[ch.pick(len(SCOPES), f"{uid}.scope")]
        tsel = TOPICSETS[ch.pick(len(TOPICSETS), f"{uid}.topics")]
        units = UNITSETS[ch.pick(len(UNITSETS), f"{uid}.units")]
        subs = SUBS[ch.pick(len(SUBS), f"{uid}.subs")]
        users.append(user(uid, roles, scope, tsel, units, subs))
    con = [[], [U1], [U2], [U1, U2], [U3], [U1, U2, U3]][ch.pick(6, "contributors")]
    uroles = ROLESETS[ch.pick(len(ROLESETS), "unit.roles")]
    topic, about = [(PLAIN, None), (NC, U1), (NC, U2), (NC, U3)][ch.pick(4, "topic")]
    return {"class": "two-users", "users": users, "unit": {"id": UNIT, "roles": uroles, "contributors": con},
            "topic": topic, "about": about}


def two_user_cases(bound: int):
    seen = set()
    for choices, case in explore.choice_vectors(_two_user_body, bound):
        key = repr(case)
        if key in seen:
            continue
        seen.add(key)
        yield case
        if case["topic"] == NC and case["about"] is not None and case["about"] not in case["unit"]["contributors"]:
            c2 = dict(case)
            c2["via"] = "add_contributor"
            c2["unit"] = dict(case["unit"], contributors=case["unit"]["contributors"] + [case["about"]])
            c2["class"] = "two-users-via-add_contributor"
            yield c2


def build_cases(quick: bool):
    bound = 2 if quick else 4
    cases = list(one_user_cases(quick)) + list(topic_matrix_cases()) + list(anonymous_cases())
    n1 = len(cases)
    # one-user space again through the real add_contributor path where it applies
    via = []
    for c in cases[:n1]:
        if c["class"] == "one-user" and c["topic"] == NC and c["about"] is not None and c["about"] in c["unit"]["contributors"]:
            c2 = dict(c)
            c2["via"] = "add_contributor"
            c2["class"] = "one-user-via-add_contributor"
            via.append(c2)
    cases += via
    cases += list(two_user_cases(bound))
    # every one-user configuration again as the SECOND save of that user (the first save differed in roles, scope, topics, units)
    resaved = []
    for c in cases[:n1]:
        if c["class"] == "one-user":
            c2 = dict(c)
            c2["resaved"] = True
            c2["class"] = "one-user-second-save"
            resaved.append(c2)
    cases += resaved
    return cases, dict(two_user_deviation_bound=bound)


def nontrivial(case) -> bool:
    """There is something to decide: a stored subscription whose owner has preferences selecting the published topic."""
    return any(u["subs"] > 0 and u["prefs"] and case["topic"] in u["topics"] for u in case["users"])


def work(case):
    obs = run_case(case)
    viol = [(sig, what, case) for sig, what in judge(case, obs)]
    silent_missing = 0
    if case["class"] == "anonymous-user":
        silent_missing = len(expected(case)) - len(obs["sent"]) if len(expected(case)) > len(obs["sent"]) else 0
    return viol, len(obs["sent"]), nontrivial(case), case["class"], silent_missing


def _observe(case):
    return run_case(case)


def run(ctx):
    _setup()
    try:
        cases, bounds = build_cases(ctx.quick)
        ctx.prove_deterministic(_observe, [cases[0], cases[len(cases) // 2], cases[-1]])
        results = ctx.pmap(work, cases)
    finally:
        _teardown()
    per_class: dict[str, int] = collections.Counter()
    sent_total = 0
    nontriv = set()
    delivered_cases = 0
    anon_missing = 0
    anon_missing_sample = None
    for case, (viol, nsent, nt, cls, sm) in zip(cases, results):
        if sm and anon_missing_sample is None:
            anon_missing_sample = case
        anon_missing += sm
        per_class[cls] += 1
        sent_total += nsent
        delivered_cases += 1 if nsent else 0
        if nt:
            nontriv.add(repr(case))
        for sig, what, rep in viol:
            ctx.violation(sig, what, rep)
    if delivered_cases == 0 or sent_total == 0:
        raise HarnessError("the fake sender never received anything: the publisher was not exercised")
    ctx.coverage.update(
        evaluations=len(cases), distinct_nontrivial=len(nontriv), cases_with_delivery=delivered_cases,
        notifications_posted=sent_total, per_class=dict(per_class),
        anonymous_user_entitled_but_not_notified=anon_missing, anonymous_user_sample=anon_missing_sample,
        rule="one evaluation = one configuration stored through the real repository and published once through the real "
             "publisher; non-trivial = a stored subscription whose owner has a preferences row selecting the published topic "
             "(so roles, scope and self-exclusion decide the outcome)",
        samples=[cases[0], cases[len(cases) // 2], cases[-1]], exhaustive=True,
        explanation="one-user space complete; topic matrix complete; two-user space complete within the deviation bound",
        roles=["A", "B"], scopes=SCOPES, topics=[PLAIN, NC, OTHER_TOPIC], **bounds,
    )
    ctx.assumptions += [
        "_post_webpush is replaced by a recording fake (no encryption, no HTTP); delivery failures (410 Gone) are not modelled",
        "the anonymous user of a deployment without login (preferences under 'None', contributions under id None) is a labelled "
        "class: only over-delivery is judged there, missing deliveries are counted in coverage.anonymous_user_entitled_but_not_notified",
        "the notification is fresh (the publisher drops notifications older than 5 minutes)",
        "missing deliveries are reported under the separate kind not-notified: the statement body only bounds delivery from above",
    ]


def replay(data):
    _setup()
    try:
        obs = run_case(data)
        print("unit      :", data["unit"], " topic:", data["topic"], " about:", data.get("about"), " via:", data.get("via", "publish_message"))
        for u in data["users"]:
            print("user      :", u, "-> not entitled because", reasons_not_entitled(u, data) or "(entitled)")
        print("expected  :", expected(data))
        print("posted    :", obs["sent"], " error:", obs["error"])
        return judge(data, obs)
    finally:
        _teardown()
