"""C32 — Role-based access control covers every unit and run endpoint.

The real `AggregatorServer` FastAPI app (scratch sqlite db, scratch VAPID keys) is populated through the real engine-facing
message handlers: for every required-role set R over the role universe one *live* unit (registered, UodInfo with
required_roles=R, tags, running run, run log, error log) and one *past* unit (same, then run stopped -> recent run in the
db, engine disconnected -> recent engine in the db).  Every string of a unit carries a marker unique to it.

Every route object of the app is discovered by introspection and must have a request template in mc/c32_routes.py
(otherwise: violation C32:unchecked-route).  Each unit/run route is called in-process (starlette TestClient) for every
(R, U) pair (U = the caller's roles, delivered in the X-Identity header and decoded by the real auth.user_roles with a fake
token decoder), listings for every U; the method-editor websocket and lint hook are driven for every R.

Oracle (from the statement)
  forbidden (R != {} and R & U == {}):  the request is refused (4xx), nothing is sent to the engine (recording rpc_call),
                                       listings contain neither the id nor the marker of the unit/run
  open (R == {}):                      2xx for everybody, listed for everybody
  holder (R & U != {}):                2xx / listed — the statement only says who is refused; treating "holds one of the
                                       required roles" as entitled is the implied converse and has its own signature kind
The LSP websocket carries no identity at all, so for it every R != {} is a forbidden case.
"""
from __future__ import annotations

import itertools
import json
import logging
import os
import shutil
import tempfile

from mc import c32_routes
from mc.core import HarnessError
from mc.vloop import VirtualLoop

ID = "C32"
LEVEL = "exploration"
META = dict(
    technique="complete enumeration of routes x required-role sets x user-role sets on the in-process FastAPI app",
    text="Every route found by introspection of the real app is called for every pair of required-role set and user-role set "
         "over a small role universe, against live units, recent engines and recent runs created through the real engine "
         "message handlers; status, body markers, listing contents and calls reaching the engine dispatcher are compared with "
         "the access rule of the statement. The finite space is covered completely; a route without a request template is "
         "itself reported.",
    note="JWT validation is replaced by a fake decoder (roles/oid come from a JSON X-Identity header); auth.user_roles / "
         "user_id / user_name and has_access are the real ones. The engine dispatcher's rpc_call is a recorder. "
         "The pub/sub websocket (topic names only, no payload) is exempted with that reason.",
)

REFUSED = range(400, 500)


def key_of(roles) -> str:
    return "".join(sorted(roles)) or "0"


def marker_of(prefix: str, roles) -> str:
    return f"zq{prefix}{key_of(roles).lower()}x"


def subsets(universe):
    out = []
    for n in range(len(universe) + 1):
        out += [tuple(c) for c in itertools.combinations(universe, n)]
    return out


def classify(R, U) -> str:
    if not R:
        return "open"
    return "holder" if set(R) & set(U) else "forbidden"


class Env:
    """The real app with 2 * 2^|universe| units."""

    def __init__(self, universe):
        logging.disable(logging.CRITICAL)
        self.universe = tuple(universe)
        self.role_sets = subsets(self.universe)
        self.tmp = tempfile.mkdtemp(prefix="c32_")
        self._cwd = os.getcwd()
        os.makedirs(os.path.join(self.tmp, "keys"))
        import openpectus.aggregator.deps as agg_deps
        import openpectus.aggregator.routers.auth as auth
        from openpectus.aggregator.aggregator_server import AggregatorServer
        from openpectus.aggregator.data import database
        from openpectus.aggregator.data.models import DBModel
        from openpectus.lsp.lsp_analysis import create_analysis_input
        from fastapi.testclient import TestClient
        self._agg_deps, self._auth = agg_deps, auth
        agg_deps._server = None                       # the module keeps a process-wide singleton
        create_analysis_input.cache_clear()
        self.server = AggregatorServer(db_path=os.path.join(self.tmp, "agg.sqlite3"),
                                       webpush_keys_path=os.path.join(self.tmp, "keys"))
        DBModel.metadata.create_all(database._engine)
        self.app = self.server.fastapi
        self.agg = self.server.aggregator
        self.disp = self.server.dispatcher
        # identity: real dependency functions, fake token decoder
        self._saved_auth = (auth.use_auth, auth.decode_token_or_fail)
        auth.use_auth = True
        auth.decode_token_or_fail = lambda x_identity: json.loads(x_identity)
        # engine side: record what would be sent to the engine
        self.rpc_calls: list[tuple[str, str]] = []

        async def rpc_call(engine_id, message):
            import openpectus.protocol.aggregator_messages as AM
            self.rpc_calls.append((engine_id, type(message).__name__))
            return AM.SuccessMessage()
        self.disp.rpc_call = rpc_call
        self.live: dict[tuple, str] = {}
        self.past: dict[tuple, str] = {}
        self.back: dict[tuple, str] = {}       # live units that were connected before with no required roles
        self.runs: dict[tuple, str] = {}
        self.runs2: dict[tuple, str] = {}      # first run of an engine whose later run requires no roles
        self.setup_exceptions = 0
        self.lsp_reference: dict = {}
        self._populate()
        # one portal (server event loop) for the whole check: ~4 ms per request instead of ~20 ms
        self.client = TestClient(self.app, raise_server_exceptions=False)
        self.client.__enter__()

    # -- population through the real engine-facing handlers ----------------------------------------------
    def _populate(self):
        loop = VirtualLoop()
        try:
            loop.run_until(self._populate_async())
            loop.drain()
            self.setup_exceptions = len(loop.exceptions)
        finally:
            loop.shutdown()

    async def _unit(self, prefix, R, stop_and_disconnect, earlier_session_without_roles=False, computer=None, named_after=None):
        """computer / named_after: the unit is a later session of the engine that was created as _unit(computer, named_after, ..):
        same computer and uod name (same engine id), own marker, own required roles R"""
        import logging as _l
        from unittest.mock import AsyncMock, Mock
        import openpectus.protocol.engine_messages as EM
        import openpectus.protocol.models as PM
        from openpectus import __version__
        d = self.disp
        roles, R = R, (named_after if named_after is not None else R)          # R names the unit, `roles` is what its UOD requires
        mk = marker_of(prefix, R)
        if earlier_session_without_roles:
            # the same engine was connected before with a UOD that required no roles: its RecentEngine row says []
            reply = await d._register_handler(EM.RegisterEngineMsg(
                computer_name=f"pc{prefix}{key_of(R)}", uod_name="uod", uod_author_name=f"author {mk}", uod_author_email="a@b",
                uod_filename="uod.py", location=f"loc {mk}", engine_version=__version__))
            eid0 = reply.engine_id
            d._engine_id_channel_map[eid0] = Mock(name="engine-channel", close=AsyncMock())
            await d._connect_handler(eid0)
            m0 = EM.UodInfoMsg(readings=[], commands=[], uod_definition=PM.UodDefinition(commands=[], system_commands=[], tags=[]),
                               plot_configuration=PM.PlotConfiguration.empty(), hardware_str=f"hw {mk}", required_roles=set(),
                               data_log_interval_seconds=1.0)
            m0.engine_id = eid0
            await d.dispatch_message(m0)
            del d._engine_id_channel_map[eid0]
            await d._disconnect_handler(eid0)
        reply = await d._register_handler(EM.RegisterEngineMsg(
            computer_name=f"pc{computer or prefix}{key_of(R)}", uod_name="uod", uod_author_name=f"author {mk}", uod_author_email="a@b",
            uod_filename="uod.py", location=f"loc {mk}", engine_version=__version__))
        if not reply.success:
            raise HarnessError("C32 setup: engine registration refused")
        eid = reply.engine_id
        d._engine_id_channel_map[eid] = Mock(name="engine-channel", close=AsyncMock())
        await d._connect_handler(eid)
        tag = f"Tag{mk}"

        async def send(msg):
            msg.engine_id = eid
            r = await d.dispatch_message(msg)
            if type(r).__name__ != "SuccessMessage":
                raise HarnessError(f"C32 setup: {type(msg).__name__} answered {r}")
        await send(EM.UodInfoMsg(
            readings=[PM.ReadingInfo(discriminator="reading", tag_name=tag, valid_value_units=None, entry_data_type=None,
                                     commands=[], command_options=None)],
            commands=[PM.CommandInfo(name=f"Cmd{mk}", docstring=f"doc {mk}")],
            uod_definition=PM.UodDefinition(
                commands=[PM.CommandDefinition(name=f"Cmd{mk}", validator=None, docstring=f"doc {mk}")],
                system_commands=[PM.CommandDefinition(name=n, validator=None, docstring=f"system command {n}")
                                 for n in ("Watch", "Alarm", "Mark", "Stop", "Pause", "Wait")],
                tags=[PM.TagDefinition(name=tag, unit="L"), PM.TagDefinition(name="Run Time", unit="s")]),
            plot_configuration=PM.PlotConfiguration(
                process_value_names_to_annotate=[], color_regions=[],
                sub_plots=[PM.SubPlot(axes=[PM.PlotAxis(label=f"axis {mk}", process_value_names=[tag], y_max=10, y_min=0,
                                                        color="#000000")], ratio=1)],
                x_axis_process_value_names=["Run Time"]),
            hardware_str=f"hw {mk}", required_roles=set(roles), data_log_interval_seconds=1.0))
        run_id = f"run-{prefix}{key_of(R)}"

        def tags(t, run):
            return EM.TagsUpdatedMsg(run_id=run, tags=[
                PM.TagValue(name=tag, tick_time=t, value=42.5, value_unit="L", value_formatted=f"42,5 {mk}"),
                PM.TagValue(name="Run Time", tick_time=t, value=t - 1000.0, value_unit="s"),
                PM.TagValue(name="System State", tick_time=t, value="Running", value_unit=None)])
        await send(tags(1000.0, None))
        await send(EM.RunStartedMsg(run_id=run_id, started_tick=1000.0))
        await send(tags(1002.0, run_id))
        await send(tags(1004.0, run_id))
        runlog = PM.RunLog(lines=[PM.RunLogLine(id="line1", command_name=f"Cmd{mk}", start=1001.0, end=None, progress=None,
                                                start_values=[], end_values=[], forcible=True, cancellable=True)])
        await send(EM.RunLogMsg(id="rl1", run_id=run_id, runlog=runlog))
        await send(EM.ErrorLogMsg(log=PM.ErrorLog(entries=[PM.ErrorLogEntry(message=f"error {mk}", created_time=1001.0,
                                                                            severity=_l.ERROR)])))
        await send(EM.MethodMsg(method=PM.Method(version=0, lines=[PM.MethodLine(id="m1", content=f"Mark: {mk}"),
                                                                   PM.MethodLine(id="m2", content="")])))
        await send(EM.ControlStateMsg(control_state=PM.ControlState(is_running=True, is_holding=False, is_paused=False)))
        await send(EM.MethodStateMsg(method_state=PM.MethodState(started_line_ids=["m1"], executed_line_ids=[],
                                                                 injected_line_ids=[], failed_line_ids=[])))
        if stop_and_disconnect:
            await send(EM.RunStoppedMsg(run_id=run_id, runlog=runlog, method_state=PM.MethodState.empty(),
                                        archive=f"archive {mk}", archive_filename=f"{mk}.csv"))
            del d._engine_id_channel_map[eid]
            await d._disconnect_handler(eid)
        return eid, run_id

    async def _populate_async(self):
        for R in self.role_sets:
            self.live[R], _ = await self._unit("l", R, False)
            self.past[R], self.runs[R] = await self._unit("p", R, True)
            self.back[R], _ = await self._unit("b", R, False, earlier_session_without_roles=True)
            # an engine whose UOD required R during its first run and requires nothing during a later run: two recent runs of
            # one engine with different required roles
            eid1, self.runs2[R] = await self._unit("t", R, True)
            eid2, _ = await self._unit("u", (), True, computer="t", named_after=R)
            if eid1 != eid2:
                raise HarnessError("C32 setup: the second session did not get the engine id of the first")

    # -- requests -------------------------------------------------------------------------------------------
    def current_method_version(self, unit_id) -> int:
        ed = self.agg.get_registered_engine_data(unit_id)
        return ed.method.version if ed is not None else 0

    def identity(self, U) -> dict:
        return {"X-Identity": json.dumps({"roles": sorted(U), "oid": f"user-{key_of(U)}",
                                          "preferred_username": f"user{key_of(U)}@example.org"})}

    def request(self, spec, target_id, U) -> dict:
        req = spec["build"](self, target_id)
        self.rpc_calls.clear()
        resp = self.client.request(req["method"], req["url"], json=req.get("json"), params=req.get("params"),
                                   headers=self.identity(U))
        return {"request": {k: v for k, v in req.items() if v is not None}, "status": resp.status_code, "body": resp.text,
                "rpc": list(self.rpc_calls)}

    def close(self):
        try:
            self.client.__exit__(None, None, None)      # runs the app's lifespan shutdown (stores recent engines in the scratch db)
        except Exception:                               # noqa: BLE001
            pass
        auth = self._auth
        auth.use_auth, auth.decode_token_or_fail = self._saved_auth
        self._agg_deps._server = None
        try:
            from openpectus.aggregator.data import database
            if database._engine is not None:
                database._engine.dispose()
        finally:
            shutil.rmtree(self.tmp, ignore_errors=True)


# ---------------------------------------------------------------------------------------------------------
# oracles

def judge_request(route, target_kind, R, U, res, marker) -> list[tuple[str, str]]:
    """Per-request verdicts: list of (kind, what).  kinds are turned into signatures by the caller."""
    cls = classify(R, U)
    ok = 200 <= res["status"] < 300
    out = []
    rname = f"{route[0]} {route[1]}"
    ctxt = (f"{rname} on {target_kind} requiring roles {sorted(R)} as user with roles {sorted(U)}: status {res['status']}, "
            f"engine calls {res['rpc']}, body {res['body'][:160]!r}")
    if cls == "forbidden":
        if ok:
            leak = marker in res["body"].lower()
            out.append(("not-refused", ctxt + (" — body contains the unit's marker (data leak)" if leak else
                                               " — body carries no data of the unit (constant answer)")))
        if res["rpc"]:
            out.append(("engine-reached", ctxt))
    elif target_kind != "recent_engine":            # an offline unit is 404 for everybody; only refusal is asserted there
        if not ok:
            out.append(("open-unit-refused" if cls == "open" else "role-holder-refused", ctxt))
    return out


LSP_URI = "file:///c32/method.pcode"


def lsp_session(env: Env, engine_id: str, text: str) -> dict:
    """One method-editor session on the real websocket route, without any identity: initialize(engineId), didOpen,
    hover on the tag of line 0, completion at the end of the last line, then wait for the diagnostics that pylsp
    publishes from its debounce timer (0.5 s real time), shutdown, exit."""
    import time
    out = {"engine_id": engine_id, "diagnostics": None}
    last_line = text.split("\n")[-1]
    with env.client.websocket_connect("/api/lsp/websocket") as ws:
        def call(id, method, params):
            ws.send_json({"jsonrpc": "2.0", "id": id, "method": method, "params": params})
            for _ in range(100):
                m = ws.receive_json()
                if m.get("method") == "textDocument/publishDiagnostics":
                    out["diagnostics"] = json.dumps(m["params"]["diagnostics"], sort_keys=True)
                if m.get("id") == id and "method" not in m:
                    return m.get("result", {"error": (m.get("error") or {}).get("message")})
            raise HarnessError("C32: no answer from the LSP websocket")

        def notify(method, params):
            ws.send_json({"jsonrpc": "2.0", "method": method, "params": params})
        call(1, "initialize", {"processId": None, "rootUri": "file:///c32", "capabilities": {},
                               "initializationOptions": {"engineId": engine_id}})
        notify("initialized", {})
        notify("textDocument/didOpen", {"textDocument": {"uri": LSP_URI, "languageId": "pcode", "version": 1, "text": text}})
        hover = {"textDocument": {"uri": LSP_URI}, "position": {"line": 0, "character": 9}}
        out["hover"] = json.dumps(call(2, "textDocument/hover", hover))
        out["completion"] = json.dumps(call(3, "textDocument/completion", {
            "textDocument": {"uri": LSP_URI}, "position": {"line": text.count("\n"), "character": len(last_line)}}))
        # the timer thread hands its message to the server loop without waking it: poke the loop until it shows up
        t0, n = time.monotonic(), 10
        while out["diagnostics"] is None:
            if time.monotonic() - t0 > 60:
                raise HarnessError("C32: the LSP server published no diagnostics within 60 s")
            time.sleep(0.05)
            n += 1
            call(n, "textDocument/hover", hover)
        call(4, "shutdown", None)
        notify("exit", None)
    return out


def lsp_scenario(env: Env, R) -> dict:
    """The method editor opened on live unit L_R (no identity), and on a unit id that does not exist (reference)."""
    mk = marker_of("l", R)
    text = f"Watch: Tag{mk} > 3 L\n    Cmd{mk}\n    CmdNotDefinedAnywhere\nWatch: T"
    out = lsp_session(env, env.live[R], text)
    out["marker"] = mk
    out["lint"] = out.pop("diagnostics")
    if "no-such-unit" not in env.lsp_reference:
        env.lsp_reference["no-such-unit"] = {}
    ref = env.lsp_reference["no-such-unit"]
    if text not in ref:
        ref[text] = lsp_session(env, "no-such-unit", text)["diagnostics"]
    out["lint_nonexistent_unit"] = ref[text]
    return out


def judge_lsp(R, obs) -> list[str]:
    """Which LSP entry points returned data of the unit (marker / dependence on the unit's definition)."""
    leaks = []
    if obs["marker"] in obs["hover"].lower():
        leaks.append("hover returns the current process value")
    if obs["marker"] in obs["completion"].lower():
        leaks.append("completion lists the unit's tag names")
    if obs["lint"] != obs["lint_nonexistent_unit"]:
        leaks.append("lint diagnostics depend on the unit's command/tag definition")
    return leaks


# ---------------------------------------------------------------------------------------------------------

def explore(env: Env, only_route=None):
    """Whole space on one Env.  Returns (violations [(sig, what, replay)], stats)."""
    viol: list[tuple[str, str, dict]] = []
    universe = list(env.universe)
    discovered = c32_routes.discover(env.app)
    stats = dict(requests=0, routes=len(discovered), unit_routes=0, run_routes=0, listing_routes=0, exempt_routes=0,
                 refused=0, allowed=0, forbidden_cases=0, open_cases=0, holder_cases=0, engine_calls_allowed=0,
                 statuses={}, nontrivial=set(), samples=[], exempt={}, per_route={})
    for route in discovered:
        if only_route and list(route) != list(only_route):
            continue
        spec = c32_routes.TABLE.get(route)
        rname = f"{route[0]} {route[1]}"
        if spec is None:
            viol.append((f"C32:unchecked-route:{rname}",
                         f"route {rname} exists in the app but mc/c32_routes.py has no request template or exemption for it",
                         {"kind": "unchecked", "route": list(route), "universe": universe}))
            continue
        takes = any(p in route[1] for p in ("{unit_id}", "{engine_id}", "{run_id}"))
        if spec["kind"] == "exempt":
            if takes:
                raise HarnessError(f"C32: {rname} takes a unit/run id but is exempted in c32_routes.py")
            stats["exempt_routes"] += 1
            stats["exempt"][rname] = spec["reason"]
            continue
        pr = stats["per_route"].setdefault(rname, {"refused": 0, "allowed": 0, "viol": 0})
        if spec["kind"] in ("unit", "run"):
            stats["unit_routes" if spec["kind"] == "unit" else "run_routes"] += 1
            targets = ([("live_unit", env.live, "l"), ("recent_engine", env.past, "p")] if spec["kind"] == "unit"
                       else [("recent_run", env.runs, "p"), ("recent_run", env.runs2, "t")])
            for tkind, ids, prefix in targets:
                found: dict[str, list] = {}
                n_forbidden = 0
                for R in env.role_sets:
                    for U in env.role_sets:
                        cls = classify(R, U)
                        res = env.request(spec, ids[R], U)
                        stats["requests"] += 1
                        stats[cls + "_cases"] += 1
                        stats["statuses"][res["status"]] = stats["statuses"].get(res["status"], 0) + 1
                        ok = 200 <= res["status"] < 300
                        n_forbidden += cls == "forbidden"
                        if ok:
                            stats["allowed"] += 1
                            pr["allowed"] += 1
                            if res["rpc"]:
                                stats["engine_calls_allowed"] += 1
                        elif res["status"] in REFUSED:
                            stats["refused"] += 1
                            pr["refused"] += tkind != "recent_engine"
                        stats["nontrivial"].add((rname, tkind, cls, res["status"], bool(res["rpc"])))
                        if len(stats["samples"]) < 6 and cls == "forbidden" and tkind != "recent_engine":
                            stats["samples"].append({"route": rname, "target": tkind, "R": list(R), "U": list(U), "status": res["status"]})
                        for kind, what in judge_request(route, tkind, R, U, res, marker_of(prefix, R)):
                            found.setdefault(kind, []).append((what, {"kind": "rest", "route": list(route), "target_kind": tkind,
                                                                      "R": list(R), "U": list(U), "universe": universe}))
                        if spec.get("engine_effect") and ok and not res["rpc"] and tkind == "live_unit":
                            raise HarnessError(f"C32: {rname} succeeded without reaching the recording dispatcher")
                for kind, items in found.items():
                    pr["viol"] += len(items)
                    if kind == "not-refused":
                        sig = (f"C32:no-role-check:{rname}" if len(items) == n_forbidden else f"C32:role-check-too-lax:{rname}")
                        extra = f" [{len(items)} of {n_forbidden} forbidden (R,U) pairs on {tkind} were served]"
                    else:
                        sig, extra = f"C32:{kind}:{rname}", f" [{len(items)} cases on {tkind}]"
                    viol.append((sig, items[0][0] + extra, items[0][1]))
        elif spec["kind"] == "listing":
            stats["listing_routes"] += 1
            groups = {"units+recent_engines": [("live_unit", env.live, "l", True), ("recent_engine", env.past, "p", True),
                                               ("live_unit", env.back, "b", True)],
                      "units": [("live_unit", env.live, "l", True), ("recent_engine", env.past, "p", False),
                                ("live_unit", env.back, "b", True)],
                      "runs": [("recent_run", env.runs, "p", True), ("recent_run", env.runs2, "t", True)]}[spec["of"]]
            for U in env.role_sets:
                res = env.request(dict(build=lambda e, i, _p=route[1]: dict(method="GET", url=_p)), "", U)
                stats["requests"] += 1
                stats["statuses"][res["status"]] = stats["statuses"].get(res["status"], 0) + 1
                rp = {"kind": "listing", "route": list(route), "U": list(U), "universe": universe}
                if not 200 <= res["status"] < 300:
                    viol.append((f"C32:listing-failed:{rname}", f"{rname} as user with roles {sorted(U)}: status {res['status']}", rp))
                    continue
                ids_listed = set(spec["ids"](json.loads(res["body"])))
                body = res["body"].lower()
                for tkind, ids, prefix, must_list in groups:
                    for R in env.role_sets:
                        cls = classify(R, U)
                        stats[cls + "_cases"] += 1
                        present = ids[R] in ids_listed
                        leak = marker_of(prefix, R) in body
                        stats["nontrivial"].add((rname, tkind, cls, present))
                        if cls == "forbidden":
                            pr["refused"] += not present
                            if present or leak:
                                pr["viol"] += 1
                                viol.append((f"C32:listing-leak:{rname}:{tkind}",
                                             f"{rname} as user with roles {sorted(U)} lists {tkind} {ids[R]} requiring roles {sorted(R)} "
                                             f"(id listed={present}, marker in body={leak})", rp))
                        elif must_list:
                            pr["allowed"] += present
                            if not present:
                                pr["viol"] += 1
                                viol.append((f"C32:listing-omits-{'open' if cls == 'open' else 'entitled'}:{rname}:{tkind}",
                                             f"{rname} as user with roles {sorted(U)} omits {tkind} {ids[R]} requiring roles {sorted(R)}", rp))
        elif spec["kind"] == "lsp_ws":
            stats["unit_routes"] += 1
            for R in env.role_sets:
                obs = lsp_scenario(env, R)
                leaks = judge_lsp(R, obs)
                stats["requests"] += 6
                stats["nontrivial"].add((rname, "live_unit", "open" if not R else "forbidden", tuple(leaks)))
                if not R:
                    stats["open_cases"] += 1
                    pr["allowed"] += bool(leaks)
                    if len(leaks) < 3:
                        raise HarnessError(f"C32: the LSP scenario is vacuous for the open unit (got only {leaks}): {obs}")
                else:
                    stats["forbidden_cases"] += 1
                    pr["refused"] += not leaks
                    if leaks:
                        pr["viol"] += 1
                        viol.append((f"C32:no-role-check:{rname}",
                                     f"the method-editor websocket {route[1]} (no identity, initializationOptions.engineId={obs['engine_id']}) "
                                     f"serves a unit requiring roles {sorted(R)}: " + "; ".join(leaks) + f". hover answer: {obs['hover'][:120]}",
                                     {"kind": "lsp", "R": list(R), "universe": universe}))
    return viol, stats


def run(ctx):
    universe = ("A", "B") if ctx.quick else ("A", "B", "C")
    env = Env(universe)
    try:
        viol, stats = explore(env)
        # determinism: the whole matrix a second time on the same app must give the same verdicts
        viol2, _ = explore(env)
        if [(s, r) for s, _, r in viol] != [(s, r) for s, _, r in viol2]:
            raise HarnessError("C32: two passes over the same space gave different verdicts")
    finally:
        env.close()
    seen = set()
    for sig, what, rp in viol:
        ctx.violation(sig, what, rp)
        seen.add(sig)
    # non-vacuity per route: role checking must be visibly active (>= 1 refusal and >= 1 success) unless the route is reported
    for rname, pr in sorted(stats["per_route"].items()):
        if pr["viol"] == 0 and (pr["refused"] == 0 or pr["allowed"] == 0):
            raise HarnessError(f"C32 vacuous for {rname}: refused={pr['refused']} allowed={pr['allowed']}")
    if env.setup_exceptions:
        raise HarnessError("C32 setup: a background task raised while populating the aggregator")
    ctx.note(f"[C32] universe={universe} routes={stats['routes']} (unit {stats['unit_routes']}, run {stats['run_routes']}, listing "
             f"{stats['listing_routes']}, exempt {stats['exempt_routes']}) requests={stats['requests']} refused={stats['refused']} "
             f"allowed={stats['allowed']} statuses={dict(sorted(stats['statuses'].items()))}")
    ctx.coverage.update(
        evaluations=stats["requests"], distinct_nontrivial=len(stats["nontrivial"]),
        rule="every discovered route x required-role set x user-role set x target kind is one in-process request (listings: one per "
             "user-role set, judged per listed/omitted target); non-trivial = distinct (route, target kind, access class, outcome)",
        samples=stats["samples"], exhaustive=True, role_universe=list(universe), role_sets=len(env.role_sets),
        routes_discovered=stats["routes"], unit_routes=stats["unit_routes"], run_routes=stats["run_routes"],
        listing_routes=stats["listing_routes"], exempt_routes=stats["exempt"], requests_refused=stats["refused"],
        requests_served=stats["allowed"], served_requests_reaching_engine=stats["engine_calls_allowed"],
        forbidden_cases=stats["forbidden_cases"], open_cases=stats["open_cases"], role_holder_cases=stats["holder_cases"],
        status_histogram={str(k): v for k, v in sorted(stats["statuses"].items())},
        per_route={k: v for k, v in sorted(stats["per_route"].items())},
        explanation="the space routes x 2^|roles| x 2^|roles| x target kinds is finite and enumerated completely, twice (determinism)",
    )
    ctx.assumptions += [
        "token validation (Azure JWKS) is not exercised: X-Identity carries the claims as JSON, decoded by a fake decode_token_or_fail; "
        "auth.use_auth is switched on so that the real user_roles/user_id/user_name dependencies read the claims",
        "a user holding at least one of the required roles is entitled (implied converse of the statement; separate signature kind)",
        "refusal = any 4xx; offline (recent) engines answer 404 to unit routes for everybody, only refusal is asserted for them",
        "LSP: hover, completion and published diagnostics through the real websocket route with starlette's TestClient; 'reads unit "
        "data' = the answer contains the unit's marker (hover, completion) or differs from the answer for a unit id that does not "
        "exist (diagnostics)",
    ]


def replay(data):
    env = Env(tuple(data["universe"]))
    out = []
    try:
        if data["kind"] == "unchecked":
            route = tuple(data["route"])
            present = route in c32_routes.discover(env.app)
            print(f"route {route} present in app: {present}; template present: {route in c32_routes.TABLE}")
            if present and route not in c32_routes.TABLE:
                out.append((f"C32:unchecked-route:{route[0]} {route[1]}", "route has no request template"))
        elif data["kind"] == "lsp":
            R = tuple(data["R"])
            obs = lsp_scenario(env, R)
            for k in ("engine_id", "hover", "completion", "lint", "lint_nonexistent_unit"):
                print(f"  {k:22} {obs[k][:300]}")
            leaks = judge_lsp(R, obs)
            print(f"unit requires roles {sorted(R)}; websocket carries no identity; leaks: {leaks}")
            if R and leaks:
                out.append(("C32:no-role-check:WS /api/lsp/websocket", "; ".join(leaks)))
        else:
            viol, _ = explore(env, only_route=data["route"])
            route = tuple(data["route"])
            spec = c32_routes.TABLE[route]
            if data["kind"] == "rest":
                R, U = tuple(data["R"]), tuple(data["U"])
                ids = {"live_unit": env.live, "recent_engine": env.past, "recent_run": env.runs}[data["target_kind"]]
                res = env.request(spec, ids[R], U)
                print(f"{res['request']} as user with roles {sorted(U)} on {data['target_kind']} {ids[R]} requiring {sorted(R)}")
                print(f"  -> status {res['status']}, engine calls {res['rpc']}, body {res['body'][:300]!r}")
            for sig, what, _ in viol:
                print(f"  {sig}: {what[:300]}")
                out.append((sig, what))
    finally:
        env.close()
    return out
