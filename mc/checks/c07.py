"""C07 — Method clocks advance only while running.

Exhaustive enumeration of control-command / tick sequences with varying tick increments on the real Engine; per tick the
deltas of Process Time, Run Time, Block Time and Scope Time are compared with the run state around that tick.
"""
from __future__ import annotations

from mc import seqexplore
from mc.core import HarnessError
from mc.engine_harness import Run

ID = "C07"
LEVEL = "model_checking"
META = dict(
    technique="exhaustive enumeration of control-command/tick sequences with several tick increments on the real Engine with a per-tick clock-delta oracle",
    text="After Start and a warm-up that puts the method inside a Block / Watch scope / failing line (also: in the second run after "
         "a run that ended while Paused or was restarted while on Hold), every sequence over "
         "{Pause, Unpause, Hold, Unhold, Stop, Start, Restart, tick(0.1), tick(0.25), tick(0)} of the given depth is executed; "
         "Process Time and Run Time must start at 0, never decrease, and advance by exactly the tick increment only while "
         "Running / while a run is active; Block Time and Scope Time must not advance over ticks that begin and end Paused "
         "or Holding.",
    note="A tick in which the state changes may take either value (the statement does not fix the instant); depth 5/6.",
)

ALPHABET = [("user", "Pause"), ("user", "Unpause"), ("user", "Hold"), ("user", "Unhold"), ("user", "Stop"), ("user", "Start"),
            ("user", "Restart"), ("tick", 1, 0.1), ("tick", 1, 0.25), ("tick", 1, 0.0), ("tick", 3, 0.1)]
# (method, warm-up events)
SETUPS = [
    ("Block: B\n    Wait: 100s", [("user", "Start"), ("tick", 5, 0.1)]),
    ("Wait: 100s", [("user", "Start"), ("tick", 4, 0.1)]),
    ("Watch: X > 1\n    Wait: 100s\nWait: 100s", [("input", "In1", 2.0), ("user", "Start"), ("tick", 6, 0.1)]),
    ("Block: B\n    Mark: a\n    Bogus", [("user", "Start"), ("tick", 5, 0.1)]),
    ("Block: B\n    Hold: 0.3s\n    Pause: 0.3s\n    Wait: 100s", [("user", "Start"), ("tick", 4, 0.1)]),
    # second run: the first run ended while Paused / was restarted while on Hold
    ("Block: B\n    Wait: 100s", [("user", "Start"), ("tick", 5, 0.1), ("user", "Pause"), ("tick", 1, 0.1), ("user", "Stop"),
                                   ("tick", 3, 0.1), ("user", "Start"), ("tick", 5, 0.1)]),
    ("Block: B\n    Wait: 100s", [("user", "Start"), ("tick", 5, 0.1), ("user", "Hold"), ("tick", 1, 0.1), ("user", "Restart"),
                                   ("tick", 8, 0.1)]),
]
EPS = 1e-9
STILL = ("Paused", "Holding")


def make_checker():
    mem = {"run_started_seen": False}

    def check(run: Run, ev, nobs, nreq):
        probs = []
        for i in range(nobs, len(run.obs)):
            ob = run.obs[i]
            pre, post = ob["pre_state"], ob["state"]
            inc = ob["inc"]
            pc, tc = ob["pre_clocks"], ob["tags"]
            # a run began in this tick (Start or the last phase of Restart): clocks are zero (plus at most this tick)
            rid = tc["Run Id"]
            began = ob["flags"]["started"] and rid != mem.get("rid")      # also a whole Restart inside one tick
            mem["rid"] = rid if ob["flags"]["started"] else None
            if began:
                for name in ("Process Time", "Run Time"):
                    if not (-EPS <= tc[name] <= inc + EPS):
                        probs.append((f"C07:not-zero-at-run-start:{name}", f"tick {ob['n']}: run started but {name} = {tc[name]}"))
                continue
            if not ob["flags"]["started"] and not ob["pre_flags"]["started"]:
                continue
            active_both = ob["flags"]["started"] and ob["pre_flags"]["started"]
            for name in ("Process Time", "Run Time"):
                d = tc[name] - pc[name]
                if active_both and d < -EPS:
                    probs.append((f"C07:decreased:{name}:{pre}>{post}", f"tick {ob['n']}: {name} went {pc[name]} -> {tc[name]} ({pre}->{post})"))
                if active_both and not (abs(d) <= EPS or abs(d - inc) <= EPS):
                    probs.append((f"C07:delta-not-increment:{name}", f"tick {ob['n']}: {name} advanced by {d}, increment {inc}"))
            dp = tc["Process Time"] - pc["Process Time"]
            # (also over the tick in which a Restart takes the run from Restarting to Stopped: the run was active when it began)
            if ob["pre_flags"]["started"] and dp > EPS and pre != "Running" and post != "Running":
                probs.append((f"C07:process-time-advanced:{pre}>{post}", f"tick {ob['n']}: Process Time advanced by {dp} over a tick that was {pre}->{post}"))
            # the same judged by the control flags (the System State tag may itself be wrong: that is C06, but the clock must not
            # follow a wrong tag)
            susp_pre = ob["pre_flags"]["paused"] or ob["pre_flags"]["holding"]
            susp_post = ob["flags"]["paused"] or ob["flags"]["holding"]
            if active_both and dp > EPS and susp_pre and susp_post and not (pre != "Running" and post != "Running"):
                probs.append(("C07:process-time-advanced:while-flags-say-paused-or-holding",
                              f"tick {ob['n']}: Process Time advanced by {dp} although the run was paused/on hold before and after the "
                              f"tick (flags {ob['pre_flags']} -> {ob['flags']}, System State {pre}->{post})"))
            if active_both and inc > EPS and dp <= EPS and pre == "Running" and post == "Running":
                probs.append(("C07:process-time-stalled-while-running", f"tick {ob['n']}: Running but Process Time did not advance (inc {inc})"))
            dr = tc["Run Time"] - pc["Run Time"]
            if active_both and inc > EPS and abs(dr - inc) > EPS and pre not in ("Stopped", "Restarting") and post not in ("Stopped", "Restarting"):
                probs.append((f"C07:run-time-delta:{pre}>{post}", f"tick {ob['n']}: run active but Run Time advanced by {dr}, increment {inc}"))
            for name in ("Block Time", "Scope Time"):
                d = tc[name] - pc[name]
                if active_both and d > EPS and pre in STILL and post in STILL:
                    cause = "error-pause" if run.engine.has_error_state() else pre
                    probs.append((f"C07:{name.lower().replace(' ', '-')}-advanced:{cause if cause == 'error-pause' else pre + '>' + post}",
                                  f"tick {ob['n']}: {name} advanced {pc[name]} -> {tc[name]} over a tick that was {pre}->{post}"))
                if active_both and d > inc + EPS and pre == "Running" and post == "Running" and inc > 0:
                    probs.append((f"C07:{name.lower().replace(' ', '-')}-advanced-more-than-increment",
                                  f"tick {ob['n']}: {name} advanced by {d} with increment {inc}"))
        return probs
    return check


def run_item(item):
    si, chunk = item
    method, warm = SETUPS[si]
    out = []
    n = 0
    kinds = set()
    for seq in chunk:
        probs, run = seqexplore.run_sequence(method, ALPHABET, seq, make_checker(), observe=("tags",), warmup=warm)
        n += 1
        for ob in run.obs:
            kinds.add((ob["pre_state"], ob["state"], ob["inc"], bool(ob["tags"]["Block"])))
        seen = set()
        for sig, what, k in probs:
            if sig not in seen:
                seen.add(sig)
                evs = [list(e) for e in warm] + [list(ALPHABET[i]) for i in seq]
                out.append((sig, what, {"method": method, "events": evs[:k + 1]}))
        run.cleanup()
    return out, n, sorted(map(repr, kinds))


def run(ctx):
    depth = 4 if ctx.quick else 5
    items = []
    for si in range(len(SETUPS)):
        for a in range(len(ALPHABET)):
            chunk = [(a,) + rest for rest in seqexplore.all_sequences(ALPHABET, depth - 1)]
            items.append((si, chunk))
    ctx.prove_deterministic(lambda it: run_item((it[0], it[1][:30]))[0], [items[0], items[20]], k=2)
    results = ctx.pmap(run_item, items, chunk=1)
    n = 0
    kinds = set()
    for it, (viol, cnt, ks) in zip(items, results):
        n += cnt
        kinds.update(ks)
        for sig, what, rep in viol:
            ctx.violation(sig, what, rep)
    if len(kinds) < 10:
        raise HarnessError("vacuous: too few distinct tick kinds")
    ctx.coverage.update(
        states=len(kinds), transitions=n * depth, traces_validated_against_impl=n, evaluations=n,
        distinct_nontrivial=len(kinds),
        rule="all sequences of the given depth after each warm-up; states = distinct (state before, state after, increment, "
             "inside a block) tick kinds observed",
        samples=[[list(e) for e in SETUPS[0][1]] + [list(ALPHABET[i]) for i in items[3][1][7]]],
        depth=depth, setups=[s[0] for s in SETUPS], alphabet=[list(a) for a in ALPHABET], exhaustive=True)


def replay(data):
    alphabet = [tuple(e) for e in data["events"]]
    probs, run = seqexplore.run_sequence(data["method"], alphabet, list(range(len(alphabet))), make_checker(), observe=("tags",))
    print("method:", repr(data["method"]))
    print("events:", data["events"])
    for ob in run.obs:
        t = ob["tags"]
        print(f"  tick {ob['n']} inc={ob['inc']} {ob['pre_state']}->{ob['state']} PT={t['Process Time']:.2f} RT={t['Run Time']:.2f} "
              f"BT={t['Block Time']:.2f} ST={t['Scope Time']:.2f} block={t['Block']}")
    seen = set()
    out = []
    for sig, what, k in probs:
        if sig not in seen:
            seen.add(sig)
            out.append((sig, what))
    return out
