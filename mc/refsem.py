"""Untimed reference semantics of the P-code main flow (DESIGN §1.4).

Input: source lines (well indented, generator output).  Output: the expected order in which main-flow lines start and
the expected sequence of Marks produced by the main flow.  Watch/Alarm only register (their bodies belong to
interrupts and are not part of the main flow); `Call macro` inlines the body most recently defined *in execution
order*; `End block` ends the innermost enclosing block, `End blocks` all of them; a block without End block(s) never
ends, so nothing after it runs; recursion (a macro that calls itself directly or indirectly, anywhere in its body) is
an error at the call; `Stop`/`Restart` end the flow.  Timed facts are never taken from here.
"""
from __future__ import annotations

from mc import pgen


class Blocked(Exception):
    """The main flow waits forever (block never ended, Stop, error)."""

    def __init__(self, why):
        self.why = why


class EndBlock(Exception):
    def __init__(self, levels):
        self.levels = levels        # 1 = innermost, None = all


def build_tree(lines):
    info = pgen.line_info(lines)
    for li in info:
        li["children"] = []
    roots = []
    for li in info:
        if li["parent"] is None:
            roots.append(li)
        else:
            info[li["parent"]]["children"].append(li)
    return info, roots


def calls_in(body, macros, seen=None):
    """All macro names called anywhere inside a body (recursively through nesting), transitively through `macros`."""
    seen = seen if seen is not None else set()
    out = set()
    for li in body:
        if li["name"] == "Call macro":
            nm = li["arg"]
            out.add(nm)
            if nm in macros and nm not in seen:
                seen.add(nm)
                out |= calls_in(macros[nm]["children"], macros, seen)
        if li["children"] and li["name"] != "Macro":
            out |= calls_in(li["children"], macros, seen)
    return out


def reference(lines):
    """Returns dict(starts=[line ids in expected start order], marks=[mark names], end=why the flow ended,
    error_line=id or None, interrupts=[ids of Watch/Alarm lines registered])."""
    info, roots = build_tree(lines)
    starts, marks, interrupts = [], [], []
    macros: dict[str, dict] = {}
    depth_blocks = [0]
    result = {"starts": starts, "marks": marks, "interrupts": interrupts, "end": "idle", "error_line": None}

    def run_body(body, in_blocks):
        for li in body:
            if li["blank"]:
                continue
            name = li["name"]
            if name in ("Watch", "Alarm"):
                interrupts.append(li["id"])
                continue
            starts.append(li["id"])
            if name == "Mark":
                marks.append(li["arg"])
            elif name == "Macro":
                macros[li["arg"]] = li
            elif name == "Call macro":
                nm = li["arg"]
                if nm not in macros:
                    result["error_line"] = li["id"]
                    raise Blocked("undefined-macro")
                if nm in calls_in(macros[nm]["children"], macros):
                    result["error_line"] = li["id"]
                    raise Blocked("recursion")
                run_body(macros[nm]["children"], in_blocks)
            elif name == "Block":
                try:
                    run_body(li["children"], in_blocks + 1)
                except EndBlock as eb:
                    if eb.levels is None:
                        if in_blocks > 0:
                            raise
                    elif eb.levels > 1:
                        raise EndBlock(eb.levels - 1)
                    continue
                raise Blocked("block-never-ended")
            elif name == "End block":
                if in_blocks > 0:
                    raise EndBlock(1)
            elif name == "End blocks":
                if in_blocks > 0:
                    raise EndBlock(None)
            elif name in ("Stop", "Restart"):
                raise Blocked(name.lower())
            elif name in ("Bogus",):
                result["error_line"] = li["id"]
                raise Blocked("error")

    try:
        run_body(roots, 0)
    except Blocked as b:
        result["end"] = b.why
    except EndBlock:
        result["end"] = "idle"
    return result
