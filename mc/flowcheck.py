"""Shared per-run structural observers for C02 / C05: runtime records, node flags, block chains."""
from __future__ import annotations

import collections

from mc import pgen, refsem
from mc.engine_harness import Run

WS = ("BlankNode", "CommentNode")


def record_table(run: Run) -> dict:
    """node id -> dict(first_visit, end_visit, started_ticks=[...], started_by_instance={iid: n}, states=[(name, tick)])"""
    out = {}
    rt = run.engine.tracking.runtimeinfo
    for r in rt.records:
        if r.node_class_name == "NullNode":
            continue
        d = out.setdefault(r.node_id, {"first_visit": r.visit_start_tick, "end_visit": r.visit_end_tick, "started": [],
                                       "by_instance": collections.Counter(), "cls": r.node_class_name, "states": []})
        for st in r.states:
            nm = str(st.state_name).split(".")[-1].lower()
            d["states"].append((nm, st.state_tick))
            if nm == "started":
                d["started"].append(st.state_tick)
                d["by_instance"][st.instance_id] += 1
    return out


def tree(run: Run):
    prog = run.engine.method_manager.program
    return prog, prog.get_all_nodes()


def active_blocks(nodes):
    return [n for n in nodes if type(n).__name__ == "BlockNode" and n.lock_acquired and not n.block_ended]


def is_chain(blocks) -> bool:
    """every pair is in an ancestor relation"""
    for a in blocks:
        for b in blocks:
            if a is b:
                continue
            if a not in b.parents and b not in a.parents:
                return False
    return True


def innermost(blocks):
    if not blocks:
        return None
    return max(blocks, key=lambda b: len(b.parents))


def trailing_ws_problems(nodes, tick):
    probs = []
    for n in nodes:
        ch = getattr(n, "children", None)
        if not ch:
            continue
        k = len(ch)
        while k > 0 and type(ch[k - 1]).__name__ in WS:
            k -= 1
        if k == len(ch):
            continue
        allws = ":all-whitespace-scope" if k == 0 else ""
        if not allws:
            last_line = max(c.position.line for c in ch)
            later = [m for m in nodes if type(m).__name__ not in WS + ("ProgramNode",) and m.position.line > last_line]
            if later:
                allws = ":followed-by-a-line-of-an-outer-scope"
        for c in ch[k:]:
            if c.completed:
                probs.append((f"trailing-whitespace-passed:{type(n).__name__}{allws}",
                              f"tick {tick}: trailing {type(c).__name__} (line {c.id}) of {type(n).__name__} {n.id} is completed"))
        block_done = type(n).__name__ == "BlockNode" and (n.completed or n.block_ended)
        interrupted = type(n).__name__ in ("WatchNode", "AlarmNode", "MacroNode", "InjectedNode")
        if n.child_index > k and not block_done and not interrupted and not n.completed:
            probs.append((f"cursor-beyond-trailing-whitespace:{type(n).__name__}{allws}",
                          f"tick {tick}: child_index {n.child_index} of {type(n).__name__} {n.id} is beyond its first trailing whitespace child {k}"))
    return probs


def in_repeating_body(info, idx) -> bool:
    """line lies in an Alarm or Macro body (may legitimately run repeatedly)"""
    p = info[idx]["parent"]
    while p is not None:
        if info[p]["name"] in ("Alarm", "Macro"):
            return True
        p = info[p]["parent"]
    return False


def in_interrupt_body(info, idx) -> bool:
    p = info[idx]["parent"]
    while p is not None:
        if info[p]["name"] in ("Alarm", "Watch", "Macro"):
            return True
        p = info[p]["parent"]
    return False
