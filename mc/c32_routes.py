"""Request templates for C32: how to call every route of the aggregator's FastAPI app.

Every route object found by introspection of `app.routes` must have an entry here, keyed by (METHOD, path) with METHOD
"WS" for websocket routes and "MOUNT" for mounts.  An entry is one of

  unit(build)          takes a live process unit id; build(env, unit_id) -> dict(method, url[, json][, params])
                       `engine_effect=True`: a successful call reaches the engine (rpc_call recorded)
  run(build)           takes a recent-run id
  listing(kind, ids)   lists units / runs; ids(body_json) -> list of ids contained in the answer
  lsp_ws()             the method-editor websocket: driven by the LSP scenario in c32.py
  exempt(reason)       does not take or return a unit or a run; the reason is reported in the evidence

A route that is in the app but not in this table is reported by the check as `C32:unchecked-route:<METHOD> <path>`.
"""
from __future__ import annotations


def unit(build, engine_effect=False, note=""):
    return dict(kind="unit", build=build, engine_effect=engine_effect, note=note)


def run(build, note=""):
    return dict(kind="run", build=build, engine_effect=False, note=note)


def listing(of, ids):
    return dict(kind="listing", of=of, ids=ids)


def exempt(reason):
    return dict(kind="exempt", reason=reason)


def _get(path):
    return lambda env, id: dict(method="GET", url=path.replace("{id}", id))


def _post(path, json=None, params=None):
    return lambda env, id: dict(method="POST", url=path.replace("{id}", id), json=json, params=params)


def _save_method(env, id):
    # a valid body: based on the unit's current version, ends with a blank line
    version = env.current_method_version(id)
    return dict(method="POST", url=f"/api/process_unit/{id}/method",
                json={"lines": [{"id": "l1", "content": "Mark: c32"}, {"id": "l2", "content": ""}], "version": version, "last_author": ""})


PU = "/api/process_unit/{id}"
RR = "/api/recent_runs/{id}"

TABLE = {
    # ---- process units -------------------------------------------------------------------------------------------
    ("GET", "/api/process_unit/{unit_id}"): unit(_get(PU)),
    ("GET", "/api/process_units"): listing("units+recent_engines", lambda body: [u["id"] for u in body]),
    ("GET", "/api/process_unit/{engine_id}/process_values"): unit(_get(PU + "/process_values")),
    ("GET", "/api/process_unit/{engine_id}/all_process_values"): unit(_get(PU + "/all_process_values")),
    ("GET", "/api/process_units/all_process_values"): listing("units", lambda body: [u["process_unit"]["id"] for u in body]),
    ("POST", "/api/process_unit/{unit_id}/execute_command"):
        unit(_post(PU + "/execute_command", json={"command": "Mark: c32", "source": "manually_entered"}), engine_effect=True),
    ("POST", "/api/process_unit/{unit_id}/execute_control_button_command"):
        unit(_post(PU + "/execute_control_button_command", json={"command": "Pause", "source": "unit_button"}), engine_effect=True),
    ("GET", "/api/process_unit/{unit_id}/process_diagram"): unit(_get(PU + "/process_diagram")),
    ("GET", "/api/process_unit/{unit_id}/command_examples"): unit(_get(PU + "/command_examples")),
    ("GET", "/api/process_unit/{unit_id}/run_log"): unit(_get(PU + "/run_log")),
    ("GET", "/api/process_unit/{unit_id}/method-and-state"): unit(_get(PU + "/method-and-state")),
    ("GET", "/api/process_unit/{unit_id}/method"): unit(_get(PU + "/method")),
    ("POST", "/api/process_unit/{unit_id}/method"): unit(_save_method, engine_effect=True),
    ("GET", "/api/process_unit/{unit_id}/plot_configuration"): unit(_get(PU + "/plot_configuration")),
    ("GET", "/api/process_unit/{unit_id}/plot_log"): unit(_get(PU + "/plot_log")),
    ("GET", "/api/process_unit/{unit_id}/control_state"): unit(_get(PU + "/control_state")),
    ("GET", "/api/process_unit/{unit_id}/error_log"): unit(_get(PU + "/error_log")),
    ("POST", "/api/process_unit/{unit_id}/run_log/force_line/{line_id}"): unit(_post(PU + "/run_log/force_line/line1"), engine_effect=True),
    ("POST", "/api/process_unit/{unit_id}/run_log/cancel_line/{line_id}"): unit(_post(PU + "/run_log/cancel_line/line1"), engine_effect=True),
    ("GET", "/api/process_units/system_state_enum"): exempt("returns a constant enum value for type generation"),
    ("GET", "/api/process_unit/{unit_id}/active_users"): unit(_get(PU + "/active_users")),
    ("POST", "/api/process_unit/{unit_id}/register_active_user"): unit(_post(PU + "/register_active_user", params={"user_id": "c32-user"})),
    ("POST", "/api/process_unit/{unit_id}/unregister_active_user"): unit(_post(PU + "/unregister_active_user", params={"user_id": "c32-user"})),
    # ---- recent runs ---------------------------------------------------------------------------------------------
    ("GET", "/api/recent_runs/"): listing("runs", lambda body: [r["run_id"] for r in body]),
    ("GET", "/api/recent_runs/{run_id}"): run(_get(RR)),
    ("GET", "/api/recent_runs/{run_id}/method-and-state"): run(_get(RR + "/method-and-state")),
    ("GET", "/api/recent_runs/{run_id}/run_log"): run(_get(RR + "/run_log")),
    ("GET", "/api/recent_runs/{run_id}/plot_configuration"): run(_get(RR + "/plot_configuration")),
    ("GET", "/api/recent_runs/{run_id}/plot_log"): run(_get(RR + "/plot_log")),
    ("GET", "/api/recent_runs/{run_id}/csv_json"): run(_get(RR + "/csv_json")),
    ("GET", "/api/recent_runs/{run_id}/archive"): run(_get(RR + "/archive")),
    ("GET", "/api/recent_runs/{run_id}/error_log"): run(_get(RR + "/error_log")),
    # ---- method editor (LSP) -------------------------------------------------------------------------------------
    ("GET", "/api/lsp/pcode.language-configuration.json"): exempt("constant editor configuration, no unit data"),
    ("GET", "/api/lsp/engine/{engine_id}/pcode.tmLanguage.json"): unit(_get("/api/lsp/engine/{id}/pcode.tmLanguage.json")),
    ("WS", "/api/lsp/websocket"): dict(kind="lsp_ws"),
    # ---- not unit / run related ----------------------------------------------------------------------------------
    ("GET", "/auth/config"): exempt("authentication configuration for the frontend"),
    ("GET", "/api/webpush/config"): exempt("public VAPID key"),
    ("GET", "/api/webpush/notification_preferences"): exempt("the caller's own notification preferences (C33 covers entitlement)"),
    ("POST", "/api/webpush/notification_preferences"): exempt("the caller's own notification preferences (C33 covers entitlement)"),
    ("POST", "/api/webpush/subscribe"): exempt("stores the caller's own push subscription"),
    ("POST", "/api/webpush/test_notification"): exempt("sends a test notification to the caller"),
    ("WS", "/engine-rpc"): exempt("engine-facing websocket (engines authenticate with the aggregator secret, not user roles)"),
    ("POST", "/engine-rest"): exempt("engine-facing registration endpoint"),
    ("POST", "/api/expose-pubsub-topics"): exempt("no-op used for type generation"),
    ("POST", "/api/trigger-publish-msw"): exempt("publishes to mock-service-worker topics only"),
    ("WS", "/api/frontend-pubsub"): exempt("change notifications carry topic names only (publish(topic) without data); "
                                           "not a way to read unit data or send commands — not checked here"),
    ("GET", "/version"): exempt("version string"),
    ("GET", "/build_number"): exempt("build number"),
    ("GET", "/api/build_info"): exempt("build info"),
    ("GET", "/openapi.json"): exempt("API schema"),
    ("GET", "/docs"): exempt("API docs"),
    ("GET", "/docs/oauth2-redirect"): exempt("API docs"),
    ("GET", "/redoc"): exempt("API docs"),
    ("MOUNT", ""): exempt("static single-page application files"),
}


def discover(app) -> list[tuple[str, str]]:
    """(METHOD, path) of every route object of the app, in app order."""
    from starlette.routing import Mount, WebSocketRoute
    out = []
    for r in app.routes:
        path = getattr(r, "path", None)
        if isinstance(r, Mount):
            out.append(("MOUNT", path or ""))
        elif isinstance(r, WebSocketRoute):
            out.append(("WS", path))
        else:
            methods = sorted((getattr(r, "methods", None) or {"?"}) - {"HEAD", "OPTIONS"})
            for m in methods:
                out.append((m, path))
    return out
