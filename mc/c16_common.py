"""Shared machinery of C16 (reported tag times) and C36 (every changed tag is reported).

One *trace* is one execution of a generated program on the real Engine (mc.engine_harness.Run) in which

* after every tick the value a reader sees of every tag (`Tag.as_readonly().value`, `Tag.simulated`) is read directly
  from the tag objects (ground truth), and
* at the report instants the REAL `EngineMessageBuilder.create_tag_updates_msg` (incremental report) or
  `create_tag_updates_snapshot_msg` (snapshot, `Engine.notify_all_tags` path) is called and the tags of the message it
  returns are recorded - that is exactly what the engine would send.

The oracles (`c16_problems`, `c36_problems`) are pure functions over such a trace; they never look at the engine.
"""
from __future__ import annotations

import decimal
import enum

from mc import pgen
from mc.engine_harness import DT, T0, Run

from openpectus.engine.engine_message_builder import EngineMessageBuilder

HORIZON = 24                      # ticks per execution (multiple of every report period 1, 2, 3)
CLOCKS = ("Clock", "Process Time", "Run Time", "Block Time", "Scope Time")

# Block, End block, End blocks, Mark, Simulate with unit (Temp) / without unit (X), Simulate off (both), Base, Wait, Long,
# Watch, plus Stop / Restart so that the run-start and run-stop hooks of the tags (on_start / on_stop) are exercised.
# SetOut / Pause so that the safe-state / restore-state writes of the outputs happen too.
KINDS_FULL = ["K", "EB", "EBS", "M", "SiT", "Si", "Si0", "SoT", "So", "Bs", "W", "L", "Wa", "St", "Rs", "S", "V", "P"]
KINDS_SUB = ["K", "EB", "EBS", "M", "SiT", "Si", "Si0", "SoT", "So", "W", "Wa", "Rs"]
KINDS_SUB4 = ["K", "EB", "M", "SiT", "Si", "Si0", "SoT", "So", "Wa", "Rs"]
INPUT_DRIVEN = ("Tot", "In1", "X", "Accumulated Volume", "Block Volume")


def corpus(quick: bool) -> list[list[str]]:
    """All programs (as source lines), simplest first.  quick: <= 2 statements over KINDS_FULL + 3 over KINDS_SUB;
    thorough: <= 3 over KINDS_FULL + 4 over KINDS_SUB4.  Nesting <= 2; body openers (Block, Watch) always have a body."""
    seen = set()
    out = []

    def add(forests):
        for f in forests:
            if not pgen.no_empty_openers(f):      # the parser re-nests the line after an empty body (C17 finding)
                continue
            if f not in seen:
                seen.add(f)
                out.append(pgen.render(f))
    if quick:
        add(pgen.programs(KINDS_FULL, 2, depth=2))
        add(pgen.forests(KINDS_SUB, 3, 2))
    else:
        add(pgen.programs(KINDS_FULL, 3, depth=2))
        add(pgen.forests(KINDS_SUB4, 4, 2))
    # block-lock contention (beyond the size bound): a Block opened by a Watch body has to wait for the main flow's Block,
    # and the other way round
    E, M, W = ("EB", ()), ("M", ()), ("W", ())
    add([(("Wa", (("K", (M, E)),)), ("K", (W, W, W, E)), M),
         (("Wa", (("K", (W, W, W, E)),)), W, ("K", (M, E)), M),
         (("K", (("Wa", (("K", (M, E)),)), W, W, E)), M)])
    # a UOD command that raises inside the command manager's tick (the run goes to its error state in that tick), also after
    # an output was driven
    V, Bm = ("V", ()), ("Boom", ())
    add([(Bm,), (M, Bm), (V, Bm), (V, W, Bm), (("Wa", (Bm,)), V)])
    # a tag simulated to another value and then to the value it really has (the shown value changes both times), and back off
    S7, S5, So = ("SiL7", ()), ("SiL", ()), ("SoL", ())
    add([(S7, S5), (S7, W, S5), (S7, S5, S7), (S7, W, S5, W, So)])
    return out


def input_script(k: int) -> dict:
    """Hardware inputs applied before tick k: the totalizer grows every third tick (accumulators move), the condition
    signal X/In1 rises at tick 4 (the Watch fires) and again at tick 15 (the real value moves under a simulation)."""
    return {"Tot": 0.5 * (k // 3), "In1": 0.0 if k < 4 else (2.0 if k < 15 else 3.0)}


def norm(v):
    if isinstance(v, decimal.Decimal):
        return float(v)
    if isinstance(v, enum.Enum):
        return str(v.value)
    if isinstance(v, (str, int, float)) or v is None:
        return v
    return repr(v)


def all_tags(engine) -> dict:
    """name -> Tag over the UOD tags, the system tags and the merged collection (independent of Engine._iter_all_tags)."""
    d = {}
    for coll in (engine._system_tags, engine.uod.tags, engine.tags):
        for name, t in coll.tags.items():
            d[str(name)] = t
    return d


def direct(engine) -> dict:
    """What a reader of each tag sees now: name -> [value, simulated]."""
    return {n: [norm(t.as_readonly().value), bool(t.simulated)] for n, t in sorted(all_tags(engine).items())}


def msg_tags(msg) -> list:
    if msg is None:
        return []
    return [[str(t.name), norm(t.value), t.tick_time, bool(t.simulated)] for t in msg.tags]


def trace(lines, period: int = 1, snapshot_each: bool = False, mid_snapshot: bool = False, horizon: int = HORIZON,
          patch=None, tick_hook=None) -> dict:
    """Execute `lines`.  Report instants are the ends of ticks period-1, 2*period-1, ...; the report at the last instant
    is a snapshot (and, if mid_snapshot, the one in the middle too); the others are incremental.  snapshot_each: take an
    additional snapshot right after every incremental report (the queue is empty then, so it is independent of it).
    `patch(run)` may modify the freshly built run (used by the detection-power scripts only)."""
    run = Run("\n".join(lines), observe=(), built_before_start=3.0)      # UOD and engine objects exist 3 s before the engine starts
    if patch is not None:
        patch(run)
    builder = EngineMessageBuilder(run.engine, "verif", False)
    tr = {"lines": list(lines), "period": period, "names": sorted(all_tags(run.engine)), "baseline": direct(run.engine),
          "ticks": [], "tick_exceptions": 0}
    instants = [k for k in range(horizon) if (k + 1) % period == 0]
    snaps = {instants[-1]}
    if mid_snapshot:
        snaps.add(instants[len(instants) // 2])
    for k in range(horizon):
        for name, v in input_script(k).items():
            run.set_input(name, v)
        if tick_hook is not None:
            tick_hook(run, k)
        ob = run.tick()
        if "tick_exception" in ob:
            tr["tick_exceptions"] += 1
        rec = {"n": k, "t": run.now, "state": ob["state"], "direct": direct(run.engine), "report": None, "kind": None,
               "snapshot": None}
        if k in instants:
            if k in snaps and not snapshot_each:
                rec["kind"] = "snapshot"
                rec["report"] = msg_tags(builder.create_tag_updates_snapshot_msg())
            else:
                rec["kind"] = "incremental"
                rec["report"] = msg_tags(builder.create_tag_updates_msg("run"))
            if snapshot_each:
                rec["snapshot"] = msg_tags(builder.create_tag_updates_snapshot_msg())
        tr["ticks"].append(rec)
    run.cleanup()
    return tr


def nontrivial(tr) -> bool:
    """At least one non-clock tag changed its visible value after the first tick because of the program (changes of the
    hardware-fed tags and the accumulators, which the input script causes in every execution, count only when a
    simulation is involved)."""
    ticks = tr["ticks"]
    for a, b in zip(ticks, ticks[1:]):
        for n in tr["names"]:
            if n in CLOCKS or a["direct"][n][0] == b["direct"][n][0]:
                continue
            if n not in INPUT_DRIVEN or a["direct"][n][1] or b["direct"][n][1]:
                return True
    return False


# ---------------------------------------------------------------------------------------------------------------------
# C16 oracle

def change_cause(before, after) -> str:
    if before[1] and not after[1]:
        return "simulate-off"
    if after[1] and not before[1]:
        return "simulate-on"
    return "simulated-value" if after[1] else "value"


def c16_problems(tr) -> tuple[list, dict]:
    """For every reported datum (name, value, tick_time) in tick k (time t_k, interval DT):
       engine start <= tick_time <= t_k + DT;  if the visible value of the tag last changed in tick c (c <= k) then
       tick_time >= t_c, and tick_time < t_c + DT when c == k;  per tag the reported times never decrease.
    One signature per datum, by priority."""
    probs = []
    stats = {"data": 0, "changed_data": 0}
    prev = tr["baseline"]
    last_change: dict[str, tuple[int, str]] = {}
    last_tt: dict[str, float] = {}
    for rec in tr["ticks"]:
        k, tk = rec["n"], rec["t"]
        end = tk + DT
        for n in tr["names"]:
            if rec["direct"][n][0] != prev[n][0]:
                last_change[n] = (k, change_cause(prev[n], rec["direct"][n]))
        prev = rec["direct"]
        for source in ("report", "snapshot"):
            for name, value, tt, sim in rec[source] or ():
                stats["data"] += 1
                c = last_change.get(name)
                changed_now = c is not None and c[0] == k
                stats["changed_data"] += 1 if changed_now else 0
                where = f"tick {k} (time {tk:.1f}) {rec['kind'] if source == 'report' else 'snapshot'} report: {name} = {value!r} tick_time {tt!r}"
                if tt < T0 and float(tt).is_integer() and 0 <= tt <= k:
                    probs.append((f"C16:tick-number-as-time:{name}", f"{where} is a tick number, not a time"))
                    continue
                if tt < T0:
                    probs.append((f"C16:time-before-engine-start:{name}", f"{where} lies before engine start {T0}"))
                    continue
                if tt > end or (changed_now and tt >= end):
                    probs.append((f"C16:time-in-future:{name}", f"{where} lies after the current tick (ends {end:.1f})"))
                    continue
                if c is not None and tt < T0 + c[0] * DT - 1e-9:
                    probs.append((f"C16:stale-tick-time:{name}:{c[1]}",
                                  f"{where}, but the visible value last changed in tick {c[0]} (time {T0 + c[0] * DT:.1f}, {c[1]})"))
                    continue
                if name in last_tt and tt < last_tt[name]:
                    probs.append((f"C16:time-decreases:{name}", f"{where} after {last_tt[name]!r} was reported earlier"))
                    continue
                last_tt[name] = tt
    return probs, stats


# ---------------------------------------------------------------------------------------------------------------------
# C36 oracle

def c36_problems(tr) -> tuple[list, dict]:
    """Between two report instants every tag whose visible value differs appears in the next report exactly once with
    the value it has at that instant; no report contains a tag twice; a snapshot contains every tag."""
    probs = []
    stats = {"reports": 0, "changed": 0, "snapshots": 0}
    ever_incremental = set()
    for rec in tr["ticks"]:
        if rec["kind"] == "incremental":
            ever_incremental.update(r[0] for r in rec["report"])
    prev = tr["baseline"]
    prev_n = -1
    for rec in tr["ticks"]:
        if rec["report"] is None:
            continue
        k = rec["n"]
        stats["reports"] += 1
        rep = rec["report"]
        count: dict[str, int] = {}
        for r in rep:
            count[r[0]] = count.get(r[0], 0) + 1
        where = f"{rec['kind']} report after tick {k} (previous report after tick {prev_n})"
        for n, c in sorted(count.items()):
            if c > 1:
                probs.append((f"C36:reported-twice:{n}", f"{where} contains {n} {c} times"))
        if rec["kind"] == "snapshot":
            stats["snapshots"] += 1
            for n in tr["names"]:
                if n not in count:
                    probs.append((f"C36:snapshot-misses:{n}", f"{where} does not contain tag {n}"))
        for n in tr["names"]:
            now, was = rec["direct"][n][0], prev[n][0]
            if now == was:
                continue
            stats["changed"] += 1
            if n not in count:
                if rec["kind"] == "snapshot":
                    continue                                   # already reported as snapshot-misses
                kind = "never-reported" if n not in ever_incremental else "missing-from-next-report"
                probs.append((f"C36:{kind}:{n}", f"{n} changed {was!r} -> {now!r} but the {where} does not contain it"
                              + (" (no incremental report of the run ever does)" if kind == "never-reported" else "")))
                continue
            vals = [r[1] for r in rep if r[0] == n]
            if any(v != now for v in vals):
                probs.append((f"C36:stale-value-reported:{n}", f"{n} changed {was!r} -> {now!r} but the {where} says {vals!r}"))
        prev = rec["direct"]
        prev_n = k
    return probs, stats


def uniq(probs, limit_per_sig: int = 1) -> list:
    seen: dict[str, int] = {}
    out = []
    for sig, what in probs:
        seen[sig] = seen.get(sig, 0) + 1
        if seen[sig] <= limit_per_sig:
            out.append((sig, what))
    return out


def print_trace(tr):
    """Per tick: the tags whose visible value changed, the report (name, value, tick_time), and of a snapshot only the
    (name, tick_time) pairs that differ from the previous snapshot."""
    print("program:")
    for ln in tr["lines"]:
        print("   ", ln)
    print(f"report period {tr['period']} tick(s); time(k) = {T0} + k*{DT}")
    prev = tr["baseline"]
    prev_snap: dict = {}
    for rec in tr["ticks"]:
        ch = {n: rec["direct"][n][0] for n in tr["names"]
              if rec["direct"][n][0] != prev[n][0] and n not in ("Clock", "Process Time", "Run Time")}
        prev = rec["direct"]
        print(f"tick {rec['n']:2d} t={rec['t']:.1f} {rec['state']:<9} changed (clocks omitted) = {ch}")
        for key in ("report", "snapshot"):
            rep = rec[key]
            if rep is None:
                continue
            kind = rec["kind"] if key == "report" else "snapshot"
            if kind == "incremental":
                print(f"      incremental report: {[(r[0], r[1], r[2]) for r in rep]}")
            else:
                snap = {r[0]: r[2] for r in rep}
                diff = [(r[0], r[1], r[2]) for r in rep if prev_snap.get(r[0]) != r[2]]
                print(f"      snapshot report: {len(rep)} tags; tick_time differs from the previous snapshot for {diff}")
                prev_snap = snap
