"""Bounded-exhaustive P-code program generator (DESIGN §1.4).

A program is a forest of statements.  `programs(kinds, n, depth)` yields *every* forest with exactly n
statements over the given statement kinds (body openers may have children, nesting <= depth), simplest first in
the order of `kinds`.  `render` turns a forest into source lines with 4-space indentation and gives every Mark a
unique name so a trace identifies the line that produced it.

Statement kinds are short codes:
  M  Mark: m<i>            T  0.3 Mark: m<i> (threshold)     W  Wait: 0.3s
  I  Inst                  L  Long: 3                         H  Hang
  A  OvA                   B  OvB                             S  SetOut: <i+1>
  V  Valve: Open           b  (blank)                         c  # comment
  EB End block             EBS End blocks                     P  Pause: 0.3s   Pu Pause
  Ho Hold: 0.3s            St Stop                            Rs Restart
  CA Call macro: A         CB Call macro: B
  Body openers: K Block: k<i>   Wa Watch: X > 1   Al Alarm: X > 1   MA Macro: A   MB Macro: B
"""
from __future__ import annotations

from typing import Iterable, Iterator, Sequence

OPENERS = {"K", "Wa", "Al", "MA", "MB", "MC"}

TEMPLATES = {
    "M": "Mark: m{i}", "T": "0.3 Mark: m{i}", "Ts": "0.01 Mark: m{i}", "W": "Wait: 0.3s", "I": "Inst", "L": "Long: 3", "H": "Hang",
    "A": "OvA", "B": "OvB", "C": "OvC", "S": "SetOut: {j}", "V": "Valve: Open", "b": "", "c": "# note {i}",
    "EB": "End block", "EBS": "End blocks", "P": "Pause: 0.3s", "Pu": "Pause", "Ho": "Hold: 0.3s", "Hu": "Hold",
    "St": "Stop", "Rs": "Restart", "CA": "Call macro: A", "CB": "Call macro: B",
    "K": "Block: k{i}", "Wa": "Watch: X > 1", "Al": "Alarm: X > 1", "MA": "Macro: A", "MB": "Macro: B",
    "Bs": "Base: s", "Bm": "Base: min", "BL": "Base: L", "Si": "Simulate: X = 5", "So": "Simulate off: X", "Si0": "Simulate: Temp = 20 degC",      # Si0: simulated value == real value (Temp is constant 20 degC)
    "Boom": "Boom: 2", "Bogus": "Bogus",
    "Wl": "Wait: 2s", "Pl": "Pause: 2s", "Hl": "Hold: 2s", "L6": "Long: 6",      # long enough to cancel / force (C12)
    "SiT": "Simulate: Temp = 5 degC", "SoT": "Simulate off: Temp",      # simulation with a unit (C16/C36)
    # C10/C11: condition on the hardware-fed tag In1, short variants
    "WaI": "Watch: In1 > 1", "SiI": "Simulate: In1 = 0", "L2": "Long: 2", "W1": "Wait: 0.1s",
    "SiL7": "Simulate: Level = 7",      # ... and to another value (then back to the real one with SiL: C36)
    "SoL": "Simulate off: Level",
    "FB": "FinBoom",      # UOD command (two iterations) whose finalizer raises (C11)
    "MC": "Macro: C", "CC": "Call macro: C",      # a third macro (C41: cycle closed by a later call of a body)
    "SiL": "Simulate: Level = 5",      # simulated value == real value; Level feeds the derived tag Twice (C10)
}
OPENERS.add("WaI")

Tree = tuple  # (kind, (children...))


def forests(kinds: Sequence[str], n: int, depth: int) -> Iterator[tuple]:
    """All forests with exactly n nodes."""
    if n == 0:
        yield ()
        return
    for k in kinds:
        if k in OPENERS and depth > 0:
            for size in range(0, n):          # children count of the first tree
                for ch in forests(kinds, size, depth - 1):
                    for rest in forests(kinds, n - 1 - size, depth):
                        yield ((k, ch),) + rest
        else:
            for rest in forests(kinds, n - 1, depth):
                yield ((k, ()),) + rest


def programs(kinds: Sequence[str], max_n: int, depth: int = 2, min_n: int = 1) -> Iterator[tuple]:
    for n in range(min_n, max_n + 1):
        yield from forests(kinds, n, depth)


def render(forest, indent: int = 0, counter: list | None = None) -> list[str]:
    counter = counter if counter is not None else [0]
    out = []
    for kind, children in forest:
        i = counter[0]
        counter[0] += 1
        out.append(" " * indent + TEMPLATES[kind].format(i=i, j=i + 1))
        if children:
            out += render(children, indent + 4, counter)
    return out


def no_empty_openers(forest) -> bool:
    """True if every body opener has at least one child.  (An opener with an empty body followed by a line at the same
    indentation is silently re-nested by the parser - C17 finding - so such texts do not mean what they look like.)"""
    for kind, children in forest:
        if kind in OPENERS and not [c for c in children if c[0] not in ("b", "c")]:
            return False          # a body of blank/comment lines only counts as empty
        if not no_empty_openers(children):
            return False
    return True


def to_lines(forest) -> list[tuple[str, str]]:
    return [(f"L{i}", c) for i, c in enumerate(render(forest))]


def text(forest) -> str:
    return "\n".join(render(forest))


def kinds_flat(forest) -> list[str]:
    out = []
    for kind, children in forest:
        out.append(kind)
        out += kinds_flat(children)
    return out


def line_info(lines: Sequence[tuple[str, str]]) -> list[dict]:
    """Structural info per line computed from indentation only (well-indented generator output):
    parent line index, depth, instruction name, whether it opens a body."""
    info = []
    stack: list[tuple[int, int]] = []     # (indent, index)
    for idx, (lid, content) in enumerate(lines):
        stripped = content.strip()
        indent = len(content) - len(content.lstrip(" "))
        while stack and stack[-1][0] >= indent:
            stack.pop()
        parent = stack[-1][1] if stack else None
        body = stripped
        # drop threshold
        parts = body.split(" ", 1)
        try:
            float(parts[0])
            body = parts[1] if len(parts) > 1 else ""
        except ValueError:
            pass
        name = body.split(":", 1)[0].strip() if body and not body.startswith("#") else ("#" if body else "")
        arg = body.split(":", 1)[1].strip() if ":" in body and not body.startswith("#") else ""
        opener = name in ("Block", "Watch", "Alarm", "Macro")
        info.append({"idx": idx, "id": lid, "indent": indent, "parent": parent, "name": name, "arg": arg,
                     "opener": opener, "blank": stripped == "" or stripped.startswith("#"), "raw": content})
        if opener:
            stack.append((indent, idx))
    return info


def scope_of(info: list[dict], idx: int) -> str:
    """Innermost enclosing Watch/Alarm/Macro (its line id) or 'main'."""
    p = info[idx]["parent"]
    while p is not None:
        if info[p]["name"] in ("Watch", "Alarm", "Macro"):
            return info[p]["id"]
        p = info[p]["parent"]
    return "main"
