"""Harness for ErrorRecoveryDecorator (C23, C24): scripted fake hardware, virtual clock, event alphabet,
reference model of the documented five-state protocol (docs/src/Error Recovery.rst).

A *state* is an event history; `build(hist)` constructs a fresh decorator and replays it.
"""
from __future__ import annotations

import time as _time

from openpectus.engine import hardware_recovery as hr
from openpectus.engine.hardware import (HardwareLayerBase, HardwareLayerException, Register,
                                        RegisterDirection)
from openpectus.lang.exec.tags import Tag

T_RECONNECT = 10
T_ERROR = 100
EL_REC = 11       # advance past reconnect timeout
EL_ERR = 101      # advance past error timeout
EL_SMALL = 1

R0 = Register("R0", RegisterDirection.Read)
RW1 = Register("RW1", RegisterDirection.Both)
W2 = Register("W2", RegisterDirection.Write)
W3 = Register("W3", RegisterDirection.Write)      # written on its own only (events w3_*), never part of the batch
READ_REGS = [R0, RW1]
R3 = Register("R3", RegisterDirection.Read)      # read on its own only (events r3_*), never part of the batch
WRITE_REGS = [RW1, W2]


class VClock:
    def __init__(self, t0=1000.0):
        self.now = t0

    def time(self):
        return self.now

    def __getattr__(self, name):          # monotonic etc. are not used by the module; delegate
        return getattr(_time, name)


class FakeHW(HardwareLayerBase):
    """Input memory (what reads return) and output memory (what writes set) are separate so that
    'last value read' can never be confused with 'last value written'."""

    def __init__(self, connected: bool):
        super().__init__()
        self._registers = {r.name: r for r in (R0, RW1, W2)}
        self._is_connected = connected
        self.inp = {"R0": -1.0, "RW1": -2.0}
        self.out: dict[str, float] = {}
        self.wlog: list[tuple[str, float]] = []
        self.fail_batch = False      # read/read_batch/write_batch and single write issued *first* in an event
        self.fail_single_write = False
        self.fail_single_after = None
        self.fail_connect = False
        self.partial = False          # a failing write reaches the hardware (first register of a batch / the single value) before raising
        self.calls = 0

    def read(self, r):
        self.calls += 1
        if self.fail_batch:
            raise HardwareLayerException("read failed")
        return self.inp[r.name]

    def read_batch(self, registers):
        self.calls += 1
        if self.fail_batch:
            raise HardwareLayerException("read_batch failed")
        return [self.inp[r.name] for r in registers]

    def write(self, value, r):
        self.calls += 1
        if self.fail_single_after is not None:
            # the first `fail_single_after` single writes of this event succeed, the following ones fail
            if self.fail_single_after > 0:
                self.fail_single_after -= 1
            else:
                raise HardwareLayerException("write failed")
        if self.fail_single_write:
            if self.partial:
                self.out[r.name] = value
                self.wlog.append((r.name, value))
            raise HardwareLayerException("write failed")
        self.out[r.name] = value
        self.wlog.append((r.name, value))

    def write_batch(self, values, registers):
        self.calls += 1
        if self.fail_batch:
            if self.partial and len(registers) > 0:
                self.out[registers[0].name] = values[0]
                self.wlog.append((registers[0].name, values[0]))
            raise HardwareLayerException("write_batch failed")
        for v, r in zip(values, registers):
            self.out[r.name] = v
            self.wlog.append((r.name, v))

    def connect(self):
        if self.fail_connect:
            raise HardwareLayerException("connect failed")
        self._is_connected = True

    def disconnect(self):
        self._is_connected = False


# event alphabet --------------------------------------------------------------
EV_QUICK = (
    "rb_ok", "rb_fail",
    "wb_new_ok", "wb_new_fail", "wb_same_ok", "wb_same_fail", "wb_new_ok_pf", "wb_new_partial_fail", "wb_prev_ok",
    "el_rec", "el_err",
    "tick_ok", "tick_fail",
)
# C24, second exploration: single-register writes (the other registers are not re-commanded) next to the batch cycle
EV_SINGLE = ("wb_new_ok", "wb_new_fail", "wb_same_ok", "wb_new_one_ok", "w_new_ok", "w_new_ok_pf", "w_same_ok", "w_new_fail", "rb_fail", "tick_ok", "el_rec")
# C24, third exploration: a batch whose first register is unmodified fails; the outage ends with a write of a register outside the batch
EV_OUTSIDE = ("wb_new_ok", "wb_second_fail", "wb_second_ok", "w3_new_ok", "w_new_ok", "rb_fail", "tick_ok")
# C24, fourth exploration: the write of a register outside the batch fails, the flush after the next batch fails too, then only
# unchanged batches follow
EV_OUTSIDE2 = ("w3_new_fail", "wb_new_ok_pf", "wb_same_ok", "wb_new_ok", "w3_new_ok", "tick_ok")
# C23, second exploration: a register that is read on its own next to the batch of the other registers
EV_READS = ("rb_ok", "rb_fail", "r3_ok", "r3_fail", "r_ok", "el_rec", "tick_ok")
EV_THOROUGH = EV_QUICK + ("r_ok", "r_fail", "w_new_ok", "w_new_fail", "w_same_ok", "el_small", "wb_half_ok", "w_new_partial_fail")


class Sys:
    """Decorator + fake + shadow variables needed by the oracles."""

    def __init__(self, connected: bool):
        self.clock = VClock()
        hr.time = self.clock              # module-level name `time` inside hardware_recovery
        import openpectus.lang.exec.tags as tags_mod
        self._tags_time = tags_mod.time
        self.fake = FakeHW(connected)
        self.tag = Tag("Connection Status", tick_time=1.0, value="Disconnected")
        cfg = hr.ErrorRecoveryConfig()
        cfg.reconnect_timeout_seconds = T_RECONNECT
        cfg.error_timeout_seconds = T_ERROR
        self.dec = hr.ErrorRecoveryDecorator(self.fake, cfg, self.tag)
        self.fresh = 0.0
        self.commanded: dict[str, float] = {}        # register -> most recently commanded value
        self.last_read_ok: dict[str, float] = {}     # register -> last value successfully read
        self.max_written: dict[str, float] = {}     # register -> command index of the newest value that reached it
        self.cmdlog: dict[str, list] = {}           # register -> values in the order they were commanded
        self.obs: list = []                          # per-event observation records
        self.last_cycle_full_ok = False

    def _fresh(self):
        self.fresh += 1.0
        return self.fresh

    def apply(self, ev: str) -> dict:
        d, f = self.dec, self.fake
        pre_state = d.state.name
        rec = {"ev": ev, "pre": pre_state, "raised": None, "ret": None}
        f.fail_batch = False
        f.fail_single_write = False
        f.fail_single_after = None
        f.fail_connect = False
        f.partial = "_partial_" in ev
        self.last_cycle_full_ok = False
        wlog0 = len(f.wlog)
        calls0 = f.calls
        commanded0 = dict(self.commanded)
        try:
            if ev in ("rb_ok", "rb_fail", "r_ok", "r_fail", "r3_ok", "r3_fail"):
                regs = READ_REGS if ev.startswith("rb") else [R3] if ev.startswith("r3") else [R0]
                for r in regs:
                    f.inp[r.name] = -self._fresh() - 10   # inputs are negative, outputs positive: never equal
                f.fail_batch = ev.endswith("fail")
                if ev.startswith("rb"):
                    rec["ret"] = list(d.read_batch(regs))
                else:
                    rec["ret"] = [d.read(regs[0])]
                rec["regs"] = [r.name for r in regs]
                if not f.fail_batch and f.calls > calls0:
                    for r in regs:
                        self.last_read_ok[r.name] = f.inp[r.name]
            elif ev.startswith(("wb_", "w_", "w3_")):
                batch = ev.startswith("wb_")
                regs = ([RW1] if "_one_" in ev else WRITE_REGS) if batch else [W3] if ev.startswith("w3_") else [W2]       # wb_new_one_ok: a batch that commands RW1 only
                if "_prev_" in ev:
                    prev = getattr(self, "prev_commanded", None) or {}
                    for r in regs:
                        self.commanded[r.name] = prev.get(r.name, self.commanded.get(r.name, self._fresh()))
                elif "_second_" in ev:
                    # a cycle in which only the second register of the batch gets a new value (the first one is filtered out as unmodified)
                    self.commanded.setdefault("RW1", self._fresh())
                    self.commanded["W2"] = self._fresh()
                elif "_half_" in ev:
                    # a cycle in which only one register gets a new value
                    self.commanded["RW1"] = self._fresh()
                    self.commanded.setdefault("W2", self._fresh())
                elif "_new_" in ev:
                    self.prev_commanded = dict(self.commanded)
                    for r in regs:
                        self.commanded[r.name] = self._fresh()
                else:
                    for r in regs:
                        if r.name not in self.commanded:
                            self.commanded[r.name] = self._fresh()
                vals = [self.commanded[r.name] for r in regs]
                fail = ev.endswith("fail")
                f.fail_batch = fail
                f.fail_single_write = fail or (batch and ev.endswith("_pf"))
                if not batch and ev.endswith("_pf"):
                    f.fail_single_after = 1          # the commanded write goes through, the flush of buffered values fails
                if batch:
                    d.write_batch(vals, regs)
                else:
                    d.write(vals[0], regs[0])
                rec["vals"] = vals
                rec["regs"] = [r.name for r in regs]
                self.last_cycle_full_ok = (not fail and not ev.endswith("_pf"))
            elif ev in ("el_rec", "el_err", "el_small"):
                self.clock.now += {"el_rec": EL_REC, "el_err": EL_ERR, "el_small": EL_SMALL}[ev]
            elif ev in ("tick_ok", "tick_fail"):
                f.fail_connect = ev == "tick_fail"
                # tick forward to the next back-off tick (at most 20 ticks in this alphabet: 5 then 20)
                if d.state in (hr.ErrorRecoveryState.Reconnect, hr.ErrorRecoveryState.Error):
                    n = 0
                    while True:
                        nxt = d.reconnect_tick + 1
                        d.tick()
                        n += 1
                        if d._is_backoff_tick(nxt) or n > 400:
                            break
                    rec["ticks"] = n
                else:
                    d.tick()
            elif ev in ("connect_ok", "connect_fail"):
                f.fail_connect = ev == "connect_fail"
                d.connect()
            else:
                raise ValueError(ev)
        except HardwareLayerException as e:
            rec["raised"] = "HardwareLayerException"
        except Exception as e:  # anything else is a defect in its own right
            rec["raised"] = type(e).__name__ + ":" + str(e)[:80]
        if rec["raised"] and ev.startswith(("wb_", "w_", "w3_")):
            # the decorator refused the write with an exception (Disconnected / Error): the caller knows the value was not
            # taken, so it does not count as commanded
            self.commanded = commanded0
            rec.pop("vals", None)
        rec["post"] = d.state.name
        rec["status"] = str(self.tag.value)
        rec["writes"] = list(f.wlog[wlog0:])
        rec["stale"] = []
        # a write is stale if the value it carries was last commanded *before* a value that already reached the register
        # (values may legitimately repeat, so a write is attributed to the latest command that carried that value)
        if "vals" in rec:
            for name, v in zip(rec["regs"], rec["vals"]):
                self.cmdlog.setdefault(name, []).append(v)
        for name, v in rec["writes"]:
            log = self.cmdlog.get(name, [])
            seq = max((i for i, x in enumerate(log) if x == v), default=-1)
            if name in self.max_written and seq < self.max_written[name]:
                rec["stale"].append((name, v, log[int(self.max_written[name])] if log else None))
            self.max_written[name] = max(float(seq), self.max_written.get(name, float(seq)))
        rec["full_ok"] = self.last_cycle_full_ok
        rec["mem"] = dict(f.out)
        rec["commanded"] = dict(self.commanded)
        rec["hw_calls"] = f.calls - calls0
        self.obs.append(rec)
        return rec


def build(hist, connected=True) -> Sys:
    s = Sys(connected)
    for ev in hist:
        s.apply(ev)
    return s


def _rank(values):
    vs = sorted({v for v in values if isinstance(v, float)})
    return {v: i for i, v in enumerate(vs)}


def canon(s: Sys):
    """Plain-data state; values renamed by rank (the code compares values only for equality and the
    harness only generates fresh, increasing values, so order-preserving renaming keeps futures)."""
    d, f = s.dec, s.fake
    now = s.clock.now
    allv = (list(d.last_known_good_reads.values()) + list(d.pending_writes.values())
            + list(d.last_success_writes.values()) + list(f.out.values()) + list(f.inp.values())
            + list(s.commanded.values()) + list(s.last_read_ok.values())
            + list((getattr(s, "prev_commanded", None) or {}).values()))
    rk = _rank(allv)

    def m(dct, key=lambda k: k):
        return tuple(sorted((key(k), rk.get(v, v)) for k, v in dct.items()))
    cap = T_ERROR + 2
    return (
        d.state.name, str(s.tag.value), f._is_connected,
        min(now - d.last_success_read_write, cap), min(now - d.last_state_reconnect_time, cap),
        d.reconnect_tick,
        m(d.last_known_good_reads), m(d.pending_writes, key=lambda r: r.name), m(d.last_success_writes),
        m(f.out), m(f.inp), m(s.commanded), m(s.last_read_ok), m(getattr(s, "prev_commanded", None) or {}),
        tuple(sorted((k, len(s.cmdlog.get(k, [])) - 1 - int(v)) for k, v in s.max_written.items())),
    )


def enabled(s: Sys, hist, alphabet):
    st = s.dec.state.name
    if st == "Disconnected":
        return ("connect_ok", "connect_fail", "rb_ok", "wb_new_ok")
    return alphabet


# ---------------------------------------------------------------------------
# Reference model of the documented protocol (nondeterministic where the text is silent about *when*
# a timeout is noticed).  Model state: (st, issue_expired_possible...) is kept concretely with times.

class Model:
    """Set-valued (subset construction) reference model.  Each element: (st, t_last_success, t_issue, t_recon)."""

    def __init__(self, connected: bool, now: float):
        st = "OK" if connected else "Disconnected"
        self.states = {(st, now, None, None)}

    @staticmethod
    def _succ(ms, kind: str, now: float):
        """kind in rw_ok / rw_err / elapse / recon_ok / recon_fail / connect_ok / connect_fail.
        rw_* mean: a read or write was *requested*; ok/err is what the hardware would answer."""
        st, t_ok, t_issue, t_rec = ms
        out = set()
        issue_expired = st == "Issue" and (now - t_ok > T_RECONNECT or now - t_issue > T_RECONNECT)
        issue_must = st == "Issue" and (now - t_ok > T_RECONNECT and now - t_issue > T_RECONNECT)
        rec_expired = st == "Reconnect" and now - t_rec > T_ERROR
        if st == "Disconnected":
            if kind == "connect_ok":
                out.add(("OK", now, None, None))
            else:
                out.add(ms)
        elif st == "OK":
            if kind == "rw_err":
                out.add(("Issue", t_ok, now, None))
            elif kind == "rw_ok":
                out.add(("OK", now, None, None))
            else:
                out.add(ms)
        elif st == "Issue":
            if kind == "rw_ok":
                out.add(("OK", now, None, None))
            elif kind == "rw_err":
                if issue_expired:
                    out.add(("Reconnect", t_ok, t_issue, now))
                if not issue_must:
                    out.add(ms)
            else:  # elapse / tick: the timeout may be noticed now or at the next error
                out.add(ms)
                if issue_expired:
                    out.add(("Reconnect", t_ok, t_issue, now))
        elif st == "Reconnect":
            if kind == "recon_ok":
                # a successful reconnect is not a successful read/write: under the reading "timeout since the
                # last successful read/write" the old time stays; under "since entering Issue" it is irrelevant
                out.add(("OK", t_ok, None, None))
                out.add(("OK", now, None, None))
            elif kind in ("rw_ok", "rw_err"):
                # hardware is not trusted while reconnecting; an I/O request is where an expired
                # error timeout must be noticed at the latest
                if rec_expired:
                    out.add(("Error", t_ok, t_issue, t_rec))
                else:
                    out.add(ms)
            else:
                out.add(ms)
                if rec_expired:
                    out.add(("Error", t_ok, t_issue, t_rec))
        elif st == "Error":
            if kind == "recon_ok":
                out.add(("OK", t_ok, None, None))
                out.add(("OK", now, None, None))
            else:
                out.add(ms)
        return out

    def step(self, kind: str, now: float):
        nxt = set()
        for ms in self.states:
            nxt |= self._succ(ms, kind, now)
        self.states = nxt

    def restrict(self, impl_state: str) -> bool:
        keep = {ms for ms in self.states if ms[0] == impl_state}
        if not keep:
            return False
        self.states = keep
        return True

    def names(self):
        return sorted({ms[0] for ms in self.states})


def event_kind(ev: str, pre_state: str) -> str:
    if ev.startswith(("rb_", "r_", "r3_")):
        return "rw_err" if ev.endswith("fail") else "rw_ok"
    if ev.startswith(("wb_", "w_", "w3_")):
        return "rw_err" if ev.endswith("fail") else "rw_ok"
    if ev.startswith("el_"):
        return "elapse"
    if ev == "tick_ok":
        return "recon_ok" if pre_state in ("Reconnect", "Error") else "elapse"
    if ev == "tick_fail":
        return "recon_fail" if pre_state in ("Reconnect", "Error") else "elapse"
    return ev
