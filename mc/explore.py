"""Explorers: explicit-state BFS over histories, deviation-bounded choice DFS, product enumeration."""
from __future__ import annotations

import collections
import itertools
from typing import Any, Callable, Hashable, Iterable, Sequence


class BfsResult:
    def __init__(self):
        self.states = 0
        self.transitions = 0
        self.max_depth = 0
        self.histories: list[tuple] = []          # one shortest history per canonical state
        self.complete = True                      # False if the depth bound cut successors off
        self.frontier_at_bound = 0


def bfs(build: Callable[[tuple], Any],
        enabled: Callable[[Any, tuple], Sequence],
        canon: Callable[[Any], Hashable],
        on_transition: Callable[[tuple, Any, Any], None],
        depth: int,
        keep_histories: bool = True,
        on_state: Callable[[tuple, Any], None] | None = None,
        step: Callable[[Any, Any], Any] | None = None) -> BfsResult:
    """States are event histories.  build(hist) creates a fresh real object and replays hist.
    For every canonical state, every enabled event is applied to a *fresh* rebuild of that state
    (live objects are not copied) and on_transition(hist, ev, next_state) evaluates the oracle.
    `step(state, ev)`, when given, applies one event in place to a state just built (saves one rebuild).
    """
    res = BfsResult()
    s0 = build(())
    seen = {canon(s0)}
    if on_state:
        on_state((), s0)
    frontier = collections.deque([()])
    res.states = 1
    if keep_histories:
        res.histories.append(())
    while frontier:
        hist = frontier.popleft()
        st = build(hist)
        evs = list(enabled(st, hist))
        if len(hist) >= depth:
            if evs:
                res.complete = False
                res.frontier_at_bound += 1
            continue
        for ev in evs:
            if step is not None:
                base = build(hist)
                nxt = step(base, ev)
            else:
                nxt = build(hist + (ev,))
            res.transitions += 1
            on_transition(hist, ev, nxt)
            k = canon(nxt)
            if k not in seen:
                seen.add(k)
                res.states += 1
                nh = hist + (ev,)
                res.max_depth = max(res.max_depth, len(nh))
                if keep_histories:
                    res.histories.append(nh)
                if on_state:
                    on_state(nh, nxt)
                frontier.append(nh)
    return res


# ---------------------------------------------------------------------------
# deviation-bounded stateless exploration (brief's idiom)

class Chooser:
    """Handed to a harness body.  pick(n) returns the scripted choice for this point, or 0 (default)."""

    def __init__(self, prefix: Sequence[int]):
        self.prefix = list(prefix)
        self.points: list[tuple[int, str]] = []     # (n alternatives, label)
        self.choices: list[int] = []

    def pick(self, n: int, label: str = "") -> int:
        i = len(self.choices)
        if i < len(self.prefix):
            c = self.prefix[i]
            if c >= n:
                raise RuntimeError(f"replay divergence at point {i} ({label}): choice {c} out of range {n}")
        else:
            c = 0
        self.points.append((n, label))
        self.choices.append(c)
        return c


def choice_vectors(body: Callable[[Chooser], Any], bound: int, max_exec: int | None = None):
    """Yield (choices, result) for every execution with <= bound deviations from the default answer 0."""
    stack = [([], 0)]
    count = 0
    while stack:
        prefix, dev = stack.pop()
        ch = Chooser(prefix)
        result = body(ch)
        if len(ch.choices) < len(prefix):
            raise RuntimeError("replay divergence: execution consumed fewer choices than its prefix")
        count += 1
        yield list(ch.choices), result
        if max_exec is not None and count >= max_exec:
            return
        if dev >= bound:
            continue
        for i in range(len(ch.points) - 1, len(prefix) - 1, -1):
            n, _ = ch.points[i]
            for alt in range(n - 1, 0, -1):
                stack.append((ch.choices[:i] + [alt], dev + 1))


def sequences(alphabet: Sequence, max_len: int, min_len: int = 0) -> Iterable[tuple]:
    """All sequences over alphabet, shortest first."""
    for n in range(min_len, max_len + 1):
        yield from itertools.product(alphabet, repeat=n)
