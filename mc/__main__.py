"""python -m mc check <ID> [--tier quick|thorough] | replay <path> | list | selftest"""
import argparse
import logging
import os
import sys

os.environ.setdefault("PYTHONHASHSEED", "0")
os.environ.setdefault("OPEN_PECTUS_VERIF", "1")
sys.dont_write_bytecode = True
logging.disable(logging.CRITICAL)

from mc import core  # noqa: E402


def main(argv=None) -> int:
    ap = argparse.ArgumentParser(prog="mc")
    sub = ap.add_subparsers(dest="cmd", required=True)
    c = sub.add_parser("check")
    c.add_argument("id")
    c.add_argument("--tier", default=os.environ.get("VERIF_TIER", "quick"), choices=["quick", "thorough"])
    r = sub.add_parser("replay")
    r.add_argument("path")
    sub.add_parser("selftest")
    a = ap.parse_args(argv)
    if a.cmd == "check":
        seed = int(os.environ.get("VERIF_SEED", "0") or 0)
        return core.run_check(a.id.upper(), a.tier, seed)
    if a.cmd == "replay":
        return core.run_replay(a.path)
    if a.cmd == "selftest":
        from mc import selftest
        return selftest.main()
    return 2


if __name__ == "__main__":
    sys.exit(main())
