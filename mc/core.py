"""Common runner machinery: context, worker pool, evidence, known findings, replays.

A check module (mc/checks/cXX.py) exports

    ID      = "C24"
    LEVEL   = "fault_enumeration"            # evidence level
    def run(ctx): ...                        # explore; call ctx.violation(...), fill ctx.coverage
    def replay(data) -> list[(sig, what)]    # re-execute one replay file without the explorer

Exit codes: 0 held (known findings printed), 1 violation, 2 harness error.
"""
from __future__ import annotations

import hashlib
import importlib
import json
import multiprocessing as mp
import os
import sys
import time
import traceback
from typing import Any, Callable, Iterable, Sequence

ROOT = os.path.dirname(os.path.dirname(os.path.abspath(__file__)))
# VERIF_OUT redirects evidence and replays (used when trying seeded changes from a scratch worktree, so that the
# committed evidence of the unchanged tree is not overwritten); registered commands never set it
_OUT = os.environ.get("VERIF_OUT") or ROOT
EVIDENCE_DIR = os.path.join(_OUT, "evidence")
REPLAY_DIR = os.path.join(_OUT, "replays")
KNOWN_FILE = os.path.join(ROOT, "known_findings.json")
NWORKERS = int(os.environ.get("VERIF_WORKERS", "16"))


class HarnessError(Exception):
    """The harness itself is broken (nondeterminism, cap before smallest class...). Exit 2."""


def jsonable(x: Any) -> Any:
    if isinstance(x, dict):
        return {str(k): jsonable(v) for k, v in x.items()}
    if isinstance(x, (list, tuple)):
        return [jsonable(v) for v in x]
    if isinstance(x, (set, frozenset)):
        return sorted((jsonable(v) for v in x), key=repr)
    if isinstance(x, (str, int, float, bool)) or x is None:
        return x
    return repr(x)


def load_known() -> list[dict]:
    out = []
    if os.path.exists(KNOWN_FILE):
        with open(KNOWN_FILE) as f:
            out += json.load(f)["findings"]
    d = os.path.join(ROOT, "known_findings.d")       # per-property fragments, same format
    if os.path.isdir(d):
        for fn in sorted(os.listdir(d)):
            if fn.endswith(".json"):
                with open(os.path.join(d, fn)) as f:
                    out += json.load(f)["findings"]
    return out


# ---------------------------------------------------------------------------
# worker pool: long-lived fork workers, deterministic partition, ordered results

_POOL_FN: Callable | None = None


def _pool_call(chunk):
    fn = _POOL_FN
    out = []
    for idx, item in chunk:
        out.append((idx, fn(item)))
    return out


class Ctx:
    def __init__(self, prop: str, tier: str, seed: int, level: str):
        self.prop = prop
        self.tier = tier
        self.quick = tier == "quick"
        self.seed = seed
        self.level = level
        self.coverage: dict[str, Any] = {}
        self.assumptions: list[str] = []
        self._violations: dict[str, dict] = {}
        self._viol_count = 0
        self.t0 = time.perf_counter()
        self.notes: list[str] = []

    # -- parallel map ------------------------------------------------------
    def pmap(self, fn: Callable, items: Sequence, chunk: int | None = None, workers: int | None = None) -> list:
        """Apply fn to every item in a pool of long-lived forked workers. Results in item order.
        The partition is deterministic; VERIF_SEED only rotates the order of chunks."""
        global _POOL_FN
        items = list(items)
        n = len(items)
        if n == 0:
            return []
        workers = workers or NWORKERS
        if workers <= 1 or n < 4:
            return [fn(it) for it in items]
        if chunk is None:
            chunk = max(1, min(256, n // (workers * 8) or 1))
        indexed = list(enumerate(items))
        chunks = [indexed[i:i + chunk] for i in range(0, n, chunk)]
        rot = self.seed % len(chunks)
        chunks = chunks[rot:] + chunks[:rot]
        _POOL_FN = fn
        ctx = mp.get_context("fork")
        results: list = [None] * n
        with ctx.Pool(workers) as pool:
            for part in pool.imap_unordered(_pool_call, chunks):
                for idx, r in part:
                    results[idx] = r
        _POOL_FN = None
        return results

    def prove_deterministic(self, fn: Callable, items: Sequence, k: int = 3):
        """Run the first k items twice in-process and once in a separate process; all three
        observations must be identical, otherwise the harness is not trusted."""
        items = list(items)[:k]
        if not items:
            return
        a = [jsonable(fn(it)) for it in items]
        b = [jsonable(fn(it)) for it in items]
        global _POOL_FN
        _POOL_FN = fn
        with mp.get_context("fork").Pool(1) as pool:
            c = [jsonable(r) for _, r in pool.apply(_pool_call, (list(enumerate(items)),))]
        _POOL_FN = None
        if a == c and a != b:
            # The first execution in this process equals the one in a fresh process, but executing the same items again in this
            # process differs: every execution builds fresh objects, so the code under test keeps state between them (a
            # module- or class-level cache, a hoisted scratch buffer).  That is the code's doing, not the harness's.
            k_ = next(i for i, (x, y) in enumerate(zip(a, b)) if x != y)
            self.violation(f"{self.prop}:result-depends-on-earlier-executions",
                           f"executing probe item {k_} a second time in the same process (on fresh objects) gives a different "
                           f"observation than the first time, while a fresh process reproduces the first: the code under test "
                           f"carries state from one instance to the next.  first: {json.dumps(a[k_], default=str)[:300]} second: "
                           f"{json.dumps(b[k_], default=str)[:300]}",
                           {"probe": "prove_deterministic", "item_index": k_,
                            "how_to_reproduce": f"python -m mc check {self.prop} --tier {self.tier}"})
            return
        if a != b or a != c:
            raise HarnessError(f"harness nondeterminism in {self.prop}: repeated executions differ")

    # -- violations --------------------------------------------------------
    def violation(self, signature: str, what: str, replay: dict):
        """Record a violation. Only the first (simplest-first enumeration => smallest) replay per
        signature is kept; the count of all violations is reported."""
        self._viol_count += 1
        if signature not in self._violations:
            self._violations[signature] = {"signature": signature, "what": what, "replay": jsonable(replay)}

    def note(self, s: str):
        self.notes.append(s)
        print(s, flush=True)

    # -- finish ------------------------------------------------------------
    def finish(self) -> int:
        known = {k["signature"]: k for k in load_known() if k["property"] == self.prop and k.get("status") == "known"}
        new = []
        known_hit = []
        for sig, v in sorted(self._violations.items()):
            path = write_replay(self.prop, v)
            if sig in known:
                known_hit.append((sig, v, path))
            else:
                new.append((sig, v, path))
        for sig, v, path in known_hit:
            print(f"KNOWN-FINDING: property={self.prop} {sig}: {known[sig]['what']} (replay={path})")
        for sig, v, path in new:
            print(f"VIOLATION property={self.prop} replay={path}")
            print(f"  signature={sig}\n  {v['what']}")
        cov = dict(self.coverage)
        cov.setdefault("known_findings_seen", [s for s, _, _ in known_hit])
        ev = {
            "property_id": self.prop,
            "tier": self.tier,
            "seed": self.seed,
            "level": self.level,
            "coverage": jsonable(cov),
            "assumptions": self.assumptions,
            "wall_s": round(time.perf_counter() - self.t0, 2),
            "violations": len(new),
        }
        os.makedirs(EVIDENCE_DIR, exist_ok=True)
        tmp = os.path.join(EVIDENCE_DIR, f".{self.prop}.json.tmp")
        with open(tmp, "w") as f:
            json.dump(ev, f, indent=1, sort_keys=True)
            f.write("\n")
        os.replace(tmp, os.path.join(EVIDENCE_DIR, f"{self.prop}.json"))
        summary = {k: v for k, v in cov.items() if isinstance(v, (int, float, bool, str)) and k not in ("rule", "explanation")}
        print(f"[{self.prop}] tier={self.tier} seed={self.seed} {summary} wall={ev['wall_s']}s "
              f"violations={len(new)} known={len(known_hit)}", flush=True)
        return 1 if new else 0


def write_replay(prop: str, v: dict) -> str:
    d = os.path.join(REPLAY_DIR, prop)
    os.makedirs(d, exist_ok=True)
    body = {"property": prop, "signature": v["signature"], "what": v["what"], "data": v["replay"]}
    blob = json.dumps(body, indent=1, sort_keys=True)
    h = hashlib.sha1(blob.encode()).hexdigest()[:12]
    path = os.path.join(d, f"{h}.json")
    with open(path, "w") as f:
        f.write(blob + "\n")
    return path


def load_check(prop: str):
    return importlib.import_module(f"mc.checks.{prop.lower()}")


def run_check(prop: str, tier: str, seed: int) -> int:
    try:
        mod = load_check(prop)
        ctx = Ctx(prop, tier, seed, mod.LEVEL)
        mod.run(ctx)
        return ctx.finish()
    except HarnessError as e:
        print(f"HARNESS-ERROR property={prop}: {e}", flush=True)
        return 2
    except Exception:
        traceback.print_exc()
        print(f"HARNESS-ERROR property={prop}: unexpected exception in the check itself", flush=True)
        return 2


def run_replay(path: str) -> int:
    with open(path) as f:
        body = json.load(f)
    mod = load_check(body["property"])
    if isinstance(body["data"], dict) and body["data"].get("probe") == "prove_deterministic":
        print(f"this finding comes from the repeated-execution probe of the check; re-run: {body['data'].get('how_to_reproduce')}")
        print(f"VIOLATION property={body['property']} replay={path}\n  signature={body.get('signature')}\n  {body.get('what')}")
        return 1
    res = mod.replay(body["data"])
    again = mod.replay(body["data"])
    if jsonable(res) != jsonable(again):
        print("HARNESS-ERROR replay is not deterministic")
        return 2
    if not res:
        print(f"replay {path}: property {body['property']} holds on this execution")
        return 0
    for sig, what in res:
        print(f"VIOLATION property={body['property']} replay={path}\n  signature={sig}\n  {what}")
    return 1
