"""2-second self-test of the explorers (run by MANIFEST.setup_cmd)."""
from mc import explore


def main() -> int:
    # choice explorer: a body with 3 binary points has 1 + 3 + 3 executions at bound 2
    def body(ch):
        return tuple(ch.pick(2) for _ in range(3))
    got = sorted(r for _, r in explore.choice_vectors(body, 2))
    want = sorted(t for t in __import__("itertools").product((0, 1), repeat=3) if sum(t) <= 2)
    assert got == want, (got, want)
    # bfs on a counter mod 5 with +1/+2
    res = explore.bfs(lambda h: sum(h) % 5, lambda s, h: (1, 2), lambda s: s, lambda h, e, n: None, depth=10)
    assert res.states == 5, res.states
    # replay divergence is a hard error
    try:
        explore.Chooser([5]).pick(2)
    except RuntimeError:
        pass
    else:
        raise AssertionError("out-of-range replay accepted")
    import openpectus  # the repo must import
    print("selftest ok")
    return 0
