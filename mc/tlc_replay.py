"""TLC side of C23: run TLC on models/HwRecovery.tla, load the labelled state graph, and use it as the reference model
whose behaviours are replayed against the real ErrorRecoveryDecorator.

    graph = load_graph()            # runs `tlc -dump dot,actionlabels` in a scratch directory (removed afterwards)
    cross_check(graph)              # every (state, action) of the TLC graph has exactly the successors of the Python
                                    # reference model mc.hw_harness.Model (the quick tier's model) - model drift is an error
    m = TlcModel(graph, connected)  # set-valued (subset construction) model with the interface of mc.hw_harness.Model

The thorough tier of C23 explores all event histories up to its depth bound on the real decorator and steps the TLC graph
alongside; `TlcModel.covered` records which graph edges were taken by a behaviour the implementation actually followed.
"""
from __future__ import annotations

import os
import re
import shutil
import subprocess
import tempfile

from mc import hw_harness as H
from mc.core import HarnessError

MODEL_DIR = os.path.join(os.path.dirname(os.path.dirname(os.path.abspath(__file__))), "models")
_NODE = re.compile(r'^(-?\d+) \[label="((?:[^"\\]|\\.)*)"')
_EDGE = re.compile(r'^(-?\d+) -> (-?\d+) \[label="([^"]+)"')
_VAR = re.compile(r'(\w+) = "?(\w+)"?')


class Graph:
    def __init__(self):
        self.nodes: dict[str, tuple] = {}                 # id -> (st, aOk, aIssue, aRec)
        self.succ: dict[tuple[str, str], set[str]] = {}   # (id, label) -> successor ids
        self.init: list[str] = []
        self.summary = ""

    @property
    def n_edges(self):
        return sum(len(v) for v in self.succ.values())


def load_graph() -> Graph:
    tmp = tempfile.mkdtemp(prefix="tlc_c23_")
    try:
        for fn in ("HwRecovery.tla", "HwRecovery.cfg"):
            shutil.copy(os.path.join(MODEL_DIR, fn), tmp)
        cmd = ["tlc", "-workers", "1", "-noGenerateSpecTE", "-metadir", os.path.join(tmp, "meta"),
               "-dump", "dot,actionlabels", os.path.join(tmp, "g"), "HwRecovery.tla"]
        p = subprocess.run(cmd, cwd=tmp, capture_output=True, text=True, timeout=900)
        out = p.stdout + p.stderr
        if "Model checking completed. No error has been found." not in out:
            raise HarnessError("TLC did not complete cleanly on models/HwRecovery.tla:\n" + out[-2000:])
        g = Graph()
        m = re.search(r"(\d+) states generated, (\d+) distinct states found", out)
        g.summary = m.group(0) if m else ""
        with open(os.path.join(tmp, "g.dot")) as f:
            for line in f:
                line = line.strip()
                e = _EDGE.match(line)
                if e:
                    g.succ.setdefault((e.group(1), e.group(3)), set()).add(e.group(2))
                    continue
                n = _NODE.match(line)
                if n:
                    vals = dict(_VAR.findall(n.group(2).replace('\\"', '"')))
                    g.nodes[n.group(1)] = (vals["st"], int(vals["aOk"]), int(vals["aIssue"]), int(vals["aRec"]))
                    if "style = filled" in line:
                        g.init.append(n.group(1))
        if len(g.nodes) != int(m.group(2)) or not g.init:
            raise HarnessError(f"could not read the TLC graph: {len(g.nodes)} nodes, summary {g.summary!r}")
        return g
    finally:
        shutil.rmtree(tmp, ignore_errors=True)


# harness event -> action label of the TLA+ model ---------------------------------------------------------------------
ELAPSE = {"el_small": f"Elapse({H.EL_SMALL})", "el_rec": f"Elapse({H.EL_REC})", "el_err": f"Elapse({H.EL_ERR})"}


def tla_label(ev: str, pre_state: str) -> str:
    kind = H.event_kind(ev, pre_state)
    if kind == "rw_ok":
        return "RwOk"
    if kind == "rw_err":
        return "RwErr"
    if kind == "elapse":
        return ELAPSE.get(ev, "Elapse(0)")
    return {"recon_ok": "ReconOk", "recon_fail": "ReconFail", "connect_ok": "ConnectOk", "connect_fail": "ConnectFail"}[kind]


KIND_OF_LABEL = {"RwOk": ("rw_ok", 0), "RwErr": ("rw_err", 0), "ReconOk": ("recon_ok", 0), "ReconFail": ("recon_fail", 0),
                 "ConnectOk": ("connect_ok", 0), "ConnectFail": ("connect_fail", 0), "Elapse(0)": ("elapse", 0),
                 f"Elapse({H.EL_SMALL})": ("elapse", H.EL_SMALL), f"Elapse({H.EL_REC})": ("elapse", H.EL_REC),
                 f"Elapse({H.EL_ERR})": ("elapse", H.EL_ERR)}


def _abstract(ms, now):
    st, t_ok, t_issue, t_rec = ms
    if st == "Disconnected":
        return (st, 0, 0, 0)
    cap_r, cap_e = H.T_RECONNECT + 1, H.T_ERROR + 1
    a_ok = min(int(now - t_ok), cap_r)
    a_issue = min(int(now - t_issue), cap_r) if t_issue is not None and st in ("Issue", "Reconnect", "Error") else 0
    a_rec = min(int(now - t_rec), cap_e) if t_rec is not None and st in ("Reconnect", "Error") else 0
    return (st, a_ok, a_issue, a_rec)


def cross_check(g: Graph) -> int:
    """The Python reference model of the quick tier and the TLA+ model must define the same successor relation."""
    now = 1000.0
    checked = 0
    for nid, (st, a_ok, a_issue, a_rec) in g.nodes.items():
        ms = (st, now - a_ok, (now - a_issue) if st in ("Issue", "Reconnect", "Error") else None,
              (now - a_rec) if st in ("Reconnect", "Error") else None)
        for label, (kind, d) in KIND_OF_LABEL.items():
            tla = {g.nodes[x] for x in g.succ.get((nid, label), ())}
            if kind in ("recon_ok", "recon_fail") and st not in ("Reconnect", "Error"):
                py = set()          # not enabled (the harness maps a tick outside Reconnect/Error to Elapse(0))
            elif kind in ("connect_ok", "connect_fail") and st != "Disconnected":
                py = set()
            else:
                py = {_abstract(x, now + d) for x in H.Model._succ(ms, kind, now + d)}
            if tla != py:
                raise HarnessError(f"reference models disagree in {g.nodes[nid]} on {label}: TLA+ {sorted(tla)} vs Python {sorted(py)}")
            checked += 1
    return checked


class TlcModel:
    """Same interface as mc.hw_harness.Model, backed by the TLC state graph."""

    def __init__(self, g: Graph, connected: bool, covered: set | None = None):
        self.g = g
        want = "OK" if connected else "Disconnected"
        self.states = {n for n in g.init if g.nodes[n][0] == want}
        self.covered = covered if covered is not None else set()
        self._last: list[tuple[str, str, str]] = []

    def step_label(self, label: str):
        nxt = set()
        self._last = []
        for n in self.states:
            for x in self.g.succ.get((n, label), ()):
                nxt.add(x)
                self._last.append((n, label, x))
        self.states = nxt

    def restrict(self, impl_state: str) -> bool:
        keep = {n for n in self.states if self.g.nodes[n][0] == impl_state}
        if not keep:
            return False
        self.states = keep
        self.covered.update(e for e in self._last if e[2] in keep)
        return True

    def resync(self, impl_state: str):
        self.states = {n for n, v in self.g.nodes.items() if v[0] == impl_state}

    def names(self):
        return sorted({self.g.nodes[n][0] for n in self.states})

    def key(self):
        return frozenset(self.states)


# replay of model traces ------------------------------------------------------------------------------------------------
EVENT_OF_LABEL = {"RwOk": "rb_ok", "RwErr": "rb_fail", "ReconOk": "tick_ok", "ReconFail": "tick_fail", "ConnectOk": "connect_ok",
                  "ConnectFail": "connect_fail", f"Elapse({H.EL_SMALL})": "el_small", f"Elapse({H.EL_REC})": "el_rec",
                  f"Elapse({H.EL_ERR})": "el_err"}


def shortest_paths(g: Graph) -> dict[str, tuple[str, list[str]]]:
    """node id -> (initial node, shortest list of action labels from it) (BFS over the TLC graph)"""
    import collections
    paths = {n: (n, []) for n in sorted(g.init)}
    todo = collections.deque(sorted(g.init))
    by_src = collections.defaultdict(list)
    for (n, label), xs in sorted(g.succ.items()):
        for x in sorted(xs):
            by_src[n].append((label, x))
    while todo:
        n = todo.popleft()
        for label, x in by_src[n]:
            if x not in paths:
                paths[x] = (paths[n][0], paths[n][1] + [label])
                todo.append(x)
    return paths


def edge_traces(g: Graph):
    """One trace per edge of the TLC graph: the shortest path to its source, then the edge.  Yields (init node, [labels], edge)."""
    paths = shortest_paths(g)
    for (n, label), xs in sorted(g.succ.items()):
        if n not in paths:
            continue
        for x in sorted(xs):
            yield (paths[n][0], paths[n][1] + [label], (n, label, x))


def event_for(label: str, impl_state: str) -> str | None:
    """the harness event that is the TLA+ action `label` in the implementation state; None = no such event"""
    if label == "Elapse(0)":
        return "tick_ok" if impl_state not in ("Reconnect", "Error", "Disconnected") else None
    if label in ("ReconOk", "ReconFail") and impl_state not in ("Reconnect", "Error"):
        return None
    return EVENT_OF_LABEL[label]
