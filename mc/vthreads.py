"""Cooperative scheduler for real Python threads (C40).

Each body runs in its own OS thread but only one runs at a time: a thread runs until it reaches a yield point
(`sched.point(name)`, called from openpectus.engine.verif_hooks, or an operation on a `SchedLock`), then the controller
decides who runs next.  The decision sequence comes from a `Chooser` (mc.explore), option 0 = keep running the current
thread when it is still enabled, so the deviation bound of `choice_vectors` is a preemption bound.
"No enabled thread" while some are unfinished is reported as a deadlock.
"""
from __future__ import annotations

import threading
from typing import Callable, Sequence


class Deadlock(Exception):
    pass


class SchedLock:
    """Replacement for threading.Lock whose blocking is visible to the scheduler."""

    def __init__(self, sched: "Scheduler", name="lock"):
        self.sched = sched
        self.name = name
        self.owner: int | None = None

    def acquire(self, blocking=True, timeout=-1):
        me = self.sched.current
        self.sched.point(f"{self.name}.acquire")
        while self.owner is not None:
            self.sched.block_on(self)
        self.owner = me
        return True

    def release(self):
        self.owner = None
        self.sched.wake(self)

    def __enter__(self):
        self.acquire()
        return self

    def __exit__(self, *a):
        self.release()

    def locked(self):
        return self.owner is not None


class Scheduler:
    def __init__(self, chooser):
        self.ch = chooser
        self.current: int | None = None
        self.sems: list[threading.Semaphore] = []
        self.ctl = threading.Semaphore(0)
        self.state: list[str] = []          # "ready" | "blocked" | "done"
        self.blocked_on: list = []
        self.trace: list[tuple[int, str]] = []
        self.errors: list = []
        self.preemptions = 0

    # -- called from worker threads ------------------------------------------------
    def point(self, name: str):
        me = self.current
        if me is None or threading.current_thread() is not self.threads[me]:
            return                          # a hook reached outside a scheduled section
        self.trace.append((me, name))
        self._yield(me)

    def block_on(self, lock: SchedLock):
        me = self.current
        self.state[me] = "blocked"
        self.blocked_on[me] = lock
        self.trace.append((me, f"blocked:{lock.name}"))
        self._yield(me)

    def wake(self, lock: SchedLock):
        for i, b in enumerate(self.blocked_on):
            if b is lock and self.state[i] == "blocked":
                self.state[i] = "ready"
                self.blocked_on[i] = None

    def _yield(self, me: int):
        self.ctl.release()
        self.sems[me].acquire()

    # -- controller ----------------------------------------------------------------
    def run(self, bodies: Sequence[Callable[[], None]]):
        n = len(bodies)
        self.sems = [threading.Semaphore(0) for _ in range(n)]
        self.state = ["ready"] * n
        self.blocked_on = [None] * n
        self.threads = []

        def wrap(i, body):
            def f():
                self.sems[i].acquire()
                try:
                    body()
                except BaseException as ex:          # recorded, judged by the oracle
                    self.errors.append((i, f"{type(ex).__name__}: {str(ex)[:120]}"))
                finally:
                    self.state[i] = "done"
                    self.ctl.release()
            return f
        for i, b in enumerate(bodies):
            t = threading.Thread(target=wrap(i, b), daemon=True)
            self.threads.append(t)
            t.start()
        last = None
        while True:
            enabled = [i for i in range(n) if self.state[i] == "ready"]
            if not enabled:
                if any(s == "blocked" for s in self.state):
                    raise Deadlock(f"threads blocked: {[(i, self.blocked_on[i].name) for i in range(n) if self.state[i] == 'blocked']}")
                break
            # canonical order: the running thread first if still enabled, then ascending ids
            order = ([last] if last in enabled else []) + [i for i in enabled if i != last]
            k = self.ch.pick(len(order), label=f"sched@{len(self.trace)}") if len(order) > 1 else 0
            nxt = order[k]
            if last in enabled and nxt != last:
                self.preemptions += 1
            last = nxt
            self.current = nxt
            self.sems[nxt].release()
            self.ctl.acquire()
        self.current = None
        for t in self.threads:
            t.join(timeout=2)
