"""Environment model for C27 (DESIGN.md A.3): the REAL EngineRunner on a VirtualLoop.

    link in {up, down};  inflight: FIFO of (message, attempt, future);  log: totally ordered observation list
    send_async(m):  engine_id/sequence number via the REAL EngineDispatcher.assign_sequence_number;
                    link down -> raise ProtocolNetworkException ("sendfail")
                    link up   -> log "send" (the message is on the wire, FIFO), suspend on an explorer-owned future;
                                 the explorer completes it "ok" (SuccessMessage) or "lost" (ProtocolNetworkException)
    connect_async:  link down -> ProtocolNetworkException, else engine_id := "e1"
    engine events:  emitter.emit_on_start / emit_on_stop (EngineRunner.on_start/on_stop hand the messages over with
                    asyncio.run_coroutine_threadsafe exactly as on the engine thread); "tag" puts one tag update into
                    the stub builder's queue (the runner polls the builder, as it polls Engine.tag_updates).

Nothing of the runner is re-implemented; `_post_async` and `_buffer_message` are wrapped on the instance only to *record*
(message identity, runner state at call time).
"""
from __future__ import annotations

import asyncio
import logging
import types

from mc.vloop import VirtualLoop

BUFFERING = ("Failed", "Disconnected", "Reconnecting")
CAUGHT_UP = ("Connected", "Reconnected")
T0_WALL = 1_700_000_000.0


class StubBuilder:
    """Message builder producing numbered, identifiable messages of the real message classes."""

    def __init__(self):
        import openpectus.protocol.engine_messages as EM
        import openpectus.protocol.models as Mdl
        self.EM, self.Mdl = EM, Mdl
        self.msgs: list = []               # strong references: index = message id (mid)
        self.kinds: list[str] = []
        self.run_ids: list = []
        self._index: dict[int, int] = {}
        self.pending_tags = 0
        self.tag_counter = 0
        self.now = lambda: 0.0
        self._ms = Mdl.MethodState(started_line_ids=[], executed_line_ids=[], injected_line_ids=[], failed_line_ids=[])
        self._cs = Mdl.ControlState(is_running=False, is_holding=False, is_paused=False)
        self._method = Mdl.Method(version=0, lines=[])
        self._runlog = Mdl.RunLog(lines=[])
        self._uoddef = Mdl.UodDefinition(commands=[], system_commands=[], tags=[])
        self._plot = Mdl.PlotConfiguration(process_value_names_to_annotate=[], color_regions=[], sub_plots=[],
                                           x_axis_process_value_names=[])

    def _reg(self, msg, run_id=None):
        self._index[id(msg)] = len(self.msgs)
        self.msgs.append(msg)
        self.kinds.append(type(msg).__name__)
        self.run_ids.append(run_id)
        return msg

    def mid(self, msg) -> int:
        i = self._index.get(id(msg))
        if i is None or self.msgs[i] is not msg:
            i = self._reg(msg, getattr(msg, "run_id", None))      # a message not made by the builder
        return i

    # -- the EngineMessageBuilder interface used by EngineRunner / EngineDispatcher -------------------------------
    def create_register_engine_msg(self, **kw):
        return self.EM.RegisterEngineMsg(secret="", engine_version="0", computer_name="pc", ignore_version_error=False, **kw)

    def create_uod_info(self):
        return self._reg(self.EM.UodInfoMsg(readings=[], commands=[], uod_definition=self._uoddef, plot_configuration=self._plot,
                                            hardware_str="hw", required_roles=set(), data_log_interval_seconds=1.0))

    def create_tag_updates_snapshot_msg(self):
        # like collect_tag_updates(snapshot=True): all tags, which also drains the queued updates
        self.pending_tags = 0
        t = self.Mdl.TagValue(name="Snapshot", tick_time=self.now(), value=len(self.msgs), value_unit=None)
        return self._reg(self.EM.TagsUpdatedMsg(tags=[t]))

    def create_tag_updates_msg(self, run_id):
        if self.pending_tags <= 0:
            return None
        tags = []
        for _ in range(self.pending_tags):
            self.tag_counter += 1
            tags.append(self.Mdl.TagValue(name=f"T{self.tag_counter}", tick_time=self.now(), value=self.tag_counter, value_unit=None))
        self.pending_tags = 0
        return self._reg(self.EM.TagsUpdatedMsg(tags=tags, run_id=run_id), run_id)

    def create_run_started_msg(self, run_id, tick_time):
        return self._reg(self.EM.RunStartedMsg(run_id=run_id, started_tick=tick_time), run_id)

    def create_run_stopped_msg(self, run_id):
        return self._reg(self.EM.RunStoppedMsg(run_id=run_id, runlog=self._runlog, method_state=self._ms, archive=None,
                                               archive_filename=None), run_id)

    def create_runlog_msg(self, run_id):
        return self._reg(self.EM.RunLogMsg(id="rl", run_id=run_id, runlog=self._runlog), run_id)

    def create_error_log_msg(self):
        return None

    def create_control_state_msg(self):
        return self._reg(self.EM.ControlStateMsg(control_state=self._cs))

    def create_method_state_msg(self):
        return self._reg(self.EM.MethodStateMsg(method_state=self._ms))

    def create_method_msg(self):
        return self._reg(self.EM.MethodMsg(method=self._method))

    def _wpn(self, topic):
        EM = self.EM
        return self._reg(EM.WebPushNotificationMsg(notification=EM.WebPushNotification(title="i", body=topic.name), topic=topic))

    def create_wpn_run_started_msg(self):
        return self._wpn(self.EM.NotificationTopic.RUN_START)

    def create_wpn_run_stopped_msg(self):
        return self._wpn(self.EM.NotificationTopic.RUN_STOP)

    def create_wpn_run_paused_msg(self):
        return self._wpn(self.EM.NotificationTopic.RUN_PAUSE)

    def create_wpn_network_error_msg(self):
        return self._wpn(self.EM.NotificationTopic.NETWORK_ERRORS)


def make_dispatcher(world, builder):
    from openpectus.protocol.engine_dispatcher import EngineDispatcher
    from openpectus.protocol.exceptions import ProtocolException, ProtocolNetworkException
    import openpectus.protocol.messages as M

    class FakeLinkDispatcher(EngineDispatcher):
        """Real dispatcher (real assign_sequence_number, real _sequence_number counter, real _register_for_engine_id_async); only the wire (websocket and the REST post of the registration) is a model."""

        def __init__(self):
            super().__init__(builder, aggregator_host="", secure=False,
                             uod_options={"uod_name": "u", "uod_author_name": "a", "uod_author_email": "e",
                                          "uod_filename": "f", "location": "l"})

        async def send_registration_msg_async(self, message):
            # the REST post of the registration: fails iff the link is down, does not suspend
            import openpectus.protocol.aggregator_messages as AM
            if not world.link_up:
                raise ProtocolNetworkException("Post failed with exception")
            return AM.RegisterEngineReplyMsg(success=True, engine_id="e1", secret_match=True, version_match=True)

        async def connect_async(self):
            if self._engine_id is None:
                # the REAL registration routine (the runner clears the engine id on every failure, so every reconnect registers again)
                try:
                    self._engine_id = await self._register_for_engine_id_async()
                except ProtocolNetworkException:
                    world.log.append(("connect", "fail"))
                    raise
                if self._engine_id is None:
                    world.log.append(("connect", "fail"))
                    raise ProtocolNetworkException("Registration failed")
            if not world.link_up:
                world.log.append(("connect", "fail"))
                raise ProtocolNetworkException("Error creating websocket connection")
            self._rpc_client = world       # any non-None sentinel
            world.log.append(("connect", "ok"))

        async def disconnect_async(self):
            self._rpc_client = None

        async def send_async(self, message):
            if self._engine_id is None:
                raise ProtocolException("Engine did not have engine_id yet")
            message.engine_id = self._engine_id
            self.assign_sequence_number(message)
            mid = builder.mid(message)
            if not world.link_up:
                world.log.append(("sendfail", mid, message.sequence_number))
                raise ProtocolNetworkException("Connection closed")
            world.attempts += 1
            att = world.attempts
            fut = world.loop.create_future()
            world.inflight.append((mid, att, fut))
            world.log.append(("send", mid, message.sequence_number, att))
            await fut                                # ok -> None ; lost -> ProtocolNetworkException
            return M.SuccessMessage()

    return FakeLinkDispatcher()


class World:
    """One execution: fresh real EngineRunner + EventEmitter + dispatcher on a fresh VirtualLoop."""

    def __init__(self, backoff: float = 0.5):
        logging.disable(logging.CRITICAL)
        import openpectus.engine.engine_runner as er
        from openpectus.lang.exec.events import EventEmitter
        from openpectus.protocol.exceptions import ProtocolNetworkException
        self._er = er
        self._PNE = ProtocolNetworkException
        self.loop = VirtualLoop()
        self.link_up = True
        self.inflight: list = []
        self.attempts = 0
        self.log: list[tuple] = []
        self.tasks: list = []
        self.loop.set_task_factory(self._task_factory)
        # the runner's only sources of nondeterminism: reconnect back-off and wall clock of the run start tick
        self._saved = (er.random, er.time)
        er.random = types.SimpleNamespace(uniform=lambda a, b: backoff)
        er.time = types.SimpleNamespace(time=lambda: T0_WALL + self.loop.time())
        self.builder = StubBuilder()
        self.builder.now = lambda: T0_WALL + self.loop.time()
        self.loop.__enter__()
        try:
            self.dispatcher = make_dispatcher(self, self.builder)
            self.emitter = EventEmitter([])
            self.runner = er.EngineRunner(self.dispatcher, self.builder, self.emitter, self.loop)
            self._instrument()
        except BaseException:
            self.close()
            raise

    def _task_factory(self, loop, coro, **kw):
        t = asyncio.Task(coro, loop=loop, **kw)
        self.tasks.append(t)
        return t

    def _instrument(self):
        r, b, log = self.runner, self.builder, self.log
        orig_post, orig_buffer = r._post_async, r._buffer_message

        async def post_recorded(message):
            mid = b.mid(message)
            log.append(("post", mid, r.state))
            try:
                res = await orig_post(message)
            except BaseException as ex:
                log.append(("postexc", mid, type(ex).__name__))
                raise
            log.append(("postret", mid, r.state))
            return res

        def buffer_recorded(message):
            orig_buffer(message)
            log.append(("buffer", b.mid(message), r.state, message.sequence_number))

        async def state_changing(prev, new):
            log.append(("state", prev, new))

        r._post_async = post_recorded
        r._buffer_message = buffer_recorded
        r.state_changing_callback = state_changing

    # -- explorer actions (call only at quiescent points) -------------------------------------------------------------
    def settle(self):
        self.loop.run_ready()

    def ack(self, ok: bool, settle: bool = True):
        mid, att, fut = self.inflight.pop(0)
        self._complete(mid, att, fut, ok)
        if settle:
            self.loop.run_ready()

    def _complete(self, mid, att, fut, ok):
        """The message was on the wire; ok = it arrived and was acknowledged.  If the sending task was cancelled while it
        waited (future cancelled), nobody in the runner learns the outcome: '<outcome>-abandoned'."""
        if fut.cancelled():
            self.log.append(("ack", mid, att, "ok-abandoned" if ok else "lost-abandoned"))
        elif ok:
            self.log.append(("ack", mid, att, "ok"))
            fut.set_result(None)
        else:
            self.log.append(("ack", mid, att, "lost"))
            fut.set_exception(self._PNE("Connection closed"))

    def fire_timer(self, settle: bool = True):
        return self.loop.fire_next_timer(run=settle)

    def set_link(self, up: bool, settle: bool = True):
        self.link_up = up
        self.log.append(("link", "up" if up else "down"))
        if not up:
            pend, self.inflight = self.inflight, []
            for mid, att, fut in pend:
                self._complete(mid, att, fut, False)
        if settle:
            self.loop.run_ready()

    def event(self, ev: str):
        self.log.append(("event", ev, self.runner.state))
        if ev.startswith("start:"):
            self.emitter.emit_on_start(ev[6:])
        elif ev == "stop":
            self.emitter.emit_on_stop()
        elif ev == "tag":
            self.builder.pending_tags += 1
        else:
            raise ValueError(ev)
        self.loop.run_ready()

    # -- observation ---------------------------------------------------------------------------------------------------
    def buffer_mids(self):
        return [self.builder.mid(m) for m in self.runner._message_buffer]

    def snapshot(self):
        return (self.runner.state, len(self.inflight), len(self.runner._message_buffer), self.link_up)

    def task_errors(self):
        out = []
        for t in self.tasks:
            if t.done() and not t.cancelled():
                e = t.exception()
                if e is not None:
                    out.append((t.get_name() if not t.get_name().startswith("Task-") else "Task", type(e).__name__, str(e)[:80]))
        return out

    def close(self):
        try:
            errs = None
            if not self.loop.is_closed():
                errs = self.task_errors()
                self.loop.shutdown()
            return errs
        finally:
            if self.loop._entered:
                self.loop.__exit__(None, None, None)
            self._er.random, self._er.time = self._saved
